"""Firing variants and silent twins, one list per property.  Each edit is (relative file, old text, new text)."""

VARIANTS = []


def V(prop, name, expect, edits, rule=None, mention=None, thorough=False):
    VARIANTS.append({"property": prop, "name": f"{prop}.{name}", "expect": expect, "edits": edits, "rule": rule,
                     "mention": mention, "thorough": thorough})


JT = "annet/annlib/jsontools.py"
# ---------------------------------------------------------------- C13
V("C13", "sorted_again", "fire", [(JT, "return list(jsonpatch.make_patch(old, new).patch)",
                                   "return sorted(jsonpatch.make_patch(old, new).patch, key=lambda o: o['path'])")], rule="C13.R1")
V("C13", "sort_inplace", "fire", [(JT, "return list(jsonpatch.make_patch(old, new).patch)",
                                   "ops = list(jsonpatch.make_patch(old, new).patch)\n    ops.sort(key=str)\n    return ops")], rule="C13.R1")
V("C13", "twin_local_var", "silent", [(JT, "return list(jsonpatch.make_patch(old, new).patch)",
                                       "patch = jsonpatch.make_patch(old, new)\n    ops = patch.patch\n    return [op for op in ops]")])
V("C13", "raw_join", "fire", [(JT, '"/".join(jsonpointer.escape(p) for p in matched_parts)', '"/".join(matched_parts)')], rule="C13.R2")
V("C13", "twin_from_parts", "silent", [(JT, 'jsonpointer.JsonPointer("/" + "/".join(jsonpointer.escape(p) for p in matched_parts))',
                                        'jsonpointer.JsonPointer.from_parts(matched_parts)')])
V("C13", "no_deepcopy", "fire", [(JT, "full_new_config = copy.deepcopy(old)", "full_new_config = old")], rule="C13.R3")
V("C13", "shallow_copy", "fire", [(JT, "full_new_config = copy.deepcopy(old)", "full_new_config = dict(old)")], rule="C13.R3")
V("C13", "filter_no_copy", "fire", [(JT, "result = {}\n    for f in filters:", "result = content\n    for f in filters:")], rule="C13.R3")
V("C13", "twin_copy_renamed", "silent", [(JT, "full_new_config = copy.deepcopy(old)", "base = copy.deepcopy(old)\n    full_new_config = base")])
V("C13", "delete_own_keys", "fire", [(JT, "to_delete = [p for p in old_pointers if p.path not in paths]",
                                      "to_delete = [jsonpointer.JsonPointer('/' + k) for k in full_new_config.keys() if ('/' + k) not in paths]")], rule="C13.R4")
V("C13", "wrong_acl_for_delete", "fire", [(JT, "old_pointers = _resolve_json_pointers(acl_item, full_new_config)",
                                           "old_pointers = _resolve_json_pointers(acl[0], full_new_config)")], rule="C13.R4")

PT = "annet/annlib/patching.py"
CM = "annet/annlib/rulebook/common.py"
API = "annet/api/__init__.py"
TP = "annet/annlib/tabparser.py"
SX = "annet/annlib/rbparser/syntax.py"
ACLP = "annet/annlib/rbparser/acl.py"
RP = "annet/rulebook/patching.py"
DP = "annet/deploy.py"
GEN = "annet/gen.py"
GI = "annet/generators/__init__.py"
RES = "annet/generators/result.py"
PAR = "annet/parallel.py"
IMP = "annet/implicit.py"

# ---------------------------------------------------------------- C01
V("C01", "drop_removed_arm", "fire", [(CM, "    elif diff[Op.REMOVED]:\n        # При удалении или перемещеннии блока просто снести строку\n        yield (False, rule[\"reverse\"].format(*key), None)\n\n\ndef ordered", "\n\ndef ordered")], rule="C01.R2")
V("C01", "undo_redo_swapped", "fire", [(CM, "for side in [Op.REMOVED, Op.ADDED]:", "for side in [Op.ADDED, Op.REMOVED]:")], rule="C01.R2")
V("C01", "twin_default_respelled", "silent", [(CM, "    elif diff[Op.REMOVED]:\n        # При удалении или перемещеннии блока просто снести строку\n        yield (False, rule[\"reverse\"].format(*key), None)",
                                               "    else:\n        if diff[Op.REMOVED]:\n            yield (False, rule[\"reverse\"].format(*key), None)")])
V("C01", "pre_not_sub_pre", "fire", [(PT, "                            pre=sub_pre,", "                            pre=pre,")], rule="C01.R1")
V("C01", "strip_before_pre", "fire", [(API, "    diff_tree = patching.make_diff(old, new, rb, [acl_rules, filter_acl_rules])\n    pre = patching.make_pre(diff_tree)",
                                       "    diff_tree = patching.make_diff(old, new, rb, [acl_rules, filter_acl_rules])\n    diff_tree = patching.strip_unchanged(diff_tree)\n    pre = patching.make_pre(diff_tree)")], rule="C01.R1")
V("C01", "add_block_guard", "fire", [(PT, "if (not item[\"children\"] and not item[\"parent\"]) or not item[\"direct\"]:", "if not item[\"children\"] or not item[\"direct\"]:")], rule="C01.R3")
V("C01", "twin_add_block_demorgan", "silent", [(PT, "if (not item[\"children\"] and not item[\"parent\"]) or not item[\"direct\"]:", "if not (item[\"direct\"] and (item[\"children\"] or item[\"parent\"])):")])
V("C01", "twin_rename_local", "silent", [(API, "    pre = patching.make_pre(diff_tree)\n    patch_tree = patch_from_pre(pre, device.hw, rb, add_comments, ref_track, do_commit)",
                                          "    grouped = patching.make_pre(diff_tree)\n    patch_tree = patch_from_pre(grouped, device.hw, rb, add_comments, ref_track, do_commit)")])
V("C01", "bad_rule_row", "fire", [("annet/rulebook/texts/arista.rul", "\n", "\nfoo (a|b) *\n")], rule="C01.R4")
V("C01", "twin_good_rule_row", "silent", [("annet/rulebook/texts/arista.rul", "\n", "\nfoo */(a|b)/ *\n")])

# ---------------------------------------------------------------- C02
V("C02", "break_after_first_acl", "fire", [(PT, "            diff = apply_acl_diff(diff, acl_rules)\n    diff = mark_unchanged(diff)", "            diff = apply_acl_diff(diff, acl_rules)\n            break\n    diff = mark_unchanged(diff)")], rule="C02.R1")
V("C02", "no_cant_delete_rewrite", "fire", [(PT, "            if op == Op.REMOVED and all(match[\"attrs\"][\"cant_delete\"]):\n                op = Op.AFFECTED\n", "")], rule="C02.R2")
V("C02", "twin_rewrite_ifexp", "silent", [(PT, "            if op == Op.REMOVED and all(match[\"attrs\"][\"cant_delete\"]):\n                op = Op.AFFECTED\n",
                                           "            op = Op.AFFECTED if (op == Op.REMOVED and all(match[\"attrs\"][\"cant_delete\"])) else op\n")])
V("C02", "only_filter_acl", "fire", [(API, "patching.make_diff(old, new, rb, [acl_rules, filter_acl_rules])", "patching.make_diff(old, new, rb, [filter_acl_rules])")], rule="C02.R4")
V("C02", "uniter_first_wins", "fire", [(ACLP, "\"default\":   (lambda raw_rule: [raw_rule.startswith(\"interface\")]),  # FIXME: ужас какой\n        \"uniter\": (lambda a, b: a + b)",
                                         "\"default\":   (lambda raw_rule: [raw_rule.startswith(\"interface\")]),  # FIXME: ужас какой\n        \"uniter\": (lambda a, b: a)")], rule="C02.R5")
V("C02", "twin_none_check_respelled", "silent", [(PT, "        if acl_rules is not None:\n            diff = apply_acl_diff(diff, acl_rules)", "        if acl_rules is None:\n            continue\n        diff = apply_acl_diff(diff, acl_rules)")])

# ---------------------------------------------------------------- C03
V("C03", "moved_missing_in_order", "fire", [("annet/annlib/diff.py", "    Op.MOVED: 1,\n", "")], rule="C03.R1")
V("C03", "moved_sign_blank", "fire", [(TP, "            Op.MOVED: \">\",", "            Op.MOVED: \" \",")], rule="C03.R1")
V("C03", "drop_new_pop", "fire", [(PT, "            old.pop(row, None)\n            new.pop(row, None)", "            old.pop(row, None)")], rule="C03.R3")
V("C03", "strip_no_recursion", "fire", [(PT, "        children = strip_unchanged(children)\n", "")], rule="C03.R4")
V("C03", "twin_strip_respelled", "silent", [(PT, "        if op == Op.UNCHANGED:\n            continue\n        children = strip_unchanged(children)\n        passed.append((op, row, children, d_match))",
                                             "        if op != Op.UNCHANGED:\n            children = strip_unchanged(children)\n            passed.append((op, row, children, d_match))")])
V("C03", "added_guard_changed", "fire", [(CM, "        if row not in old:\n            block_in_disorder = True\n            op = Op.ADDED", "        if row not in old and not block_in_disorder:\n            block_in_disorder = True\n            op = Op.ADDED")], rule="C03.R2")

# ---------------------------------------------------------------- C06
V("C06", "store_match_key", "fire", [(PT, "                passed[row] = apply_acl(", "                passed[test_row] = apply_acl(")], rule="C06.R1")
V("C06", "swallow_fatal", "fire", [(PT, "        elif fatal_acl:\n            raise AclError(\" / \".join(_path + (row,)))", "        elif fatal_acl and _path:\n            raise AclError(\" / \".join(_path + (row,)))")], rule="C06.R2")
V("C06", "global_only_if_cr", "fire", [(PT, "    global_children = merge_dicts(global_children, rules[\"global\"])\n", "    if is_f_cr_allowed:\n        global_children = merge_dicts(global_children, rules[\"global\"])\n")], rule="C06.R3")
V("C06", "merge_skip_repeated", "fire", [(ACLP, "            for (key, value) in attrs[\"params\"].items():", "            if attrs[\"children\"] == []:\n                continue\n            for (key, value) in attrs[\"params\"].items():")], rule="C06.R4")
V("C06", "twin_fatal_respelled", "silent", [(PT, "        elif fatal_acl:\n            raise AclError(\" / \".join(_path + (row,)))", "        else:\n            if fatal_acl:\n                raise AclError(\" / \".join(_path + (row,)))")])
V("C06", "twin_early_return_empty_config", "silent", [(PT, "    passed = odict()\n    for (row, children) in config.items():\n        if with_annotations:", "    passed = odict()\n    if not config:\n        return passed\n    for (row, children) in config.items():\n        if with_annotations:")])

# ---------------------------------------------------------------- C07
V("C07", "suffix_dropped", "fire", [(SX, "        row += r\"(?:\\s|$)\"", "        row += r\"\"")], rule="C07.R1")
V("C07", "suffix_word_boundary", "fire", [(SX, "        row += r\"(?:\\s|$)\"", "        row += r\"\\b\"")], rule="C07.R1")
V("C07", "star_any", "fire", [(SX, "row = re.sub(r\"(^|\\s)\\*\", r\"\\1([^\\\\s]+)\", row)", "row = re.sub(r\"(^|\\s)\\*\", r\"\\1(.+)\", row)")], rule="C07.R1")
V("C07", "twin_star_bigS", "silent", [(SX, "row = re.sub(r\"(^|\\s)\\*\", r\"\\1([^\\\\s]+)\", row)", "row = re.sub(r\"(^|\\s)\\*\", r\"\\1(\\\\S+)\", row)")])
V("C07", "twin_suffix_lookahead", "silent", [(SX, "        row += r\"(?:\\s|$)\"", "        row += r\"(?=\\s|$)\"")])
V("C07", "acl_reverse_always_prepend", "fire", [(ACLP, "    if row.startswith(reverse_prefix + \" \"):\n        return row[len(reverse_prefix + \" \"):]\n    else:\n        return \"%s %s\" % (reverse_prefix, row)", "    if row.startswith(reverse_prefix + \"  \"):\n        return row[len(reverse_prefix + \" \"):]\n    else:\n        return \"%s %s\" % (reverse_prefix, row)")], rule="C07.R2")
V("C07", "twin_reverse_fstring", "silent", [(ACLP, "        return \"%s %s\" % (reverse_prefix, row)", "        return f\"{reverse_prefix} {row}\"")])
V("C07", "unknown_param", "fire", [("annet/rulebook/texts/arista.rul", "\n", "\nfoo bar %ordred\n")], rule="C07.R4")
V("C07", "glued_star_row", "fire", [("annet/rulebook/texts/arista.order", "\n", "\nfoo bar*\n")], rule="C07.R3")

# ---------------------------------------------------------------- C08
V("C08", "direct_sign_flipped", "fire", [(PT, "            (item[\"order\"] if item[\"order_direct\"] else -item[\"order\"]),", "            (-item[\"order\"] if item[\"order_direct\"] else item[\"order\"]),")], rule="C08.R2")
V("C08", "order_config_filter", "fire", [(PT, "            ordered.append({\n                \"row\": row,", "            if not children and not direct:\n                continue\n            ordered.append({\n                \"row\": row,")], rule="C08.R1")
V("C08", "key_reads_patch_len", "fire", [(PT, "            item[\"raw_rule\"],\n            item[\"order_direct\"],\n        )", "            item[\"raw_rule\"],\n            item[\"order_direct\"],\n            len(patch),\n        )")], rule="C08.R2")
V("C08", "sort_no_recursion", "fire", [(PT, "        for item in self.itms:\n            if item.child:\n                item.child.sort()\n", "")], rule="C08.R1")
V("C08", "twin_sort_itemgetter", "silent", [(PT, "self.itms.sort(key=operator.attrgetter(\"sort_key\"))", "self.itms.sort(key=lambda item: item.sort_key)")])

# ---------------------------------------------------------------- C09
V("C09", "aruba_unguarded_commit", "fire", [(CM, "        if do_commit:\n            after.add_cmd(Command(\"commit apply\"))", "        after.add_cmd(Command(\"commit apply\"))")], rule="C09.R1")
V("C09", "drop_do_commit_kw", "fire", [(API, "            device.hw, cmds,\n            do_commit=not self.args.dont_commit\n        )", "            device.hw, cmds,\n        )")], rule="C09.R2")
V("C09", "skip_quit", "fire", [(DP, "        rule = deploying.match_deploy_rule(rules, cmd_path, context)\n        cmd_params", "        if cmd_path[-1] == \"quit\":\n            continue\n        rule = deploying.match_deploy_rule(rules, cmd_path, context)\n        cmd_params")], rule="C09.R4")
V("C09", "timeout_constant", "fire", [("annet/rulebook/deploying.py", "DEFAULT_TIMEOUT = 30", "DEFAULT_TIMEOUT = 60")], rule="C09.R7")
V("C09", "twin_commit_guard_nested", "silent", [(CM, "        if do_commit and (hw.Huawei.CE or hw.Huawei.NE):\n            after.add_cmd(Command(\"commit\"))", "        if hw.Huawei.CE or hw.Huawei.NE:\n            if do_commit:\n                after.add_cmd(Command(\"commit\"))")])
V("C09", "twin_kwargs_call", "silent", [(DP, "before, after = make_apply_commands(rule, hw, do_commit, do_finalize)", "before, after = make_apply_commands(rule, hw, do_finalize=do_finalize, do_commit=do_commit)")])

# ---------------------------------------------------------------- C10
V("C10", "fatal_false", "fire", [(GI, "                    rules=rules,\n                    fatal_acl=True,", "                    rules=rules,\n                    fatal_acl=False,")], rule="C10.R1")
V("C10", "swallow_aclerror", "fire", [(GI, "            logger.error(\"ACL error: generator is not allowed to yield this command: %s\", err)\n            raise GeneratorError from err", "            logger.error(\"ACL error: generator is not allowed to yield this command: %s\", err)")], rule="C10.R1")
V("C10", "no_exclusive", "fire", [(GEN, "                new,\n                acl_rules,\n                exclusive=not ctx.args.no_acl_exclusive,", "                new,\n                acl_rules,")], rule="C10.R2")
V("C10", "tag_first_line_only", "fire", [(RES, "                acl_text += fr\"  %generator_names={gr.name}\"", "                if not acl_text:\n                    acl_text += fr\"  %generator_names={gr.name}\"")], rule="C10.R4")
V("C10", "fold_other_results_config", "fire", [("annet/generators/result.py", "            tree = merge_dicts(tree, config)\n", "            tree = merge_dicts(tree, config) if config else odict()\n")], rule="C10.R3")
V("C10", "twin_combine_join", "silent", [("annet/generators/result.py", "            if line and not line.isspace():\n                acl_text += line.rstrip()\n                acl_text += fr\"  %generator_names={gr.name}\"\n                acl_text += \"\\n\"\n", "            if not line or line.isspace():\n                continue\n            acl_text += line.rstrip() + fr\"  %generator_names={gr.name}\" + \"\\n\"\n")])
V("C10", "combine_skip_comment_lines", "fire", [("annet/generators/result.py", "            if line and not line.isspace():\n                acl_text += line.rstrip()", "            if line.startswith(\"#\"):\n                continue\n            if line and not line.isspace():\n                acl_text += line.rstrip()")], rule="C10.R4")
V("C10", "multiblock_if_condition_nested_again", "fire", [("annet/generators/base.py", "            condition = (None not in blocks)\n        if condition:\n            if blocks:\n                blk = blocks[0]\n                tokens = blk if isinstance(blk, (list, tuple)) else [blk]\n                with self.block(*tokens):\n                    with self.multiblock(*blocks[1:]):\n                        yield\n                        return\n", "            condition = (None not in blocks)\n            if condition:\n                if blocks:\n                    blk = blocks[0]\n                    tokens = blk if isinstance(blk, (list, tuple)) else [blk]\n                    with self.block(*tokens):\n                        with self.multiblock(*blocks[1:]):\n                            yield\n                            return\n")], rule="C10.R6")
V("C10", "block_if_truthiness", "fire", [("annet/generators/base.py", "condition = (None not in tokens and \"\" not in tokens)", "condition = all(tokens)")], rule="C10.R6")
V("C10", "twin_block_if_demorgan", "silent", [("annet/generators/base.py", "condition = (None not in tokens and \"\" not in tokens)", "condition = not (None in tokens or \"\" in tokens)")])
V("C10", "block_pop_before_yield", "fire", [("annet/generators/base.py", "        yield\n        self._indents.pop(-1)\n        self._block_path.pop(-1)", "        self._block_path.pop(-1)\n        yield\n        self._indents.pop(-1)")], rule="C10.R6")
V("C10", "add_partial_if_config", "fire", [(GI, "        ret.add_partial(result)", "        if result.config:\n            ret.add_partial(result)")], rule="C10.R3")

# ---------------------------------------------------------------- C11
V("C11", "removed_is_old", "fire", [("annet/rulebook/huawei/vlandb.py", "    removed = old.difference(new)", "    removed = old")], rule="C11.R1")
V("C11", "wrong_expand", "fire", [("annet/rulebook/huawei/vlandb.py", "from annet.annlib.lib import huawei_expand_vlandb as expand_vlandb", "from annet.annlib.lib import cisco_expand_vlandb as expand_vlandb")], rule="C11.R3")
V("C11", "drop_unchanged_test", "fire", [("annet/rulebook/huawei/vlandb.py", "        if multi and multi_all and not diff[Op.UNCHANGED]:", "        if multi and multi_all:")], rule="C11.R2")
V("C11", "twin_minus_operator", "silent", [("annet/rulebook/huawei/vlandb.py", "    removed = old.difference(new)\n    added = new.difference(old)", "    removed = old - new\n    added = new - old")])

# ---------------------------------------------------------------- C12
V("C11", "twin_expand_memoised_only", "silent", [("annet/annlib/lib.py", "def cisco_expand_vlandb(row):", "@lru_cache(None)\ndef cisco_expand_vlandb(row):")])
V("C11", "twin_parse_alias_only", "silent", [("annet/rulebook/cisco/vlandb.py", "        vlandb.update(part)\n    return (prefix, vlandb, blocks)", "        if not vlandb:\n            vlandb = part\n        else:\n            vlandb.update(part)\n    return (prefix, vlandb, blocks)")])
V("C11", "memoised_set_mutated", "fire", [("annet/annlib/lib.py", "def cisco_expand_vlandb(row):", "@lru_cache(None)\ndef cisco_expand_vlandb(row):"), ("annet/rulebook/cisco/vlandb.py", "        vlandb.update(part)\n    return (prefix, vlandb, blocks)", "        if not vlandb:\n            vlandb = part\n        else:\n            vlandb.update(part)\n    return (prefix, vlandb, blocks)")], rule="C11.R5")
V("C11", "removed_widened", "fire", [("annet/rulebook/huawei/vlandb.py", "    if removed:\n        collapsed = collapse_vlandb(removed)", "    if removed:\n        if multi_all:\n            removed = removed | set(range(min(removed), max(removed)))\n        collapsed = collapse_vlandb(removed)")], rule="C11.R1")
V("C12", "retire_before_put", "fire", [(PAR, "        results = list(pool._run_callbacks(task_result, in_thread=True))  # pylint: disable=protected-access\n        done_queue.put((worker_name, task, results, ret_exc))\n\n        tasks_done += 1\n        if pool.max_tasks and tasks_done >= pool.max_tasks:\n            _logger.debug(\"Maximum tasks limit reached. Now I can retire\")\n            tracing_connector.get().force_flush()\n            sys.exit(9)",
       "        tasks_done += 1\n        if pool.max_tasks and tasks_done >= pool.max_tasks:\n            _logger.debug(\"Maximum tasks limit reached. Now I can retire\")\n            tracing_connector.get().force_flush()\n            sys.exit(9)\n        results = list(pool._run_callbacks(task_result, in_thread=True))  # pylint: disable=protected-access\n        done_queue.put((worker_name, task, results, ret_exc))")], rule="C12.R2")
V("C12", "stop_on_restart", "fire", [(PAR, "                    pool[name] = mp.Process(name=name, target=pool_worker, args=worker_args)", "                    task_queue.put(PoolWorkerTask(type=PoolWorkerTaskType.STOP))\n                    pool[name] = mp.Process(name=name, target=pool_worker, args=worker_args)")], rule="C12.R1")
V("C12", "del_code9", "fire", [(PAR, "            if exitcode != 9:\n                del pool[name]", "            del pool[name]")], rule="C12.R4")
V("C12", "exception_path_continue", "fire", [(PAR, "            task_result.exc = safe_exc\n            task_result.result = None\n        if pool.capture_output:", "            task_result.exc = safe_exc\n            task_result.result = None\n            continue\n        if pool.capture_output:")], rule="C12.R2")

# ---------------------------------------------------------------- C16
V("C16", "file_mode_make_patch_direct", "fire", [(API, "    patchtree = patch_from_pre(patching.make_pre(diff_obj), hw, rb, add_comments)", "    patchtree = patching.make_patch(patching.make_pre(diff_obj), rb, hw, add_comments)")], rule="C16.R2")
V("C16", "strip_before_pre_again", "fire", [(API, "    patchtree = patch_from_pre(patching.make_pre(diff_obj), hw, rb, add_comments)\n    diff_obj = patching.strip_unchanged(diff_obj)", "    diff_obj = patching.strip_unchanged(diff_obj)\n    patchtree = patch_from_pre(patching.make_pre(diff_obj), hw, rb, add_comments)")], rule="C16.R1")
V("C16", "return_consumed_pre", "fire", [(API, "    patchtree = patch_from_pre(patching.make_pre(diff_obj), hw, rb, add_comments)\n    diff_obj = patching.strip_unchanged(diff_obj)\n    # logic functions rewrite the pre they are given, so the one returned for display is made afresh\n    pre = patching.make_pre(diff_obj)",
                                           "    pre = patching.make_pre(diff_obj)\n    patchtree = patch_from_pre(pre, hw, rb, add_comments)\n    diff_obj = patching.strip_unchanged(diff_obj)")], rule="C16.R3")
V("C16", "twin_named_pre", "silent", [(API, "    patchtree = patch_from_pre(patching.make_pre(diff_obj), hw, rb, add_comments)", "    full_pre = patching.make_pre(diff_obj)\n    patchtree = patch_from_pre(full_pre, hw, rb, add_comments)")])

# ---------------------------------------------------------------- C17
V("C17", "complete_only_new", "fire", [(GEN, "            old = merge_dicts(old, implicit.config(old, implicit_rules))\n", "")], rule="C17.R1")
V("C17", "implicit_first", "fire", [(GEN, "            new = merge_dicts(new, implicit.config(new, implicit_rules))", "            new = merge_dicts(implicit.config(new, implicit_rules), new)")], rule="C17.R1")
V("C17", "drop_not_any_matched", "fire", [(IMP, "            if not any(matched_lines) and row not in config_tree:", "            if row not in config_tree:")], rule="C17.R2")
V("C17", "empty_block_again", "fire", [(IMP, "                implicit_config_tree[row] = config(odict(), rule[\"children\"])", "                implicit_config_tree[row] = odict()")], rule="C17.R4")
V("C17", "twin_guard_merged", "silent", [(IMP, "        if rule[\"type\"] != \"ignore\":\n            if not any(matched_lines) and row not in config_tree:\n                implicit_config_tree[row]", "        if rule[\"type\"] != \"ignore\" and not any(matched_lines) and row not in config_tree:\n                implicit_config_tree[row]")])

# ---------------------------------------------------------------- C18
V("C18", "bad_logic_name", "fire", [("annet/rulebook/texts/huawei.rul", "%logic=huawei.misc.port_split", "%logic=huawei.misc.portsplit")], rule="C18.R2")
V("C18", "missing_endif", "fire", [("annet/rulebook/texts/cisco.rul", "%endif\n", "")], rule="C18.R3")
V("C18", "hw_soft_in_template", "fire", [("annet/rulebook/texts/cisco.rul", "%if hw.Cisco.ASR or hw.Cisco.XRV:", "%if hw.Cisco.ASR or hw.soft.startswith('7'):")])
V("C18", "vendor_tie", "fire", [("annet/vendors/library/optixtrans.py", "return [\"Huawei.OptiXtrans\"]", "return [\"OptiXtrans\"]")], rule="C18.R5")
V("C18", "argmax_not_reversed", "fire", [("annet/vendors/registry.py", "sorted(matched, key=itemgetter(1), reverse=True)", "sorted(matched, key=itemgetter(1))")], rule="C18.R5")
V("C18", "argmax_wrong_component", "fire", [("annet/vendors/registry.py", "sorted(matched, key=itemgetter(1), reverse=True)", "sorted(matched, key=lambda x: x[0].NAME, reverse=True)")], rule="C18.R5")
V("C18", "twin_argmax_max", "silent", [("annet/vendors/registry.py", "return next(iter(sorted(matched, key=itemgetter(1), reverse=True)))[0]", "return max(matched, key=itemgetter(1))[0]")])
V("C18", "python_chain_unknown", "fire", [(IMP, "elif device.hw.Huawei.NE:", "elif device.hw.Huawei.NEE:")], rule="C18.R1")

# ---------------------------------------------------------------- C19
V("C19", "prio_flipped", "fire", [(RES, "result.prio > self.entire_results[result.path].prio:", "result.prio < self.entire_results[result.path].prio:")], rule="C19.R1")
V("C19", "drop_force", "fire", [(API, "                if diff_content or force_reload:", "                if diff_content:")], rule="C19.R2")
V("C19", "reload_outside_guard", "fire", [(API, "                    if enable_reload:\n                        reload_cmds[file] = cmds.encode()", "                    if True:\n                        reload_cmds[file] = cmds.encode()")], rule="C19.R2")
V("C19", "upload_diff", "fire", [(API, "                    upload_files[file] = file_content.encode()", "                    upload_files[file] = diff_content.encode()")], rule="C19.R4")
V("C19", "twin_prio_swapped_operands", "silent", [(RES, "result.prio > self.entire_results[result.path].prio:", "self.entire_results[result.path].prio < result.prio:")])
V("C19", "twin_early_continue", "silent", [(API, "                if diff_content or force_reload:\n                    self._has_diff |= True\n", "                if not (diff_content or force_reload):\n                    continue\n                if True:\n                    self._has_diff |= True\n")])

# ---------------------------------------------------------------- C20
V("C20", "attrs_not_copied", "fire", [(PT, "            attrs = copy.deepcopy(rule_pre[\"attrs\"])", "            attrs = rule_pre[\"attrs\"]")], rule="C20.R1a")
V("C20", "match_attrs_shared", "fire", [(PT, "    match = {\"attrs\": copy.deepcopy(f_rule[\"attrs\"])}", "    match = {\"attrs\": f_rule[\"attrs\"]}")], rule="C20.R1a")
V("C20", "mutable_default", "fire", [(PT, "def make_pre(diff: Diff, _parent_match=None) -> Dict[str, Any]:\n    pre = odict()", "def make_pre(diff: Diff, _parent_match=None, _cache={}) -> Dict[str, Any]:\n    pre = odict()")], rule="C20.R2")
V("C20", "logic_module_memo", "fire", [(CM, "def default(rule, key, diff, **_):", "_seen_keys = {}\n\n\ndef default(rule, key, diff, **_):\n    _seen_keys[key] = True")], rule="C20.R2")
V("C20", "twin_deepcopy_import_style", "silent", [(PT, "    old = copy.deepcopy(old)\n    new = copy.deepcopy(new)", "    old_copy = copy.deepcopy(old)\n    new_copy = copy.deepcopy(new)\n    old, new = old_copy, new_copy")])

# ---------------------------------------------------------------- C04 / C05
V("C04", "join_is_patch", "fire", [(TP, "                self._indent_blocks(self._blocks(config, is_patch=False))", "                self._indent_blocks(self._blocks(config, is_patch=True))")], rule="C04.R1")
V("C04", "drop_block_end", "fire", [(TP, "                    sub_config, is_patch, context=FormatterContext(parent=context)\n                )\n                yield BlockEnd, None", "                    sub_config, is_patch, context=FormatterContext(parent=context)\n                )")], rule="C04.R2")
V("C04", "no_level_decrement", "fire", [(TP, "            elif row is BlockEnd:\n                _level -= 1\n", "            elif row is BlockEnd:\n                pass\n")], rule="C04.R3")
V("C04", "ros_parent_row_again", "fire", [(TP, "                    if context and context.row:\n                        prev_prow, prev_prow_context = context.current\n                        prow = f\"{context.row} {row}\"", "                    if context and context.parent and context.parent.row:\n                        prev_prow, prev_prow_context = context.parent.current\n                        prow = f\"{context.parent.row} {row}\"")], rule="C04.R4")
V("C04", "wrong_splitter", "fire", [(GI, "config = tabparser.parse_to_tree(text=output, splitter=fmtr.split)", "config = tabparser.parse_to_tree(text=output, splitter=tabparser.CommonFormatter().split)")], rule="C04.R3")
V("C05", "no_consistency_check", "fire", [(TP, "                if curr_level != level:\n                    raise ParserError(\"Invalid top indention: line %d: %s\" % (number, line))\n\n            yield", "\n            yield")], rule="C05.R1")
V("C05", "yield_comments", "fire", [(TP, "        elif len(stripped) == 0 or stripped.startswith(comments):\n            yield _CommentOrEmpty", "        elif len(stripped) == 0:\n            yield _CommentOrEmpty")], rule="C05.R2")
V("C05", "overwrite_dups", "fire", [(TP, "            if key not in local_tree:\n                local_tree[key] = odict()", "            local_tree[key] = odict()")], rule="C05.R3")
V("C05", "twin_refusal_less_than", "silent", [(TP, "                if curr_level != level:\n                    raise ParserError(\"Invalid top indention: line %d: %s\" % (number, line))\n\n            yield", "                if curr_level < level:\n                    raise ParserError(\"Invalid top indention: line %d: %s\" % (number, line))\n\n            yield")])

# ---------------------------------------------------------------- C14 / C15
V("C14", "missing_return_again", "fire", [("annet/rpl_generators/policy.py", "                raise RuntimeError(f\"Next_hop target {next_hop_action_value.target} is not supported for huawei\")\n            return\n", "                raise RuntimeError(f\"Next_hop target {next_hop_action_value.target} is not supported for huawei\")\n")], rule="C14.R3")
V("C14", "raw_name", "fire", [("annet/rpl_generators/policy.py", "                yield \"if-match\", \"ip-prefix\", plist.name", "                yield \"if-match\", \"ip-prefix\", name")], rule="C14.R4")
V("C14", "acl_row_removed", "fire", [("annet/rpl_generators/community.py", "        ip extcommunity-list\n        ip large-community-list\n", "        ip extcommunity-list\n")], rule="C14.R2")
V("C14", "run_without_acl", "fire", [("annet/rpl_generators/rd.py", "    def acl_huawei(self, _):", "    def acl__huawei(self, _):")], rule="C14.R1")
V("C15", "copy_paste_name_left", "fire", [("annet/mesh/registry.py", "                        direct_order=False,\n                        name_left=neighbor,\n                        name_right=device,", "                        direct_order=False,\n                        name_left=device,\n                        name_right=device,")], rule="C15.R1")
V("C15", "remote_as_local", "fire", [("annet/mesh/models_converter.py", "remote_as=ASN(connected.asnum),", "remote_as=ASN(local.asnum),")], rule="C15.R3")
V("C15", "uselast_field", "fire", [("annet/mesh/peer_models.py", "    families: Annotated[set[FamilyName], Unite()]", "    families: Annotated[set[FamilyName], UseLast()]")], rule="C15.R4")
V("C15", "handler_same_order", "fire", [("annet/mesh/executor.py", "        else:\n            rule.handler(peer_neighbor, peer_device, session)", "        else:\n            rule.handler(peer_device, peer_neighbor, session)")], rule="C15.R2")
V("C20", "make_pre_writes_match", "fire", [(PT, "        raw_rule = match[\"raw_rule\"]\n        key = match[\"key\"]\n", "        raw_rule = match[\"raw_rule\"]\n        key = match[\"key\"]\n        match[\"attrs\"][\"seen\"] = True\n")], rule="C20.R1b")
V("C20", "logic_writes_rule_pre", "fire", [(CM, "def permanent(rule, key, diff, **kwargs):\n", "def permanent(rule, key, diff, **kwargs):\n    kwargs[\"rule_pre\"][\"attrs\"][\"touched\"] = True\n")], rule="C20.R1b")

# ---------------------------------------------------------------- round-2 rules: halves that are harmless alone stay silent
STRIP_INPLACE = (PT, "    passed = []\n    for (op, row, children, d_match) in diff:\n        if op == Op.UNCHANGED:\n            continue\n        children = strip_unchanged(children)\n        passed.append((op, row, children, d_match))\n    return passed",
                 "    passed = [item for item in diff if item[0] != Op.UNCHANGED]\n    for (_, _, children, _) in passed:\n        children[:] = strip_unchanged(children)\n    return passed")
V("C16", "twin_strip_inplace_after_patch", "silent", [STRIP_INPLACE])
V("C16", "strip_inplace_before_patch", "fire", [STRIP_INPLACE, (API, "    patchtree = patch_from_pre(patching.make_pre(diff_obj), hw, rb, add_comments)\n    diff_obj = patching.strip_unchanged(diff_obj)\n",
                                                                  "    shown = patching.strip_unchanged(diff_obj)\n    patchtree = patch_from_pre(patching.make_pre(diff_obj), hw, rb, add_comments)\n    diff_obj = shown\n")], rule="C16.R4")
V("C13", "null_is_absent", "fire", [(JT, "    parts = jsonpointer.JsonPointer(pattern).parts\n    matched = [([], content)]",
                                     "    if \"*\" not in pattern:\n        ptr = jsonpointer.JsonPointer(pattern)\n        if ptr.resolve(content, None) is None:\n            return []\n        return [ptr]\n    parts = jsonpointer.JsonPointer(pattern).parts\n    matched = [([], content)]")], rule="C13.R5")
V("C13", "move_rewritten_from_old", "fire", [(JT, "return list(jsonpatch.make_patch(old, new).patch)",
                                              "ops = []\n    for op in jsonpatch.make_patch(old, new).patch:\n        if op[\"op\"] == \"move\":\n            ops.append({\"op\": \"remove\", \"path\": op[\"from\"]})\n            ops.append({\"op\": \"add\", \"path\": op[\"path\"], \"value\": jsonpointer.resolve_pointer(old, op[\"from\"])})\n        else:\n            ops.append(op)\n    return ops")], rule="C13.R1b")
V("C12", "break_before_yield", "fire", [("annet/parallel.py", "                if not queue_empty:\n                    self.tasks_done += 1\n", "                if not pool:\n                    break\n\n                if not queue_empty:\n                    self.tasks_done += 1\n")], rule="C12.R6")
V("C12", "retry_falls_off", "fire", [("annet/parallel.py", "            if attempt >= net_retry:\n                raise\n            attempt += 1", "            if attempt >= net_retry:\n                break\n            attempt += 1")], rule="C12.R6")
V("C19", "prio_or_default", "fire", [("annet/generators/entire.py", "        if not hasattr(self, \"prio\"):\n            self.prio = 100", "        self.prio = getattr(self, \"prio\", None) or 100")], rule="C19.R7")
V("C19", "twin_prio_is_none", "silent", [("annet/generators/entire.py", "        if not hasattr(self, \"prio\"):\n            self.prio = 100", "        if getattr(self, \"prio\", None) is None:\n            self.prio = 100")])
V("C19", "lines_lowercased", "fire", [("annet/diff.py", "old_lines = old.splitlines() if old else []", "old_lines = [ln.strip() for ln in old.splitlines()] if old else []")], rule="C19.R6")
V("C15", "subif_truthiness", "fire", [("annet/mesh/executor.py", "        elif changes.subif is not None:\n            # single connection", "        elif changes.subif:\n            # single connection")], rule="C15.R6")
V("C17", "rules_memo_by_hw", "fire", [("annet/implicit.py", "def compile_rules(device):\n    return compile_tree(_implicit_tree(device))", "_memo = {}\n\n\ndef compile_rules(device):\n    if device.hw not in _memo:\n        _memo[device.hw] = compile_tree(_implicit_tree(device))\n    return _memo[device.hw]")], rule="C17.R5")
V("C17", "twin_rules_memo_full_key", "silent", [("annet/implicit.py", "def compile_rules(device):\n    return compile_tree(_implicit_tree(device))", "_memo = {}\n\n\ndef compile_rules(device):\n    key = (device.hw, tuple(sorted(device.tags)))\n    if key not in _memo:\n        _memo[key] = compile_tree(_implicit_tree(device))\n    return _memo[key]")])
V("C20", "merge_dicts_extend", "fire", [("annet/annlib/lib.py", "                merged[key] = merged[key].__class__(itertools.chain(merged[key], value))", "                merged[key] += value")], rule="C20.R4")
V("C06", "select_shortcut", "fire", [(PT, "    matches = _find_acl_matches(row, rules)\n    if matches:\n        if exclusive:", "    matches = _find_acl_matches(row, rules)\n    if len(matches) == 1 and not exclusive:\n        ((rule, _), other) = matches[0]\n        match = {\"attrs\": copy.deepcopy(rule[\"attrs\"])}\n        match.update(other)\n        return (match, rule[\"children\"])\n    if matches:\n        if exclusive:")], rule="C06.R6")
V("C09", "rule_memo_by_last_word", "fire", [(DP, "        rule = deploying.match_deploy_rule(rules, cmd_path, context)", "        if cmd_path[-1] not in _seen:\n            _seen[cmd_path[-1]] = deploying.match_deploy_rule(rules, cmd_path, context)\n        rule = _seen[cmd_path[-1]]"), (DP, "    cmds_with_apply = []\n    for cmd_path, context in cmd_paths.items():", "    cmds_with_apply = []\n    _seen = {}\n    for cmd_path, context in cmd_paths.items():")], rule="C09.R4")
V("C09", "twin_rule_memo_full_key", "silent", [(DP, "        rule = deploying.match_deploy_rule(rules, cmd_path, context)", "        k = (cmd_path, repr(context))\n        if k not in _seen:\n            _seen[k] = deploying.match_deploy_rule(rules, cmd_path, context)\n        rule = _seen[k]"), (DP, "    cmds_with_apply = []\n    for cmd_path, context in cmd_paths.items():", "    cmds_with_apply = []\n    _seen = {}\n    for cmd_path, context in cmd_paths.items():")])
V("C07", "row_cut_at_space_percent", "fire", [(SX, "raw_rule = raw_rule[:index].strip()", "raw_rule = raw_rule.split(\" %\")[0].strip()")], rule="C07.R6")
V("C07", "twin_row_cut_partition", "silent", [(SX, "raw_rule = raw_rule[:index].strip()", "raw_rule = raw_rule.partition(\"%\")[0].strip()")])
V("C03", "rewrite_clear_first_level", "fire", [(CM, "if all(its[i].op == Op.AFFECTED for i, its in iter_diff(diff)):", "if all(item.op == Op.AFFECTED for item in diff):")], rule="C03.R7")
V("C01", "ordered_plain_logic", "fire", [(RP, "                attrs[\"params\"][\"logic\"] = ORDERED_PATCH_LOGIC\n", "                if attrs[\"params\"][\"logic\"] == DEFAULT_PATCH_LOGIC:\n                    attrs[\"params\"][\"logic\"] = ORDERED_PATCH_LOGIC\n")], rule="C01.R8")
V("C04", "asr_terminator_startswith", "fire", [(TP, "tree[:] = filter(lambda x: not x.endswith(policy_end_blocks), tree)", "tree[:] = filter(lambda x: not x.strip().startswith(policy_end_blocks), tree)")], rule="C04.R6")
V("C04", "twin_asr_terminator_exact", "silent", [(TP, "tree[:] = filter(lambda x: not x.endswith(policy_end_blocks), tree)", "tree[:] = filter(lambda x: x.strip() not in policy_end_blocks, tree)")])
V("C08", "reversed_sorted_negated", "fire", [(PT, "            for item in sorted(ordered, key=(lambda item: (\n                (item[\"order\"] if item[\"direct\"] else -item[\"order\"]),\n                item[\"direct\"],\n            )))", "            for item in reversed(sorted(ordered, key=(lambda item: (\n                (-item[\"order\"] if item[\"direct\"] else item[\"order\"]),\n                not item[\"direct\"],\n            ))))")], rule="C08.R2")
V("C09", "asr_block_exit_no_default_arm", "fire", [(TP, "            yield from block_wrapper(\"end-policy\")\n        else:\n            yield from super().block_exit(context)", "            yield from block_wrapper(\"end-policy\")")], rule="C09.R6")
V("C05", "twin_setdefault_walk", "silent", [(TP, "            if key not in local_tree:\n                local_tree[key] = odict()\n            local_tree = local_tree[key]", "            local_tree = local_tree.setdefault(key, odict())")])
V("C05", "twin_eafp_walk", "silent", [(TP, "            if key not in local_tree:\n                local_tree[key] = odict()\n            local_tree = local_tree[key]", "            try:\n                local_tree = local_tree[key]\n            except KeyError:\n                child = odict()\n                local_tree[key] = child\n                local_tree = child")])
V("C05", "walk_no_descent_on_create", "fire", [(TP, "            if key not in local_tree:\n                local_tree[key] = odict()\n            local_tree = local_tree[key]", "            if key in local_tree:\n                local_tree = local_tree[key]\n            else:\n                local_tree[key] = odict()")], rule="C05.R3")
V("C05", "walk_shares_one_child", "fire", [(TP, "    tree = odict()\n    for stack in _stacked(splitter(text), tuple(comments)):", "    tree = odict()\n    empty = odict()\n    for stack in _stacked(splitter(text), tuple(comments)):"), (TP, "            if key not in local_tree:\n                local_tree[key] = odict()\n            local_tree = local_tree[key]", "            if key not in local_tree:\n                local_tree[key] = empty\n            local_tree = local_tree[key]")], rule="C05.R3")
V("C05", "stacked_truncate_off_by_one", "fire", [(TP, "            stack = stack[:level - 1] + [line]", "            stack = stack[:level] + [line]")], rule="C05.R3")
V("C05", "stacked_same_depth_pushes", "fire", [(TP, "        elif level == len(stack):\n            stack[-1] = line", "        elif level == len(stack):\n            stack.append(line)")], rule="C05.R3")
V("C05", "twin_stacked_del_append", "silent", [(TP, "        level += 1\n        if level > len(stack):\n            stack.append(line)\n        elif level == len(stack):\n            stack[-1] = line\n        else:\n            stack = stack[:level - 1] + [line]\n", "        del stack[level:]\n        stack.append(line)\n")])
V("C03", "strip_drops_affected", "fire", [(PT, "        if op == Op.UNCHANGED:\n            continue\n        children = strip_unchanged(children)", "        if op in (Op.UNCHANGED, Op.AFFECTED):\n            continue\n        children = strip_unchanged(children)")], rule="C03.R4")
V("C03", "mark_unchanged_any", "fire", [(PT, "            if all(x[0] == Op.UNCHANGED for x in children):", "            if any(x[0] == Op.UNCHANGED for x in children):")], rule="C03.R4")
V("C03", "mark_unchanged_unmarked_children", "fire", [(PT, "            children = mark_unchanged(children)\n            if all(x[0] == Op.UNCHANGED for x in children):", "            if all(x[0] == Op.UNCHANGED for x in mark_unchanged(children)):")], rule="C03.R4")
# ---------------------------------------------------------------- C17 round 3: overlapping sibling default rules
V("C17", "overlapping_sibling_defaults", "fire", [(IMP, "                # Loopbacks\n                !interface */Loopback[0-9.]+/\n                    no shutdown\n                # Port-Channels",
                                                   "                !interface */Ethernet1\\/[0-9.\\/]+/\n                    mtu 1500\n                # Loopbacks\n                !interface */Loopback[0-9.]+/\n                    no shutdown\n                # Port-Channels")], rule="C17.R6")
V("C17", "twin_disjoint_sibling_defaults", "silent", [(IMP, "                # Loopbacks\n                !interface */Loopback[0-9.]+/\n                    no shutdown\n                # Port-Channels",
                                                       "                !interface */Tunnel[0-9]+/\n                    mtu 1500\n                # Loopbacks\n                !interface */Loopback[0-9.]+/\n                    no shutdown\n                # Port-Channels")])
# ---------------------------------------------------------------- C15 round 3: merge key depends on the accumulator
EXE_ = "annet/mesh/executor.py"
V("C15", "merge_key_counts_known", "fire", [(EXE_, "                    vrf=getattr(pair.connected, \"vrf\", \"\")\n                )", "                    vrf=getattr(pair.connected, \"vrf\", \"\") or next((k.vrf for k in neighbor_peers if k.addr == addr), \"\")\n                )")], rule="C15.R7")
V("C15", "twin_merge_key_local_first", "silent", [(EXE_, "                peer_key = PeerKey(\n                    fqdn=pair.device.fqdn,\n                    addr=addr,\n                    vrf=getattr(pair.connected, \"vrf\", \"\")\n                )",
                                                   "                peer_vrf = getattr(pair.connected, \"vrf\", \"\")\n                peer_key = PeerKey(fqdn=pair.device.fqdn, addr=addr, vrf=peer_vrf)")])
# ---------------------------------------------------------------- C18 round 3: short forms claimed by the first sequence
DBPY = "annet/annlib/netdev/db.py"
_ALLOWED_OLD = "    all_variants = collections.Counter()\n    variants_by_seq = {}\n\n    for seq in sequences:\n        variants = _make_seq_variants(seq)\n        all_variants.update(variants)\n        variants_by_seq[seq] = variants\n\n    return {\n        seq: set(variant for variant in variants if all_variants[variant] <= 1)\n        for (seq, variants) in variants_by_seq.items()\n    }\n"
V("C18", "short_form_first_claimant", "fire", [(DBPY, _ALLOWED_OLD, "    allowed = {}\n    taken = set()\n    for seq in sequences:\n        variants = _make_seq_variants(seq)\n        allowed[seq] = variants - taken\n        taken |= variants\n    return allowed\n")], rule="C18.R4")
V("C18", "short_form_threshold_two", "fire", [(DBPY, "if all_variants[variant] <= 1)", "if all_variants[variant] <= 2)")], rule="C18.R4")
V("C18", "twin_short_form_counter_once", "silent", [(DBPY, _ALLOWED_OLD, "    variants_by_seq = {seq: _make_seq_variants(seq) for seq in sequences}\n    claims = collections.Counter(v for vs in variants_by_seq.values() for v in vs)\n    return {seq: {v for v in vs if claims[v] < 2} for (seq, vs) in variants_by_seq.items()}\n")])
# ---------------------------------------------------------------- C11: the two defects repaired in ac5927c / 87bf436 must be reported if they return
CVL = "annet/rulebook/cisco/vlandb.py"
HVL = "annet/rulebook/huawei/vlandb.py"
V("C11", "cisco_removal_ignores_staying_rows_again", "fire", [(CVL, "    removed = old.difference(new) - kept\n", "    removed = old.difference(new)\n")], rule="C11.R1")
V("C11", "huawei_single_reset_with_staying_line_again", "fire", [(HVL, "        elif not multi and not multi_all and not diff[Op.UNCHANGED]:", "        elif not multi and not multi_all:")], rule="C11.R2")
V("C11", "twin_cisco_kept_subtracted_first", "silent", [(CVL, "    removed = old.difference(new) - kept\n", "    gone = old - kept\n    removed = gone.difference(new)\n")])
V("C11", "twin_huawei_single_reset_nested_if", "silent", [(HVL, "        elif not multi and not multi_all and not diff[Op.UNCHANGED]:\n            # the bare reverse drops the whole mapping: not when another line of the same key stays\n            yield (False, rule[\"reverse\"].format(*key), None)\n            return",
                                                      "        elif not multi and not multi_all:\n            if not diff[Op.UNCHANGED]:\n                yield (False, rule[\"reverse\"].format(*key), None)\n                return")])
# ---------------------------------------------------------------- round 4 rules (one firing variant each, silent twins where a one-line respelling exists)
V("C02", "acl_step_needs_partial_results", "fire", [(GEN, "        if not ctx.args.no_acl:\n            acl_rules = generators.compile_acl_text(res.acl_text(), device.hw.vendor)", "        if partial_results and not ctx.args.no_acl:\n            acl_rules = generators.compile_acl_text(res.acl_text(), device.hw.vendor)")], rule="C02.R10")
V("C02", "twin_acl_step_guard_respelled", "silent", [(GEN, "        if not ctx.args.no_acl:\n            acl_rules = generators.compile_acl_text(res.acl_text(), device.hw.vendor)", "        use_acl = not ctx.args.no_acl\n        if use_acl:\n            acl_rules = generators.compile_acl_text(res.acl_text(), device.hw.vendor)")])
V("C01", "first_rule_match_wins", "fire", [(PT, "            matches.append(((rule, (not is_global)), {\"raw_rule\": raw_rule, \"key\": match.groups()}))", "            return [((rule, (not is_global)), {\"raw_rule\": raw_rule, \"key\": match.groups()})]")], rule="C01.R10")
V("C12", "result_labelled_with_trace_id", "fire", [(PAR, "        task_result = TaskResult(worker_name, task.payload)", "        task_result = TaskResult(worker_name, device_id)")], rule="C12.R8")
V("C12", "twin_result_payload_local", "silent", [(PAR, "        task_result = TaskResult(worker_name, task.payload)", "        submitted_id = task.payload\n        task_result = TaskResult(worker_name, submitted_id)")])
V("C13", "ensure_pointer_replaces_non_objects", "fire", [(JT, "            if part not in doc_pointer or doc_pointer[part] is None:", "            if not isinstance(doc_pointer.get(part), dict):")], rule="C13.R7")
V("C13", "delete_array_items", "fire", [(JT, "            if isinstance(doc, dict) and isinstance(part, str):\n                doc.pop(part, None)", "            if isinstance(doc, dict) and isinstance(part, str):\n                doc.pop(part, None)\n            elif isinstance(doc, list) and isinstance(part, int) and part < len(doc):\n                del doc[part]")], rule="C13.R7")
V("C05", "split_dedents_first", "fire", [(TP, "        return list(filter(None, text.split(\"\\n\")))", "        return list(filter(None, textwrap.dedent(text).split(\"\\n\")))")], rule="C05.R2")
V("C07", "row_not_single_spaced", "fire", [(SX, "    row = re.sub(r\"\\s+\", \" \", raw_rule.strip())", "    row = raw_rule.strip()")], rule="C07.R6")
V("C07", "twin_row_single_spaced_by_split", "silent", [(SX, "    row = re.sub(r\"\\s+\", \" \", raw_rule.strip())", "    row = \" \".join(raw_rule.split())")])
V("C03", "fold_case_of_whole_block", "fire", [(CM, "        if diff_pre[row][\"match\"][\"attrs\"][\"ignore_case\"]:\n            new_row = row.lower()", "        if True:\n            new_row = row.lower()")], rule="C03.R10")
V("C03", "moved_does_not_raise_disorder", "fire", [(CM, "        elif block_in_disorder or index != old_indexes[row]:\n            block_in_disorder = True\n", "        elif block_in_disorder or index != old_indexes[row]:\n")], rule="C03.R9")
V("C18", "remember_missing_rul", "fire", [("annet/rulebook/__init__.py", "        if name in self._escaped_rul_cache:\n            return self._escaped_rul_cache[name]\n", "        if name in self._escaped_rul_cache:\n            return self._escaped_rul_cache[name]\n        self._escaped_rul_cache[name] = None\n")], rule="C18.R8")
V("C09", "dialog_without_nl_skipped", "fire", [(DP, "        raise Exception(\"not supported false send_nl\")", "        return None")], rule="C09.R10")

# ---- round 5 clauses (seeds Cnn-I)
V("C09", "rule_timeout_truncated", "fire", [(DP, "            \"timeout\": rule[\"attrs\"][\"timeout\"],", "            \"timeout\": int(rule[\"attrs\"][\"timeout\"]),")], rule="C09.R7")
V("C09", "twin_rule_timeout_as_float", "silent", [(DP, "            \"timeout\": rule[\"attrs\"][\"timeout\"],", "            \"timeout\": float(rule[\"attrs\"][\"timeout\"]),")])
V("C19", "empty_entire_output_not_filed", "fire", [(GI, "        output = gen(device)\n\n    return GeneratorEntireResult(", "        output = gen(device)\n\n    if not output:\n        return None\n    return GeneratorEntireResult(")], rule="C19.R8")
V("C16", "file_mode_filters_unchanged_rows", "fire", [(API, "    patchtree = patch_from_pre(patching.make_pre(diff_obj), hw, rb, add_comments)", "    patchtree = patch_from_pre(patching.make_pre([x for x in diff_obj if x[0] != Op.UNCHANGED]), hw, rb, add_comments)")], rule="C16.R1")
V("C03", "removed_nested_block_filed_without_children", "fire", [(PT, "            \"children\": make_pre(\n                diff=children,\n                _parent_match=match,\n            ),", "            \"children\": odict() if op == Op.REMOVED and _parent_match is not None else make_pre(diff=children, _parent_match=match),")], rule="C03.R1")
V("C03", "twin_no_recursion_over_no_children", "silent", [(PT, "            \"children\": make_pre(\n                diff=children,\n                _parent_match=match,\n            ),", "            \"children\": make_pre(diff=children, _parent_match=match) if children else odict(),")])
V("C05", "section_break_only_bare_hash", "fire", [(TP, "        if \"#\" in comments and line.startswith(\"#\"):", "        if \"#\" in comments and line.rstrip() == \"#\":")], rule="C05.R2")
V("C14", "arista_union_named_in_sorted_order", "fire", [("annet/rpl_generators/community.py", "            name = mangle_united_community_list_name([c.name for c in community_list_union])", "            name = mangle_united_community_list_name(sorted(c.name for c in community_list_union))")], rule="C14.R4")
V("C01", "fold_case_of_whole_block_patch_side", "fire", [(CM, "        if diff_pre[row][\"match\"][\"attrs\"][\"ignore_case\"]:\n            new_row = row.lower()", "        if True:\n            new_row = row.lower()")], rule="C01.R11")
V("C06", "acl_reverse_without_word_boundary", "fire", [(ACLP, "    if row.startswith(reverse_prefix + \" \"):\n        return row[len(reverse_prefix + \" \"):]", "    if row.startswith(reverse_prefix):\n        return row[len(reverse_prefix):].lstrip()")], rule="C06.R9")
V("C07", "patching_reverse_without_word_boundary", "fire", [(RP, "    if row.startswith(reverse_prefix + \" \"):\n        row = row[len(reverse_prefix + \" \"):]", "    if row.startswith(reverse_prefix):\n        row = row[len(reverse_prefix):].lstrip()")], rule="C07.R2")
