"""Firing variants and silent twins, one list per property.  Each edit is (relative file, old text, new text)."""

VARIANTS = []


def V(prop, name, expect, edits, rule=None, mention=None, thorough=False):
    VARIANTS.append({"property": prop, "name": f"{prop}.{name}", "expect": expect, "edits": edits, "rule": rule,
                     "mention": mention, "thorough": thorough})


JT = "annet/annlib/jsontools.py"
# ---------------------------------------------------------------- C13
V("C13", "sorted_again", "fire", [(JT, "return list(jsonpatch.make_patch(old, new).patch)",
                                   "return sorted(jsonpatch.make_patch(old, new).patch, key=lambda o: o['path'])")], rule="C13.R1")
V("C13", "sort_inplace", "fire", [(JT, "return list(jsonpatch.make_patch(old, new).patch)",
                                   "ops = list(jsonpatch.make_patch(old, new).patch)\n    ops.sort(key=str)\n    return ops")], rule="C13.R1")
V("C13", "twin_local_var", "silent", [(JT, "return list(jsonpatch.make_patch(old, new).patch)",
                                       "patch = jsonpatch.make_patch(old, new)\n    ops = patch.patch\n    return [op for op in ops]")])
V("C13", "raw_join", "fire", [(JT, '"/".join(jsonpointer.escape(p) for p in matched_parts)', '"/".join(matched_parts)')], rule="C13.R2")
V("C13", "twin_from_parts", "silent", [(JT, 'jsonpointer.JsonPointer("/" + "/".join(jsonpointer.escape(p) for p in matched_parts))',
                                        'jsonpointer.JsonPointer.from_parts(matched_parts)')])
V("C13", "no_deepcopy", "fire", [(JT, "full_new_config = copy.deepcopy(old)", "full_new_config = old")], rule="C13.R3")
V("C13", "shallow_copy", "fire", [(JT, "full_new_config = copy.deepcopy(old)", "full_new_config = dict(old)")], rule="C13.R3")
V("C13", "filter_no_copy", "fire", [(JT, "result = {}\n    for f in filters:", "result = content\n    for f in filters:")], rule="C13.R3")
V("C13", "twin_copy_renamed", "silent", [(JT, "full_new_config = copy.deepcopy(old)", "base = copy.deepcopy(old)\n    full_new_config = base")])
V("C13", "delete_own_keys", "fire", [(JT, "to_delete = [p for p in old_pointers if p.path not in paths]",
                                      "to_delete = [jsonpointer.JsonPointer('/' + k) for k in full_new_config.keys() if ('/' + k) not in paths]")], rule="C13.R4")
V("C13", "wrong_acl_for_delete", "fire", [(JT, "old_pointers = _resolve_json_pointers(acl_item, full_new_config)",
                                           "old_pointers = _resolve_json_pointers(acl[0], full_new_config)")], rule="C13.R4")
