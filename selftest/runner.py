"""Self-test: every rule must FIRE on a scratch copy with one instance broken and stay SILENT on a
behaviour-preserving twin.  Variants are (file, old-text, new-text) edits applied to a private
copy of the analysed packages under a fresh temporary directory (removed afterwards).  The check
output of variants is captured; nothing here prints a VIOLATION line of its own."""
from __future__ import annotations

import concurrent.futures as cf
import fnmatch
import json
import os
import shutil
import subprocess
import sys
import tempfile
import py_compile

HERE = os.path.dirname(os.path.dirname(os.path.abspath(__file__)))
SRC = os.environ.get("VF_REPO", "/repo")


def _copy(dst: str) -> None:
    for pkg in ("annet", "annet_generators"):
        shutil.copytree(os.path.join(SRC, pkg), os.path.join(dst, pkg),
                        ignore=shutil.ignore_patterns("__pycache__", "*.pyc"))


def run_variant(v: dict) -> dict:
    tmp = tempfile.mkdtemp(prefix="vf_selftest_")
    try:
        _copy(tmp)
        for (rel, old, new) in v["edits"]:
            p = os.path.join(tmp, rel)
            with open(p, encoding="utf-8") as f:
                s = f.read()
            if s.count(old) < 1:
                return {"name": v["name"], "ok": False, "why": f"edit anchor not found in {rel}: {old[:60]!r}"}
            s = s.replace(old, new, 1)
            with open(p, "w", encoding="utf-8") as f:
                f.write(s)
            if rel.endswith(".py"):
                try:
                    py_compile.compile(p, doraise=True, cfile=os.path.join(tmp, "x.pyc"))
                except py_compile.PyCompileError as e:
                    return {"name": v["name"], "ok": False, "why": f"variant does not compile: {e}"}
        ev = os.path.join(tmp, "_evidence")
        env = dict(os.environ, VF_REPO=tmp, VF_EVIDENCE_DIR=ev, VF_KEEP_VIOLATIONS="1")
        args = [os.path.join(HERE, "vf"), "check", v["property"]] + (["--thorough"] if v.get("thorough") else [])
        pr = subprocess.run(args, cwd=HERE, env=env, capture_output=True, text=True, timeout=600)
        out = pr.stdout
        fired = [ln for ln in out.splitlines() if " VIOLATED " in ln and "[known]" not in ln]
        want = v["expect"]  # 'fire' | 'silent' | 'error'
        ok = False
        why = ""
        if want == "fire":
            rule = v.get("rule")
            hits = [ln for ln in fired if (not rule or ln.startswith(rule + " "))]
            if v.get("mention"):
                hits = [ln for ln in hits if v["mention"] in ln]
            ok = pr.returncode == 1 and bool(hits)
            why = "" if ok else f"expected {rule} to fire (rc={pr.returncode}); fired: {fired[:3]} ; tail: {out.splitlines()[-2:]}"
        elif want == "silent":
            ok = pr.returncode == 0 and not fired
            why = "" if ok else f"expected silence, rc={pr.returncode}: {(fired or out.splitlines()[-2:])[:3]}"
        elif want == "error":
            ok = pr.returncode == 2
            why = "" if ok else f"expected ANALYSIS-ERROR (2), rc={pr.returncode}"
        return {"name": v["name"], "ok": ok, "why": why, "rc": pr.returncode}
    except Exception as e:  # pragma: no cover
        return {"name": v["name"], "ok": False, "why": f"runner error {type(e).__name__}: {e}"}
    finally:
        shutil.rmtree(tmp, ignore_errors=True)


def main(argv) -> int:
    from selftest.variants import VARIANTS
    pattern = "*"
    jobs = os.cpu_count() or 4
    it = iter(argv)
    for a in it:
        if a == "-j":
            jobs = int(next(it))
        else:
            pattern = a
    sel = [v for v in VARIANTS if fnmatch.fnmatch(v["name"], pattern) or fnmatch.fnmatch(v["property"], pattern)]
    names = [v["name"] for v in sel]
    assert len(names) == len(set(names)), "duplicate variant names"
    bad = 0
    with cf.ThreadPoolExecutor(max_workers=jobs) as ex:
        for r in ex.map(run_variant, sel):
            tag = "ok  " if r["ok"] else "FAIL"
            if not r["ok"]:
                bad += 1
            print(f"{tag} {r['name']}" + (f"  -- {r['why']}" if r["why"] else ""))
    print(f"selftest: {len(sel) - bad}/{len(sel)} variants behave as expected")
    return 0 if bad == 0 else 3
