"""Positive fixture for C13.R5 (expected count on a healthy tree is zero): each function below decides presence in a JSON document by a None sentinel."""
import jsonpointer


def present_resolve(doc, pattern):
    pointer = jsonpointer.JsonPointer(pattern)
    if pointer.resolve(doc, None) is None:      # JSON null == absent
        return []
    return [pointer]


def present_get(doc, key):
    value = doc.get(key)
    if value is None:                           # JSON null == absent
        return False
    return True


def present_resolve_pointer(doc, path):
    found = jsonpointer.resolve_pointer(doc, path, None)
    return found is not None                    # JSON null == absent
