"""Positive fixture for C04.R7 (expected count on a healthy tree is zero): loops that walk a sequence in (item, next item) pairs and thereby never process its last element."""


def drop_last(lines):
    out = []
    for line, nxt in zip(lines, lines[1:]):     # the last line is never `line`
        out.append(line.strip())
    return out


def drop_last_islice(lines):
    import itertools
    out = []
    for line, nxt in zip(lines, itertools.islice(lines, 1, None)):
        out.append(line)
    return out


def fine_handles_tail(lines):
    out = []
    for line, nxt in zip(lines, lines[1:]):
        out.append(line)
    if lines:
        out.append(lines[-1])                    # tail handled: not reported
    return out
