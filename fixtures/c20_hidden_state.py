"""Positive fixture for C20.R2 (expected count on a healthy tree is zero, so the matcher must prove it is alive on every run):
each construct below must be reported by the hidden-state matcher."""
_memo = {}
_seen = []
counter = 0


def mutable_default(x, acc=[]):          # mutable default argument
    acc.append(x)
    return acc


def global_write(x):
    global counter                        # global write
    counter += 1
    return x


def module_container_write(k, v):
    _memo[k] = v                          # write to a module-level container
    _seen.append(k)                       # mutator call on a module-level container
    return v


class K:
    shared = {}

    def class_attr_write(self, k):
        K.shared[k] = 1                   # write to a class attribute
        type(self).flag = True


class SharedMemo:
    _memo = {}

    def lookup(self, key):
        if key not in self._memo:
            self._memo[key] = len(key)
        return self._memo[key]
