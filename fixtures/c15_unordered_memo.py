"""positive fixture for C15.R8: a memo whose key forgets the order of the arguments the memoised call is oriented by"""


class Exec:
    def __init__(self, storage):
        self._storage = storage
        self._links = {}

    def links(self, device, neighbor):
        key = frozenset((device.fqdn, neighbor.fqdn))
        if key not in self._links:
            self._links[key] = self._storage.search_connections(device, neighbor)
        return self._links[key]

    def links_sorted(self, a, b):
        k = tuple(sorted([a.fqdn, b.fqdn]))
        return self._links.setdefault(k, self._storage.search_connections(a, b))

    def links_ok(self, device, neighbor):
        key = (device.fqdn, neighbor.fqdn)
        if key not in self._links:
            self._links[key] = self._storage.search_connections(device, neighbor)
        return self._links[key]
