#!/usr/bin/env python3
"""Run the checks against seeded breaking changes.
usage: seedcheck.py [--dir /verif/seeded] [name-glob] [--props C01,C02] [--all-props]
For every <dir>/<name>/patch.diff: copy /repo's working tree to a scratch directory, apply the patch there,
run `vf check` for the seed's property (meta.json 'property', or the name prefix) -- or for all claimed
properties -- with VF_REPO pointing at the copy, and print which rules fire.  Nothing is applied to /repo."""
import fnmatch
import json
import os
import shutil
import subprocess
import sys
import tempfile
import concurrent.futures as cf

HERE = os.path.dirname(os.path.dirname(os.path.abspath(__file__)))
REPO = os.environ.get("VF_REPO", "/repo")


def claimed():
    m = json.load(open(os.path.join(HERE, "MANIFEST.json")))
    return [c["property_id"] for c in m["checks"]]


def run_seed(d, name, props, thorough=False):
    patch = os.path.join(d, name, "patch.diff")
    tmp = tempfile.mkdtemp(prefix="vf_seed_")
    try:
        for pkg in ("annet", "annet_generators"):
            shutil.copytree(os.path.join(REPO, pkg), os.path.join(tmp, pkg), ignore=shutil.ignore_patterns("__pycache__"))
        pr = subprocess.run(["git", "apply", "--unsafe-paths", "--directory", tmp, patch], capture_output=True, text=True, cwd="/")
        if pr.returncode != 0:
            pr = subprocess.run(["patch", "-p1", "-s", "-d", tmp, "-i", patch], capture_output=True, text=True)
            if pr.returncode != 0:
                return name, None, "patch does not apply: " + (pr.stderr or pr.stdout)[:200]
        fired = {}
        for p in props:
            env = dict(os.environ, VF_REPO=tmp, VF_EVIDENCE_DIR=os.path.join(tmp, "_ev"), VF_KEEP_VIOLATIONS="1")
            r = subprocess.run([os.path.join(HERE, "vf"), "check", p] + (["--thorough"] if thorough else []), cwd=HERE, env=env, capture_output=True, text=True)
            lines = [ln for ln in r.stdout.splitlines() if (" VIOLATED " in ln and "[known]" not in ln) or ln.startswith("ANALYSIS-ERROR")]
            fired[p] = (r.returncode, lines)
        return name, fired, ""
    finally:
        shutil.rmtree(tmp, ignore_errors=True)


def main():
    args = sys.argv[1:]
    d = os.path.join(HERE, "seeded")
    glob = "*"
    props = None
    allp = False
    thorough = False
    i = 0
    while i < len(args):
        a = args[i]
        if a == "--dir":
            d = args[i + 1]; i += 1
        elif a == "--props":
            props = args[i + 1].split(","); i += 1
        elif a == "--all-props":
            allp = True
        elif a == "--thorough":
            thorough = True
        else:
            glob = a
        i += 1
    names = sorted(n for n in os.listdir(d) if os.path.isfile(os.path.join(d, n, "patch.diff")) and fnmatch.fnmatch(n, glob))
    cl = claimed()
    jobs = []
    with cf.ThreadPoolExecutor(max_workers=8) as ex:
        for n in names:
            ps = props
            if ps is None:
                meta = os.path.join(d, n, "meta.json")
                own = json.load(open(meta))["property"] if os.path.isfile(meta) else n.split("-")[0].split("_")[0]
                ps = cl if allp else [own]
            jobs.append(ex.submit(run_seed, d, n, ps, thorough))
        caught = 0
        for j in jobs:
            name, fired, err = j.result()
            if fired is None:
                print(f"{name}: ERROR {err}")
                continue
            hits = {p: v for p, v in fired.items() if v[0] != 0}
            if any(v[0] == 1 for v in hits.values()):
                caught += 1
            status = "CAUGHT" if any(v[0] == 1 for v in hits.values()) else ("ERROR2" if hits else "missed")
            print(f"{name}: {status}")
            for p, (rc, lines) in hits.items():
                for ln in lines[:4]:
                    print(f"    [{p} rc={rc}] {ln[:230]}")
    print(f"seedcheck: {caught}/{len(names)} caught")


if __name__ == "__main__":
    main()
