#!/bin/bash
# re-confirm every seeded change against /repo's current HEAD (fresh scratch worktree each; removed afterwards)
cd /verif
for d in seeded/*/; do n=$(basename $d); p=${n%%-*}; (mkdir -p /tmp/reconf/$n && cp $d/patch.diff $d/demo.py /tmp/reconf/$n/ && cp $d/notes.md /tmp/reconf/$n/ 2>/dev/null; python3 tools/seed_confirm.py /tmp/reconf/$n $n $p > /tmp/reconf/$n.log 2>&1) & 
  while [ $(jobs -r | wc -l) -ge 8 ]; do sleep 1; done
done
wait
for f in /tmp/reconf/*.log; do python3 - "$f" <<'PY'
import sys,json
try:
    d=json.loads(open(sys.argv[1]).read().strip().splitlines()[-1]); print(d['name'], 'confirmed' if d.get('confirmed') else 'NOT-CONFIRMED', d.get('demo_unchanged_rc'), d.get('apply_rc'), d.get('suite_passed'), d.get('demo_changed_rc'))
except Exception as e: print(sys.argv[1], '??', e)
PY
done
rm -rf /tmp/reconf
