#!/usr/bin/env python3
"""helper used while building: add the violations currently recorded in evidence/<id>.violations.json whose
rule/construct match a filter to known_findings.json with a given 'what' text (never used by checks)."""
import json, sys, os, fnmatch
HERE = os.path.dirname(os.path.dirname(os.path.abspath(__file__)))
pid, rule, pattern, what = sys.argv[1:5]
v = json.load(open(os.path.join(HERE, "evidence", f"{pid}.violations.json")))
kf = json.load(open(os.path.join(HERE, "known_findings.json")))
n = 0
for i in v["violations"]:
    if i["rule"] == rule and fnmatch.fnmatch(i["construct"], pattern):
        if not any(k["key"] == i["key"] and k["property"] == pid for k in kf["findings"]):
            kf["findings"].append({"property": pid, "rule": rule, "key": i["key"], "status": "open", "what": what,
                                   "detail": i["detail"][:300]})
            n += 1
json.dump(kf, open(os.path.join(HERE, "known_findings.json"), "w"), indent=1, ensure_ascii=False)
print("added", n)
