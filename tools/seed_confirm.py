#!/usr/bin/env python3
"""Confirm a sub-agent's seeded change in a fresh scratch worktree of /repo (HEAD) and file it under /verif/seeded/.
usage: seed_confirm.py <src-dir-with patch.diff,demo.py,notes.md> <seed-name> <property>
Steps (all in /tmp/seedconf/<name>, removed afterwards): demo on unchanged tree must exit 0; `git apply` patch;
full test suite must pass (337); demo must exit non-zero.  Writes meta.json with what was run."""
import json
import os
import re
import shutil
import subprocess
import sys

HERE = os.path.dirname(os.path.dirname(os.path.abspath(__file__)))


def sh(cmd, cwd, env=None, timeout=1800):
    e = dict(os.environ)
    e.update(env or {})
    p = subprocess.run(cmd, cwd=cwd, env=e, shell=True, capture_output=True, text=True, timeout=timeout)
    return p.returncode, (p.stdout + p.stderr)


def main():
    src, name, prop = sys.argv[1:4]
    wt = f"/tmp/seedconf/{name}"
    os.makedirs("/tmp/seedconf", exist_ok=True)
    subprocess.run(["git", "-C", "/repo", "worktree", "remove", "--force", wt], capture_output=True)
    rc, out = sh(f"git -C /repo worktree add --detach {wt} -q", "/")
    if rc != 0:
        print("worktree failed", out)
        return 2
    res = {"property": prop, "name": name}
    try:
        env = {"PYTHONPATH": wt}
        demo = os.path.join(src, "demo.py")
        is_pytest = "def test_" in open(demo).read() and "__main__" not in open(demo).read()
        demo_cmd = f"/venv/bin/python -m pytest -q -p no:cacheprovider {demo}" if is_pytest else f"/venv/bin/python {demo}"
        rc0, out0 = sh(demo_cmd, wt, env, 900)
        res["demo_unchanged_rc"] = rc0
        rca, outa = sh(f"git apply {os.path.join(src, 'patch.diff')}", wt)
        res["apply_rc"] = rca
        if rca != 0:
            res["apply_out"] = outa[-400:]
        rct, outt = sh("/venv/bin/python -m pytest -q -p no:cacheprovider --timeout=900 2>&1 | tail -3", wt, env, 1800)
        m = re.search(r"(\d+) passed", outt)
        res["suite_passed"] = int(m.group(1)) if m else 0
        res["suite_failed"] = bool(re.search(r"\d+ (failed|error)", outt))
        rc1, out1 = sh(demo_cmd, wt, env, 900)
        res["demo_changed_rc"] = rc1
        res["demo_changed_tail"] = out1.strip().splitlines()[-3:]
        ok = rc0 == 0 and rca == 0 and res["suite_passed"] >= 337 and not res["suite_failed"] and rc1 != 0
        res["confirmed"] = ok
        res["ran"] = [f"git worktree add {wt} (HEAD {subprocess.run(['git','-C','/repo','rev-parse','--short','HEAD'],capture_output=True,text=True).stdout.strip()})",
                      demo_cmd + "  # unchanged tree -> rc %d" % rc0, "git apply patch.diff", "pytest (full suite) -> %d passed" % res["suite_passed"],
                      demo_cmd + "  # changed tree -> rc %d" % rc1]
        if ok:
            dst = os.path.join(HERE, "seeded", name)
            os.makedirs(dst, exist_ok=True)
            shutil.copy(os.path.join(src, "patch.diff"), dst)
            shutil.copy(demo, dst)
            if os.path.isfile(os.path.join(src, "notes.md")):
                shutil.copy(os.path.join(src, "notes.md"), dst)
            notes = open(os.path.join(src, "notes.md")).read() if os.path.isfile(os.path.join(src, "notes.md")) else ""
            meta = {"property": prop, "breaks": prop, "needs_to_manifest": "see notes.md", "confirmed_by": "tools/seed_confirm.py",
                    "ran": res["ran"], "demo_unchanged_rc": rc0, "demo_changed_rc": rc1, "suite_passed_with_change": res["suite_passed"],
                    "caught_by": []}
            json.dump(meta, open(os.path.join(dst, "meta.json"), "w"), indent=1)
        print(json.dumps(res))
        return 0 if ok else 1
    finally:
        subprocess.run(["git", "-C", "/repo", "worktree", "remove", "--force", wt], capture_output=True)


if __name__ == "__main__":
    sys.exit(main())
