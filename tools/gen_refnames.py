#!/usr/bin/env python3
"""record signature -> spelling for the locals of every function of the reference tree (/repo as it stands) in reference_names.json
(see sa/refnames.py).  Run when the reference tree changes (e.g. after a fix commit); never run by the checks."""
import ast, json, os, sys
HERE = os.path.dirname(os.path.dirname(os.path.abspath(__file__)))
sys.path.insert(0, HERE)
from sa import refnames  # noqa: E402
REPO = os.environ.get("VF_REPO", "/repo")
out = {}
nf = nl = 0
for pkg in ("annet", "annet_generators"):
    for root, _, fns in os.walk(os.path.join(REPO, pkg)):
        for fn in sorted(fns):
            if not fn.endswith(".py"):
                continue
            p = os.path.join(root, fn)
            rel = os.path.relpath(p, REPO)
            mod = rel[:-3].replace("/", ".")
            if mod.endswith(".__init__"):
                mod = mod[:-9]
            try:
                tree = ast.parse(open(p, encoding="utf-8").read())
            except SyntaxError:
                continue

            def visit(node, prefix):
                global nf, nl
                for ch in node.body:
                    if isinstance(ch, (ast.FunctionDef, ast.AsyncFunctionDef)):
                        q = prefix + ch.name
                        sig = refnames.signatures(ch)
                        if sig:
                            out.setdefault(mod, {})[q] = {k: name for name, k in sorted(sig.items())}
                            nf += 1
                            nl += len(sig)
                        visit(ch, q + ".")
                    elif isinstance(ch, ast.ClassDef):
                        visit(ch, prefix + ch.name + ".")
            visit(tree, "")
json.dump(out, open(os.path.join(HERE, "reference_names.json"), "w"), indent=0, sort_keys=True)
print(f"reference_names.json: {nl} locals of {nf} functions in {len(out)} modules")
