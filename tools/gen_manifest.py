#!/usr/bin/env python3
"""Regenerates /verif/MANIFEST.json from the table below (kept in one place so the manifest is
always valid and in step with the rules that exist)."""
import json
import os

HERE = os.path.dirname(os.path.dirname(os.path.abspath(__file__)))
BASELINE = ("cd /repo && /venv/bin/python -m pytest -ra -q -p no:cacheprovider --timeout=900 "
            "--continue-on-collection-errors")

# id -> (technique, decided clauses, not decided, design section)
CLAIMS = {
    "C01": ("AST dataflow (pipeline order), abstract interpretation of the six common logic functions over bucket-emptiness valuations, guard algebra on make_patch, rule-text grammar analysis (reverse template vs capture groups) of every shipped .rul row",
            "pipeline order make_diff->make_pre->patch_from_pre with one rulebook; decision tables of default/ordered/rewrite/permanent/ignore_changes/undo_redo; block attachment in make_patch; reverse template agrees with key groups for every shipped rule row; no rule-less deletion; every row reaches its diff logic and every matching rule is collected (single exit of call_diff_logic, _find_rules_matches collects all); sticky disorder flag on ADDED and MOVED",
            "that executing the emitted commands on a device model reaches the target for all rulebooks and chains (value-level)"),
    "C02": ("AST guard algebra + reaching definitions on apply_acl/apply_acl_diff/make_diff, call-site table of make_diff, scheme-table facts",
            "every ACL reaches apply_acl_diff; unmatched rows dropped; REMOVED->AFFECTED rewrite under all(cant_delete); cant_delete defaults/uniters; device call sites pass both ACLs; ACL rule objects are not written by the filter (field-insensitive may-mutate, in depth); ACL patterns compiled without flags; ACL matching keeps no module/class state; only --no-acl switches the ACL step off",
            "ACL coverage of command text produced by logic functions at run time; untouched neighbours on all inputs"),
    "C03": ("constant-table agreement, guard algebra on base_diff, sibling-statement checks, effect lint on standard diff logics",
            "Op/sign tables agree; base_diff guard table; unknown rows leave both sides; strip/mark shape; renderers emit every entry; standard diff logics never delete entries; groups leave in the order of the diff as given; rewrite clear test over all depths; sticky disorder flag; case folded only under the row's own %ignore_case",
            "the reconstruction law on all trees"),
    "C04": ("class-hierarchy resolution of join/_blocks, typestate pairing of BlockBegin/BlockEnd, role-flow of RouterOS section paths, splitter/formatter agreement at call sites",
            "configs rendered without block-exit words; block markers paired; indentation follows markers; parser gets the splitter of the device's own formatter; RouterOS section paths accumulate level by level; terminator predicate table; pairwise look-ahead padded; the row stream is rendered in order without de-duplication",
            "vendor-specific syntax halves and equality on values"),
    "C05": ("path-sensitive typestate over _stripped_indents (every dedent path passes the consistency test or raises), guard algebra on _filtered_lines / parse_to_tree",
            "refusal of inconsistent dedent and negative top indent on every path; comments/blank lines never become rows; duplicates merge; abstract stack semantics of _stacked; both representations of the open-block stack; the default splitter hands the lines on as given",
            "tree equality with a reference offside parser on all texts"),
    "C06": ("reaching definitions + guard algebra + control-dependence on apply_acl/_select_match/_compile_acl/_merge_toplevel",
            "output keys are iterated input keys in order; strict mode raises naming the path and is forwarded to every depth; global rules inherited; children rules independent of which match wins; merges drop nothing; candidates collected for both regexp kinds over all rules with inherited global rules; matching leaves the compiled ACL as it found it (in depth, *args included); a row is cut only where a parameter was recognised",
            "apply_acl == ref_filter, idempotence, the specificity metric's value-level choice"),
    "C07": ("regex-AST (re._parser) language check of compile_row_regexp's macro fragments, sibling agreement of the three reverse forms, grammar lint of every shipped/embedded rule row, parameter-scheme membership",
            "macro fragment languages; reverse-form siblings have both arms; every rule token well-formed; %params known; match_deploy_rule descends path-wise; parameter/row cut agree and happen only with recognised parameters; the row handed on is single-spaced; compilers hand compile_row_regexp the row as written",
            "extensional equality with a reference matcher on all patterns and rows"),
    "C08": ("AST shape + reaching definitions on PatchTree.sort/make_patch/Orderer.order_config/get_order, sibling agreement of the two sort keys, duplicate-row lint of .order texts",
            "sorting only permutes (no filter, stable, recursive); key locality and sign convention; removal before re-creation; get_order branch table; no duplicate sibling rows in .order files; parameters pass through to the compiled ordering rule; get_order is asked about the row as the logic yielded it; one-pass and two-pass forms of make_patch",
            "rank order on all inputs; idempotence on values"),
    "C09": ("guard algebra over every apply-logic function, parameter plumbing (call-graph dataflow of do_commit), loop-shape checks on apply_deploy_rulebook, class-hierarchy pairing of patch/cmd_paths, container-kind check",
            "commit commands guarded by do_commit; do_commit plumbed from --dont-commit to every consumer (positional binding checked against signatures); one Command per path in order; patch/cmd_paths defined together and multiplicity-preserving; default timeouts agree; descend guard of match_deploy_rule (also through a per-level helper); every dialog of the matched rule becomes a question",
            "equality of shown text and sent stream on all trees"),
    "C10": ("reaching definitions + exception-flow on _run_partial_generator/old_new, flag plumbing, fold shape, abstract-row containment (yield vs own ACL) for shipped generators",
            "fatal ACL on generator output at every depth and error conversion; exclusivity flag plumbing and the per-generator AND of flags; union fold; ACL tagging; yield within own ACL for shipped generators; block_if/multiblock_if open their block iff the condition holds, one yield; list arms of merge_dicts concatenate",
            "behaviour of arbitrary user generators; union equality on values"),
    "C11": ("reaching definitions (set-difference provenance) and contradiction rule (whole-key reset must consult UNCHANGED)",
            "removal commands derive from old-new, additions from new-old; whole-key reset consults the UNCHANGED bucket; parse/expand pairing per vendor; memoised expand results are not mutated; inclusive ranges in collapse; the row parser returns what the rows list; removal set excludes ids of rows that stay where rows restate each other; whole-key resets only when no row of the key stays; re-enter only blocks of ids that stay",
            "simulate(cmds,S_old)==S_new on all sets"),
    "C12": ("typestate/pairing over Parallel.irun and _pool_worker (STOP per worker, one put per task before retire, drained-queue exit), partition check on run",
            "one STOP per started worker; one result put per task before retire/exit; the parent leaves the loop only on a drained queue; success/fail partition; dequeued results are delivered before the loop moves on; what crosses the pipe is plain data; results are labelled with the submitted id; no worker is started after the task queue was closed",
            "delivery under all interleavings (needs an explicit-state model: another family)"),
    "C13": ("reaching definitions, taint (document keys -> JsonPointer) and may-mutate effect analysis with alias tracking on annlib/jsontools.py",
            "patch operation order preserved; pointers built from escaped keys; inputs not mutated; writes/deletions only at ACL-resolved pointers; move operations; presence never decided by a None sentinel; empty objects are created only where the member is missing or null; the delete step removes object members only",
            "the three equalities on documents"),
    "C14": ("class-hierarchy pairing acl_<v>/run_<v>, abstract-row containment against the ACL literal, path-sensitive typestate yield->raise per action with propositional path consistency, naming provenance",
            "acl/run pairing; yield within own ACL; no raise after a yield inside one action/condition; names from the shared naming functions; ACL names and de-duplication keys; a list referred to by name is collected by get_used_community_lists; the shared naming function is the plain join",
            "output parses back to the yielded nesting; refs subset of defs on values"),
    "C15": ("sibling-expression symmetry, role-flow dataflow, type-level merger table over all BaseMeshModel fields, guard shape of mergers, exception surfacing",
            "orientation symmetry in lookups; handler(left,right) role consistency; role flow into Peer; every DTO field merger order-insensitive; conflicts surfaced as ValueError; interface requests compared with None; the merge key does not depend on the accumulator; memos keep the orientation of what they store",
            "address/AS equality on topologies; permutation invariance on values"),
    "C16": ("call-graph discovery of logic functions reading UNCHANGED, flow-sensitive provenance of make_pre arguments, stage-sequence agreement of the two front ends, ownership (pre consumed by patch builder not displayed)",
            "no strip_unchanged upstream of make_pre on a patch path while any logic reads UNCHANGED; stage sequence and flag agreement of both front ends; a consumed pre is not rendered afterwards; the un-stripped diff reaches the patch builder intact; both front ends diff the same trees for the same hardware; the file workers have no shortcut before the diff/patch computation",
            "equality of outputs on all inputs"),
    "C17": ("sibling agreement of the three completions, guard algebra on implicit.config, offside/grammar lint of every embedded default text on every hardware branch, provenance of the inserted block value",
            "old/new/safe_new completed identically, before ACL, explicit first; guard table of implicit.config; default texts well-formed on every hw branch; a default block is inserted with its nested defaults; compiled rules are memoised under a complete key; overlapping sibling default rules bring the same nested defaults; every definition of the matching lines is the regexp filter",
            "absence of spurious commands on all trees"),
    "C18": ("exhaustive data analysis: devdb addressable-name table vs every hw.* chain (templates and Python), resolution and signature check of every %logic/%diff_logic/%apply_logic, Mako branch enumeration per devdb sequence with well-formedness of the selected text, vendor-match specificity, cache-key coverage",
            "every hw chain addressable; every named function resolves with a compatible signature; every reachable branch combination yields a well-formed rule tree; devdb prefix-closed with parsing regexes; vendor match specificity strict; cache keys cover what templates read; no load-time import cycle among rulebook logic modules; two-phase claim of short forms; resolution model->vendor is stateless and caches store results only",
            "determinism of Mako and re themselves"),
    "C19": ("guard algebra with comparison normalisation on add_entire, decision table of PCDeployerJob.parse_result, sibling agreement of the changed-file predicate, provenance of uploaded bytes",
            "priority guard; upload/reload decision table; changed-file predicate is content (in)equality in every front end; uploaded bytes are the generated content; safe filter; priority default; per-line comparison without rewriting; Entire path normalised in both places",
            "what difflib prints; behaviour of user generators"),
    "C20": ("escape-point/shield analysis (deep copies at dynamic-callee boundaries), inter-procedural may-mutate effects over the registered logic functions, hidden-state lint over the call-graph closure, cache purity/key completeness",
            "no protected input or shared compiled object reaches a mutating use unshielded; no global/mutable-default state in the closure; cached functions pure with complete keys; value helpers pure in depth; memoised results are not mutated nor handed to mutators; hand-written memos (recognised structurally) keyed by all parameters; no class-level containers written through self",
            "equality of results across histories (the rules are what makes it hold)"),
}


def main():
    props = [json.loads(l) for l in open(os.path.join(HERE, "properties.jsonl"))]
    status = json.load(open(os.path.join(HERE, "tools", "status.json")))
    checks, na = [], []
    for p in props:
        pid = p["id"]
        st = status.get(pid, {"state": "unbuilt"})
        if st["state"] == "claimed" and os.path.isfile(os.path.join(HERE, "rules", pid.lower() + ".py")):
            tech, dec, nodec = CLAIMS[pid]
            checks.append({
                "property_id": pid,
                "quick_cmd": f"./vf check {pid}",
                "thorough_cmd": f"./vf check {pid} --thorough",
                "evidence_file": f"/verif/evidence/{pid}.json",
                "replay_cmd_template": "./vf show {path}",
                "engine": "vf-static",
                "level_claimed": {
                    "category": "other",
                    "text": ("Static analysis of /repo's working tree (never executes annet): decides, on every path / every "
                             "shipped rule row / every class, these structural necessary conditions of the property: " + dec +
                             ". It does NOT decide: " + nodec + ". A pass means every named obligation holds on the analysed "
                             "source; it is not an observation of behaviour."),
                    "design_ref": f"DESIGN.md section 4, {pid}",
                },
                "level_note": ("Trusted base: Python's ast/re parsers, the rule tables and idiom lists in /verif/rules/" + pid.lower() +
                               ".py (each confirmed by reading the anchored code), library effect models named in the evidence "
                               "'assumptions'. A vanished anchor or an instance count below the confirmed floor is exit 2 "
                               "(ANALYSIS-ERROR), never a pass."),
                "technique": "static analysis: " + tech,
            })
        else:
            na.append({"property_id": pid, "reason": st.get("reason", "check not built yet (build in progress; see DESIGN.md section 4)")})
    m = {
        "version": 1,
        "setup_cmd": "python3-vt -c \"import ast, json, networkx\" && chmod +x ./vf",
        "hooks": {"guard": "ANNET_VERIF", "enable": "none needed: static analysis reads /repo's working tree; no hooks were added to annet",
                  "baseline_off_cmd": BASELINE, "source_commits": [], "add_only": True},
        "engines": [{"name": "vf-static", "path": "/verif/vf", "serves_properties": [c["property_id"] for c in checks],
                     "kind_free_text": "repository-specific static analyser (stdlib ast + re._parser): repo model with import/MRO/callee resolution, "
                                       "guard algebra, flow-sensitive reaching definitions and provenance, path-sensitive typestate, may-mutate effects, "
                                       "rule-text (DSL) and devdb front-ends"}],
        "checks": checks,
        "notes": ("All checks run under python3-vt, need nothing installed, never import annet, and analyse $VF_REPO (default /repo) afresh on every run. "
                  "Exit 0 held / 1 VIOLATION / 2 ANALYSIS-ERROR. known_findings.json lists recorded defects; ./vf selftest runs firing variants and silent twins; "
                  "seeded/ holds independently written breaking changes with demonstrations."),
        "not_applicable": na,
    }
    with open(os.path.join(HERE, "MANIFEST.json"), "w") as f:
        json.dump(m, f, indent=1)
    print(f"MANIFEST: {len(checks)} checks, {len(na)} not_applicable")


if __name__ == "__main__":
    main()
