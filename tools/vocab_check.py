#!/usr/bin/env python3
"""The canonicaliser never inlines or renames identifiers that the rule modules mention as identifier-like string constants ("protected" names, sa/canon.py).
A word that gets into that vocabulary by accident (a role name such as "found", an attribute path such as ".value.removed") silently switches copy propagation off for
every local of that name in annet — the checks then depend on spelling again (twin V9/C20_3 alarmed that way).  This tool lists protected words that are also names of
locals in /repo and are not in the reviewed allowlist tools/protected_locals_allow.json.   usage: vocab_check.py [--update]"""
import ast, json, os, sys
HERE = os.path.dirname(os.path.dirname(os.path.abspath(__file__)))
sys.path.insert(0, HERE)
from sa.canon import _protected_names  # noqa: E402
REPO = os.environ.get("VF_REPO", "/repo")
locals_ = set()
for pkg in ("annet", "annet_generators"):
    for root, _, fns in os.walk(os.path.join(REPO, pkg)):
        for fn in fns:
            if fn.endswith(".py"):
                try:
                    tree = ast.parse(open(os.path.join(root, fn), encoding="utf-8").read())
                except SyntaxError:
                    continue
                for f in ast.walk(tree):
                    if isinstance(f, (ast.FunctionDef, ast.AsyncFunctionDef)):
                        for n in ast.walk(f):
                            if isinstance(n, ast.Name) and isinstance(n.ctx, ast.Store):
                                locals_.add(n.id)
risky = sorted(_protected_names() & locals_)
ap = os.path.join(HERE, "tools", "protected_locals_allow.json")
if "--update" in sys.argv:
    json.dump(risky, open(ap, "w"), indent=0)
    print(f"vocab_check: allowlist updated ({len(risky)} words)")
    sys.exit(0)
allow = set(json.load(open(ap))) if os.path.isfile(ap) else set()
new = [w for w in risky if w not in allow]
print(f"vocab_check: {len(risky)} protected words are names of locals in the repository, {len(new)} not reviewed" + (": " + ", ".join(new) if new else ""))
sys.exit(1 if new else 0)
