#!/usr/bin/env python3
"""record, per property/tier/rule, how many instances the rule located on the reference tree (/repo as it stands): checks fail with
ANALYSIS-ERROR when a later run locates fewer than 3/4 of them (a rule that stops matching must not pass vacuously).
Run after confirming by reading that the current counts are right; never run by the checks themselves."""
import json, os, subprocess, sys, tempfile
HERE = os.path.dirname(os.path.dirname(os.path.abspath(__file__)))
props = [c["property_id"] for c in json.load(open(os.path.join(HERE, "MANIFEST.json")))["checks"]]
out = {}
for tier, flag in (("quick", []), ("thorough", ["--thorough"])):
    for p in props:
        with tempfile.TemporaryDirectory() as d:
            env = dict(os.environ, VF_EVIDENCE_DIR=d, VF_NO_BASELINE="1")
            r = subprocess.run([os.path.join(HERE, "vf"), "check", p] + flag, capture_output=True, text=True, env=env, cwd=HERE)
            counts = {}
            for ln in r.stdout.splitlines():
                if ln.startswith("  " + p + ".R") and ":" in ln:
                    rid, rest = ln.strip().split(":", 1)
                    n = sum(int(x.split()[0]) for x in rest.split(",") if x.strip() and x.strip()[0].isdigit())
                    counts[rid] = n
            out[f"{p}:{tier}"] = counts
            print(p, tier, r.returncode, counts)
json.dump(out, open(os.path.join(HERE, "baseline_counts.json"), "w"), indent=1, sort_keys=True)
