#!/usr/bin/env python3
"""Metamorphic robustness test: a scratch copy of /repo's annet packages in which every function-local variable (not a parameter, not
global/nonlocal, not rebound in a nested scope) is renamed is behaviour-identical by construction; every check must stay silent on it.
usage: alpha_twin.py [--suffix _q] [--keep DIR] [--only module.path.prefix]
Any exit 1 / exit 2 of a check on the renamed tree means a rule depends on the spelling of a local name."""
import ast, json, os, shutil, subprocess, sys, tempfile
HERE = os.path.dirname(os.path.dirname(os.path.abspath(__file__)))
REPO = os.environ.get("VF_REPO", "/repo")
FuncT = (ast.FunctionDef, ast.AsyncFunctionDef)


def scope_names(fn):
    """names bound in the function's own scope (not nested scopes)"""
    params = {a.arg for a in fn.args.args + fn.args.kwonlyargs + fn.args.posonlyargs}
    if fn.args.vararg:
        params.add(fn.args.vararg.arg)
    if fn.args.kwarg:
        params.add(fn.args.kwarg.arg)
    bound, declared = set(), set()

    def walk(n, top=True):
        for ch in ast.iter_child_nodes(n):
            if isinstance(ch, FuncT + (ast.ClassDef,)):
                bound.add(ch.name)
                continue
            if isinstance(ch, ast.Lambda):
                continue
            if isinstance(ch, (ast.ListComp, ast.SetComp, ast.DictComp, ast.GeneratorExp)):
                # comprehension targets live in their own scope; walrus targets would leak (not used in this code base)
                continue
            if isinstance(ch, (ast.Global, ast.Nonlocal)):
                declared.update(ch.names)
            if isinstance(ch, ast.Name) and isinstance(ch.ctx, (ast.Store, ast.Del)):
                bound.add(ch.id)
            if isinstance(ch, ast.ExceptHandler) and ch.name:
                bound.add(ch.name)
            if isinstance(ch, (ast.Import, ast.ImportFrom)):
                for a in ch.names:
                    bound.add((a.asname or a.name).split(".")[0])
            walk(ch, False)
    walk(fn)
    return params, bound - params - declared, declared


def nested_bindings(fn):
    """names bound (as parameter, local, comprehension target) in any scope nested inside fn"""
    out = set()
    for n in ast.walk(fn):
        if n is fn:
            continue
        if isinstance(n, FuncT + (ast.Lambda,)):
            a = n.args
            out |= {x.arg for x in a.args + a.kwonlyargs + a.posonlyargs}
            if a.vararg:
                out.add(a.vararg.arg)
            if a.kwarg:
                out.add(a.kwarg.arg)
            if isinstance(n, FuncT):
                _, b, d = scope_names(n)
                out |= b | d
        if isinstance(n, (ast.ListComp, ast.SetComp, ast.DictComp, ast.GeneratorExp)):
            for g in n.generators:
                for t in ast.walk(g.target):
                    if isinstance(t, ast.Name):
                        out.add(t.id)
    return out


class Renamer(ast.NodeTransformer):
    def __init__(self, mapping):
        self.m = mapping

    def visit_Name(self, node):
        if node.id in self.m:
            node.id = self.m[node.id]
        return node

    def visit_ExceptHandler(self, node):
        if node.name in self.m:
            node.name = self.m[node.name]
        self.generic_visit(node)
        return node

    def visit_FunctionDef(self, node):
        # nested def names are locals of the enclosing function too
        if node.name in self.m:
            node.name = self.m[node.name]
        self.generic_visit(node)
        return node

    def visit_alias(self, node):
        return node


def rename_module(src, suffix):
    tree = ast.parse(src)
    n = 0
    # only outermost functions and methods: nested functions are renamed as part of their owner
    owners = []
    for node in tree.body:
        if isinstance(node, FuncT):
            owners.append(node)
        elif isinstance(node, ast.ClassDef):
            owners += [x for x in node.body if isinstance(x, FuncT)]
    uses_dyn = any(isinstance(x, ast.Call) and isinstance(x.func, ast.Name) and x.func.id in ("locals", "vars", "eval", "exec") for x in ast.walk(tree))
    if uses_dyn:
        return src, 0
    for fn in owners:
        params, bound, declared = scope_names(fn)
        skip = nested_bindings(fn) | declared | {"__class__"}
        imported = set()
        for x in ast.walk(fn):
            if isinstance(x, (ast.Import, ast.ImportFrom)):
                for a in x.names:
                    imported.add((a.asname or a.name).split(".")[0])
        names = {b for b in bound if b not in skip and b not in imported and not b.startswith("__") and b != "_"}
        # nested function names: keep (they may be referenced by decorators etc.)
        names -= {x.name for x in ast.walk(fn) if isinstance(x, FuncT + (ast.ClassDef,)) and x is not fn}
        if not names:
            continue
        mapping = {b: b + suffix for b in names}
        for st in fn.body:
            Renamer(mapping).visit(st)
        n += len(mapping)
    return ast.unparse(tree) + "\n", n


def main():
    a = sys.argv[1:]
    suffix = "_q"
    keep = None
    only = None
    i = 0
    while i < len(a):
        if a[i] == "--suffix":
            suffix = a[i + 1]; i += 1
        elif a[i] == "--keep":
            keep = a[i + 1]; i += 1
        elif a[i] == "--only":
            only = a[i + 1]; i += 1
        i += 1
    tmp = keep or tempfile.mkdtemp(prefix="vf_alpha_")
    os.makedirs(tmp, exist_ok=True)
    total = 0
    for pkg in ("annet", "annet_generators"):
        dst = os.path.join(tmp, pkg)
        if os.path.isdir(dst):
            shutil.rmtree(dst)
        shutil.copytree(os.path.join(REPO, pkg), dst, ignore=shutil.ignore_patterns("__pycache__"))
        for root, _, fns in os.walk(dst):
            for fn in fns:
                if fn.endswith(".py"):
                    p = os.path.join(root, fn)
                    rel = os.path.relpath(p, tmp).replace("/", ".")[:-3]
                    if only and not rel.startswith(only):
                        continue
                    src = open(p, encoding="utf-8").read()
                    try:
                        new, n = rename_module(src, suffix)
                    except SyntaxError:
                        continue
                    if n:
                        compile(new, p, "exec")
                        open(p, "w", encoding="utf-8").write(new)
                        total += n
    print(f"alpha_twin: renamed {total} locals under {tmp}")
    props = [c["property_id"] for c in json.load(open(os.path.join(HERE, "MANIFEST.json")))["checks"]]
    bad = 0
    for p in props:
        env = dict(os.environ, VF_REPO=tmp, VF_EVIDENCE_DIR=os.path.join(tmp, "_ev"), VF_KEEP_VIOLATIONS="1")
        r = subprocess.run([os.path.join(HERE, "vf"), "check", p], cwd=HERE, env=env, capture_output=True, text=True)
        if r.returncode != 0:
            bad += 1
            lines = [ln for ln in r.stdout.splitlines() if (" VIOLATED " in ln and "[known]" not in ln) or ln.startswith("ANALYSIS-ERROR")]
            print(f"{p}: rc={r.returncode}")
            for ln in lines[:4]:
                print("    " + ln[:260])
        else:
            print(f"{p}: silent")
    if not keep:
        shutil.rmtree(tmp, ignore_errors=True)
    print(f"alpha_twin: {len(props) - bad}/{len(props)} checks silent")
    return 1 if bad else 0


if __name__ == "__main__":
    sys.exit(main())
