#!/usr/bin/env python3
"""fill seeded/*/meta.json: 'needs_to_manifest' (from the table below) and 'caught_by' (rules that fire, from a fresh seedcheck --all-props run)"""
import json, os, re, subprocess, sys
HERE = os.path.dirname(os.path.dirname(os.path.abspath(__file__)))
NEEDS = {
 "C01-A": "an %ordered block in which a row in the middle is replaced in place (same index): the tail rows keep their index, are not MOVED, and the device appends the new row at the end",
 "C01-B": "a rule whose first word merely begins with the vendor's negation letters (e.g. `notify ...` under `no`); no shipped rule has that shape",
 "C02-A": "an ACL row `interface`/`interfaces` without explicit %cant_delete and a covered interface block the generators do not emit",
 "C02-B": "two generators whose ACL literals have different base indentation, the less indented one first and ending inside a block rule",
 "C03-A": "an %ordered block that changes position and loses an inner line in the same step",
 "C03-B": "a reordered %ordered block (MOVED rows only) shown through gen_pre_as_diff",
 "C04-A": "history: some earlier call make_formatter(indent='') in the same process (deploy path), then the default make_formatter().join for juniper/ribbon/nokia",
 "C04-B": "a b4com tree with an `address-family` row followed by something else",
 "C05-A": "a dedent to a column no enclosing block started at (e.g. columns 0, 4, 2)",
 "C05-B": "an indented `#` comment inside a block that continues afterwards",
 "C06-A": "fatal_acl=True and a covered row with children whose rule has no children rules and no inherited %global rule",
 "C06-B": "a block header matched by [local rule with children, %global rule, local rule with other children] in that specificity order",
 "C07-A": "history: the same row text compiled once with re.IGNORECASE (%ignore_case) and once without, in one process",
 "C07-B": "a `*/regex/` placeholder whose regex contains a slash (interface */\\w*Ethernet[0-9\\/]+$/), on a rule whose logic formats the reverse",
 "C08-A": ">= 2 %global ordering rules, a block no ordering rule mentions, and a patch touching both families inside it",
 "C08-B": "a config row that starts with the vendor's exit word (exit-peer-policy) in a block with its own ordering rules",
 "C09-A": "a patch alternating two apply-logic wrappers A-B-A (Aruba ap-env and conf-t rows with a removal)",
 "C09-B": "do_commit != do_finalize, i.e. --dont-commit on a commit-capable vendor",
 "C10-A": "one generator matching a row with two of its own rules (deletable + cant_delete catch-all) while another generator also owns the row",
 "C10-B": "an uncovered line yielded inside a block the generator's ACL does cover",
 "C11-A": "a `vlan batch` list spanning >= 2 lines, a dropped `vlan N` block with options, N not in the last line",
 "C11-B": "a multi-line `switchport trunk allowed vlan` list where a whole line is dropped, nothing added, another line unchanged",
 "C12-A": "a worker reaching max_tasks on the multi-process path (retirement)",
 "C12-B": "the whole pool retiring while the parent is away from its loop (uniform task durations + one slow callback)",
 "C13-A": "an ACL pattern that matches nothing in the fragment but something in the old document",
 "C13-B": "one array edited in several places at once (reordered operations still apply but give another array)",
 "C14-A": "two has_any conditions over the same community lists in different order",
 "C14-B": "cumulus: rule.extcommunity.set(...) followed by .add(...)/.remove(...) in one statement",
 "C15-A": "a handler assigning a shared constant set to session.families and a second rule matching the same pair with another family set",
 "C15-B": "a rule whose masks match a pair in both orientations with a handler that is not symmetric in (left, right)",
 "C16-A": "a Huawei top-level `bgp <asn>` block removed or re-created with another AS (the only shipped force_commit rule)",
 "C17-A": "a Huawei NE tree with an explicit `aaa` block lacking the nested default row",
 "C17-B": "an empty running config on a non-CE model with a generator ACL covering the default row",
 "C18-A": "vendors registered in another order than the built-in import order",
 "C18-B": "a Huawei Quidway model (S5300, S2700, ...): the nested %if is only evaluated for those",
 "C19-A": ">= 2 Entire generators on one path listed in non-descending prio order",
 "C19-B": ">= 2 files with an unchanged file iterated after a changed one, entire_reload in {no, yes}",
 "C20-A": "a nested row dropped by rule matching (ignore rule below the top level), then any later use of the same tree object",
 "C20-B": "two devices of one vendor but different hardware families served by one process, touching a model-dependent rule",
}
out = subprocess.run([sys.executable, os.path.join(HERE, "tools", "seedcheck.py"), "--all-props"], capture_output=True, text=True).stdout
cur = None; fired = {}
for l in out.splitlines():
    m = re.match(r'^(C\d+-[AB]): ', l)
    if m:
        cur = m.group(1); fired[cur] = []; continue
    m = re.match(r'\s+\[(C\d+) rc=1\] (\S+) VIOLATED (\S+) (\S+)', l)
    if m and cur:
        r = f"{m.group(2)} ({m.group(4).rstrip(':')})"
        if r not in fired[cur]:
            fired[cur].append(r)
for name in sorted(os.listdir(os.path.join(HERE, "seeded"))):
    mp = os.path.join(HERE, "seeded", name, "meta.json")
    if not os.path.isfile(mp):
        continue
    meta = json.load(open(mp))
    meta["needs_to_manifest"] = NEEDS.get(name, meta.get("needs_to_manifest"))
    meta["caught_by"] = fired.get(name, [])
    meta["caught"] = bool(fired.get(name))
    json.dump(meta, open(mp, "w"), indent=1, ensure_ascii=False)
print(out.splitlines()[-1])
