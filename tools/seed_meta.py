#!/usr/bin/env python3
"""fill seeded/*/meta.json: 'needs_to_manifest' (from the table below) and 'caught_by' (rules that fire, from a fresh seedcheck --all-props run)"""
import json, os, re, subprocess, sys
HERE = os.path.dirname(os.path.dirname(os.path.abspath(__file__)))
NEEDS = {
 "C01-A": "an %ordered block in which a row in the middle is replaced in place (same index): the tail rows keep their index, are not MOVED, and the device appends the new row at the end",
 "C01-B": "a rule whose first word merely begins with the vendor's negation letters (e.g. `notify ...` under `no`); no shipped rule has that shape",
 "C02-A": "an ACL row `interface`/`interfaces` without explicit %cant_delete and a covered interface block the generators do not emit",
 "C02-B": "two generators whose ACL literals have different base indentation, the less indented one first and ending inside a block rule",
 "C03-A": "an %ordered block that changes position and loses an inner line in the same step",
 "C03-B": "a reordered %ordered block (MOVED rows only) shown through gen_pre_as_diff",
 "C04-A": "history: some earlier call make_formatter(indent='') in the same process (deploy path), then the default make_formatter().join for juniper/ribbon/nokia",
 "C04-B": "a b4com tree with an `address-family` row followed by something else",
 "C05-A": "a dedent to a column no enclosing block started at (e.g. columns 0, 4, 2)",
 "C05-B": "an indented `#` comment inside a block that continues afterwards",
 "C06-A": "fatal_acl=True and a covered row with children whose rule has no children rules and no inherited %global rule",
 "C06-B": "a block header matched by [local rule with children, %global rule, local rule with other children] in that specificity order",
 "C07-A": "history: the same row text compiled once with re.IGNORECASE (%ignore_case) and once without, in one process",
 "C07-B": "a `*/regex/` placeholder whose regex contains a slash (interface */\\w*Ethernet[0-9\\/]+$/), on a rule whose logic formats the reverse",
 "C08-A": ">= 2 %global ordering rules, a block no ordering rule mentions, and a patch touching both families inside it",
 "C08-B": "a config row that starts with the vendor's exit word (exit-peer-policy) in a block with its own ordering rules",
 "C09-A": "a patch alternating two apply-logic wrappers A-B-A (Aruba ap-env and conf-t rows with a removal)",
 "C09-B": "do_commit != do_finalize, i.e. --dont-commit on a commit-capable vendor",
 "C10-A": "one generator matching a row with two of its own rules (deletable + cant_delete catch-all) while another generator also owns the row",
 "C10-B": "an uncovered line yielded inside a block the generator's ACL does cover",
 "C11-A": "a `vlan batch` list spanning >= 2 lines, a dropped `vlan N` block with options, N not in the last line",
 "C11-B": "a multi-line `switchport trunk allowed vlan` list where a whole line is dropped, nothing added, another line unchanged",
 "C12-A": "a worker reaching max_tasks on the multi-process path (retirement)",
 "C12-B": "the whole pool retiring while the parent is away from its loop (uniform task durations + one slow callback)",
 "C13-A": "an ACL pattern that matches nothing in the fragment but something in the old document",
 "C13-B": "one array edited in several places at once (reordered operations still apply but give another array)",
 "C14-A": "two has_any conditions over the same community lists in different order",
 "C14-B": "cumulus: rule.extcommunity.set(...) followed by .add(...)/.remove(...) in one statement",
 "C15-A": "a handler assigning a shared constant set to session.families and a second rule matching the same pair with another family set",
 "C15-B": "a rule whose masks match a pair in both orientations with a handler that is not symmetric in (left, right)",
 "C16-A": "a Huawei top-level `bgp <asn>` block removed or re-created with another AS (the only shipped force_commit rule)",
 "C17-A": "a Huawei NE tree with an explicit `aaa` block lacking the nested default row",
 "C17-B": "an empty running config on a non-CE model with a generator ACL covering the default row",
 "C18-A": "vendors registered in another order than the built-in import order",
 "C18-B": "a Huawei Quidway model (S5300, S2700, ...): the nested %if is only evaluated for those",
 "C19-A": ">= 2 Entire generators on one path listed in non-descending prio order",
 "C19-B": ">= 2 files with an unchanged file iterated after a changed one, entire_reload in {no, yes}",
 "C20-A": "a nested row dropped by rule matching (ignore rule below the top level), then any later use of the same tree object",
 "C20-B": "two devices of one vendor but different hardware families served by one process, touching a model-dependent rule",
 "C01-C": "an %ordered block that moves and in which a child line is modified (REMOVED + ADDED under one key): the whole key is deleted from the children pre",
 "C01-D": "a rule carrying both %ordered (or %rewrite) and an explicit %logic=...; rows of that rule reordered",
 "C02-C": "a generator yielding the negation of a row covered only by cant_delete rules, with the combined ACL applied without the exclusiveness check",
 "C02-D": "a filter ACL in use and a row protected explicitly by %cant_delete",
 "C03-C": "an %ordered rule whose rows are blocks (or a %rewrite block at depth >= 2) where the block row becomes MOVED",
 "C03-D": "a %rewrite block whose only change lies below an unchanged first-level row (statement inside an if of a route-policy)",
 "C04-C": "RouterOS: two adjacent nested sections whose child trees compare equal (one groupby group)",
 "C04-D": "IOS-XR: a row that begins with a terminator word without ending in one (end-policy-map)",
 "C05-C": "a `#` line at column 0 followed by a section whose first content line is indented",
 "C05-D": "a block header repeated later in the text (second occurrence merges into the first): the per-depth node cache is stale",
 "C06-C": "two rules with equal (prio, specificity) where an earlier rule matches in reverse and a later one directly",
 "C06-D": "a row matched by exactly one non-global rule that has no children rules, under an ACL with %global rules",
 "C07-C": "a negated ordering rule whose remainder begins with a letter of the prefix word (`no ntp ...`, `undo domain ...`): lstrip eats it",
 "C07-D": "a rule whose first %param is separated from the words by a tab or a continuation line",
 "C08-C": "several negated rows with equal order (matched by one rule or by none)",
 "C08-D": "an ordering rule whose first word merely begins with the negation word (`notify`, `undotted`)",
 "C09-C": "Huawei NE family with do_commit=False (--dont-commit)",
 "C09-D": "the same command text under two different blocks whose deploy rules differ (nested rules / a child-less parent rule)",
 "C10-C": "block_if with a falsy but valid token (area 0, unit 0)",
 "C10-D": ">= 2 generators whose ACL source texts have different base indentation",
 "C11-C": "a multi_all port list over several lines, an unchanged line whose ids lie between removed ids, no ADDED id in the gap",
 "C11-D": "history: a multi-row Cisco list processed first, then the same range text in another changed row (memoised set updated in place)",
 "C12-C": "the iteration that reads a result also finds the last worker gone (slow consumer / callback)",
 "C12-D": "a task raising BrokenPipeError/ConnectionResetError on every attempt",
 "C13-C": "a JSON null stored exactly at a non-glob ACL pointer",
 "C13-D": "two or more positional operations on one array (reversal, reorder+shorten, two moves)",
 "C14-C": "cumulus: a community list used only in community.remove(...) and nowhere else",
 "C14-D": "huawei/arista with the ACL applied and a match with an or_longer=(ge, le) override (derived list name)",
 "C15-C": "an indirect rule matched in reverse orientation with a handler reading left.match / right.match",
 "C15-D": "a handler requesting subif = 0 / lag = 0 / svi = 0",
 "C16-C": "a logic function that rewrites its bucket (huawei.bgp.bfd, *.permanent): the pre returned for display is the consumed one",
 "C16-D": "a Huawei interface with two multi-line vlan list lines, one removed and one kept (nested unchanged rows pruned before the patch)",
 "C17-C": "--acl-safe mode, a model with nested defaults, a block present in new but not in the safe output",
 "C17-D": "history: two Nexus 95xx devices of one model with different role tags handled one after another",
 "C18-C": "a devdb family listed after one of its descendants (data edit) together with the node built from the descendant's names",
 "C18-D": "history: the same model loaded with two software versions on either side of the hw.soft branch",
 "C19-C": "an Entire generator declaring prio = 0 next to one declaring 1..99 for the same path",
 "C19-D": "file contents differing only in trailing blanks / CRLF",
 "C20-C": "a config containing rows governed by an ignore rule or no rule, no ACL in _diff_and_patch",
 "C20-D": "history: an ACL with two overlapping blocks sharing a same-named child rule; a row matching both, then a row matching one",
}
if "--from" in sys.argv:
    out = open(sys.argv[sys.argv.index("--from") + 1]).read()        # output of an earlier seedcheck run
else:
    out = subprocess.run([sys.executable, os.path.join(HERE, "tools", "seedcheck.py"), "--all-props"], capture_output=True, text=True).stdout


def needs_from_notes(name):
    """the 'what is needed to manifest' paragraph of the sub-agent's notes (seeds of later rounds have no hand-written entry above)"""
    p = os.path.join(HERE, "seeded", name, "notes.md")
    if not os.path.isfile(p):
        return None
    txt = open(p, encoding="utf-8").read()
    m = re.search(r"^#+[^\n]*(needed to manifest|needs to manifest|to manifest|How to trigger|Trigger)[^\n]*\n(.+?)(?=^#|\Z)", txt, re.S | re.M | re.I)
    if not m:
        return None
    return " ".join(m.group(2).split())[:600]



cur = None; fired = {}
for l in out.splitlines():
    m = re.match(r'^(C\d+-[A-Z]): ', l)
    if m:
        cur = m.group(1); fired[cur] = []; continue
    m = re.match(r'\s+\[(C\d+) rc=1\] (\S+) VIOLATED (\S+) (\S+)', l)
    if m and cur:
        r = f"{m.group(2)} ({m.group(4).rstrip(':')})"
        if r not in fired[cur]:
            fired[cur].append(r)
for name in sorted(os.listdir(os.path.join(HERE, "seeded"))):
    mp = os.path.join(HERE, "seeded", name, "meta.json")
    if not os.path.isfile(mp):
        continue
    meta = json.load(open(mp))
    meta["needs_to_manifest"] = NEEDS.get(name) or (needs_from_notes(name) if meta.get("needs_to_manifest") in (None, "see notes.md") else meta.get("needs_to_manifest")) or "see notes.md"
    meta["caught_by"] = fired.get(name, [])
    meta["caught"] = bool(fired.get(name))
    json.dump(meta, open(mp, "w"), indent=1, ensure_ascii=False)
print(out.splitlines()[-1])
