#!/bin/bash
# usage: round_confirm.sh <round> <slot>   -- confirm every /tmp/seed_out/CNNr<round>/<slot>/ not yet filed under seeded/CNN-<slot> (in parallel)
r=$1; s=$2; cd "$(dirname "$0")/.."
for d in /tmp/seed_out/C??r$r/$s; do
  [ -f "$d/patch.diff" ] || continue
  p=$(basename "$(dirname "$d")"); p=${p%r$r}
  [ -d "seeded/$p-$s" ] && continue
  ( python3 tools/seed_confirm.py "$d" "$p-$s" "$p" > "/tmp/seed_out/${p}r$r/$s.confirm.json" 2>&1; echo "$p-$s rc=$?" ) &
done
wait
