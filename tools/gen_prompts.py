#!/usr/bin/env python3
"""Generate the prompts handed to fresh sub-agents (they get the property text and their own worktree, nothing from /verif):
  gen_prompts.py seeds <round> <slotA> <slotB> <outdir>      -> <outdir>/Cnn r<round>.prompt.txt for all 20 properties (breaking changes)
  gen_prompts.py twins <batch letter> <outdir> [shift]        -> <outdir>/<L>0..9.prompt.txt  (behaviour-preserving refactorings, 2 properties each)
The "earlier changes" list is rebuilt from seeded/*/notes.md, the "earlier refactorings" list from the hunks of twins/*/*.diff."""
import glob, json, os, re, sys
HERE = os.path.dirname(os.path.dirname(os.path.abspath(__file__)))
props = {}
for line in open(os.path.join(HERE, "properties.jsonl"), encoding="utf-8"):
    d = json.loads(line)
    props[d["id"]] = d

SEED_EXTRA = ("\n\nAdditional rules: never use `git stash` (other agents share the same git object store; stashes collide) — to switch between your two changes save each as a diff file and "
              "use `git checkout -- .` / `git apply`. Prefer mechanisms and functions that none of the earlier changes listed above used; look also at code the anchored functions CALL or "
              "that calls them (helpers, sibling vendor variants, data files/rule texts), and at clauses of the property statement that none of the earlier changes broke.\n")


def seeds(rnd, sa, sb, out):
    tmpl = open(os.path.join(HERE, "tools/prompts/seed.tmpl"), encoding="utf-8").read()
    os.makedirs(out, exist_ok=True)
    for pid, d in sorted(props.items()):
        prev = []
        for sd in sorted(glob.glob(os.path.join(HERE, "seeded", pid + "-*"))):
            nm = os.path.basename(sd)
            notes = os.path.join(sd, "notes.md")
            txt = " ".join(open(notes, encoding="utf-8").read().split())[:520] if os.path.isfile(notes) else open(os.path.join(sd, "patch.diff")).read()[:400]
            prev.append(f"- ({nm}) {txt}")
        t = tmpl.replace("@ID@r2", f"{pid}r{rnd}").replace("@PROP@", json.dumps(d, indent=1, ensure_ascii=False)).replace("@PREV@", "\n".join(prev))
        t = t.replace("call them C and D;", f"call them {sa} and {sb} — these are just the two slot names of this round;")
        t = re.sub(r"\bC/(patch\.diff|demo\.py|notes\.md)", sa + r"/\1", t)
        t = re.sub(r"\bD/(patch\.diff|demo\.py|notes\.md)", sb + r"/\1", t)
        t = t.replace("only change C applied", f"only change {sa} applied").replace("(same for change D)", f"(same for change {sb})")
        open(os.path.join(out, f"{pid}r{rnd}.prompt.txt"), "w", encoding="utf-8").write(t + SEED_EXTRA)
    print("wrote", len(props), "seed prompts to", out)


def hunks_by_prop():
    out = {}
    for f in glob.glob(os.path.join(HERE, "twins", "*", "C*_*.diff")):
        pid = os.path.basename(f).split("_")[0]
        files, defs = set(), set()
        for ln in open(f, encoding="utf-8", errors="replace"):
            if ln.startswith("+++ b/"):
                files.add(os.path.basename(ln[6:].strip()))
            m = re.match(r"@@ .* @@ (?:class|def|async def) (\w+)", ln)
            if m:
                defs.add(m.group(1))
            m = re.match(r"[-+ ]\s*(?:def|class) (\w+)", ln)
            if m:
                defs.add(m.group(1))
        out.setdefault(pid, set()).add(",".join(sorted(files)) + ": " + ",".join(sorted(defs)))
    return out


TWIN_EXTRA = ("\nEarlier refactorings already exist for these hunks (file: enclosing defs) — yours should restructure OTHER anchored functions (including helpers they call and sibling vendor "
              "variants), or the same ones in a clearly different way. Bigger restructurings are welcome: split a function in two or merge two, turn a generator into a list-returning "
              "function or back, replace an if/elif chain by a lookup table or a lookup table by ifs, replace a dict record by a tuple/NamedTuple/dataclass, hoist loop-invariant "
              "computations, replace recursion helper by closure, convert while-loop to for-loop where equivalent, use early returns, `itertools`/`functools` idioms, walrus operator, "
              "`match` statements are NOT available (py3.10 syntax ok) — still with EXACTLY the same behaviour:\n@EARLIER@\n\nNever use `git stash` (other agents share the git object "
              "store); switch between your diffs with `git checkout -- .` and `git apply`.\n")


def twins(letter, out, shift=0):
    tmpl = open(os.path.join(HERE, "tools/prompts/twin.tmpl"), encoding="utf-8").read()
    os.makedirs(out, exist_ok=True)
    ids = sorted(props)
    hb = hunks_by_prop()
    for n in range(10):
        a, b = ids[n], ids[(n + 10 + shift) % 20] if shift == 0 else ids[10 + (n + shift) % 10]
        ptxt = "\n\n".join(json.dumps(props[x], indent=1, ensure_ascii=False) for x in (a, b))
        earlier = "\n".join(f"- {x}: " + "; ".join(sorted(hb.get(x, []))[:14]) for x in (a, b))
        t = tmpl.replace("T@N@", f"{letter}{n}").replace("@PROPS@", ptxt)
        t = t.replace("DELIVERABLES", TWIN_EXTRA.replace("@EARLIER@", earlier) + "DELIVERABLES", 1)
        open(os.path.join(out, f"{letter}{n}.prompt.txt"), "w", encoding="utf-8").write(t)
    print("wrote 10 twin prompts to", out)


if __name__ == "__main__":
    a = sys.argv[1:]
    if a and a[0] == "seeds":
        seeds(a[1], a[2], a[3], a[4])
    elif a and a[0] == "twins":
        twins(a[1], a[2], int(a[3]) if len(a) > 3 else 0)
    else:
        print(__doc__)
