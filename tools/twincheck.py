#!/usr/bin/env python3
"""Run every claimed check against behaviour-preserving refactorings (silent twins written by independent agents).
usage: twincheck.py [--dir /verif/twins] [glob]
Each *.diff is applied to a scratch copy of /repo's working tree; any non-zero exit of any check is reported
(exit 1 = false alarm, exit 2 = the analysis lost an anchor)."""
import fnmatch, json, os, shutil, subprocess, sys, tempfile
import concurrent.futures as cf
HERE = os.path.dirname(os.path.dirname(os.path.abspath(__file__)))
REPO = os.environ.get("VF_REPO", "/repo")


def claimed():
    return [c["property_id"] for c in json.load(open(os.path.join(HERE, "MANIFEST.json")))["checks"]]


def run(path, props):
    tmp = tempfile.mkdtemp(prefix="vf_twin_")
    try:
        for pkg in ("annet", "annet_generators"):
            shutil.copytree(os.path.join(REPO, pkg), os.path.join(tmp, pkg), ignore=shutil.ignore_patterns("__pycache__"))
        pr = subprocess.run(["git", "apply", "--unsafe-paths", "--directory", tmp, path], capture_output=True, text=True, cwd="/")
        if pr.returncode != 0:
            return path, None, (pr.stderr or pr.stdout)[:200]
        bad = []
        for p in props:
            env = dict(os.environ, VF_REPO=tmp, VF_EVIDENCE_DIR=os.path.join(tmp, "_ev"), VF_KEEP_VIOLATIONS="1")
            r = subprocess.run([os.path.join(HERE, "vf"), "check", p], cwd=HERE, env=env, capture_output=True, text=True)
            if r.returncode != 0:
                lines = [ln for ln in r.stdout.splitlines() if (" VIOLATED " in ln and "[known]" not in ln) or ln.startswith("ANALYSIS-ERROR")]
                bad.append((p, r.returncode, lines[:3]))
        return path, bad, ""
    finally:
        shutil.rmtree(tmp, ignore_errors=True)


def main():
    d = os.path.join(HERE, "twins")
    glob = "*"
    a = sys.argv[1:]
    i = 0
    while i < len(a):
        if a[i] == "--dir":
            d = os.path.abspath(a[i + 1]); i += 1
        else:
            glob = a[i]
        i += 1
    files = []
    for root, _, fns in os.walk(d):
        for fn in sorted(fns):
            if fn.endswith(".diff") and (fnmatch.fnmatch(fn, glob) or fnmatch.fnmatch(os.path.relpath(os.path.join(root, fn), d), glob)):
                files.append(os.path.join(root, fn))
    props = claimed()
    nbad = 0
    with cf.ThreadPoolExecutor(max_workers=8) as ex:
        for path, bad, err in ex.map(lambda f: run(f, props), files):
            name = os.path.relpath(path, d)
            if bad is None:
                print(f"{name}: DOES-NOT-APPLY {err}")
                nbad += 1
            elif bad:
                nbad += 1
                print(f"{name}: ALARM")
                for p, rc, lines in bad:
                    for ln in lines:
                        print(f"    [{p} rc={rc}] {ln[:260]}")
            else:
                print(f"{name}: silent")
    print(f"twincheck: {len(files) - nbad}/{len(files)} silent")
    return 0 if nbad == 0 else 1


if __name__ == "__main__":
    sys.exit(main())
