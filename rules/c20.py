"""C20 -- results are independent of processing history and inputs are left unmodified (structural clauses)."""
import ast

from sa.util import acl_scratch_write
import os

from sa import guards as G
from sa.effects import Effects
from sa.flow import GuardMap, Provenance
from sa.repo import AnchorError, Module, call_name, calls_in, dotted, norm, walk_no_nested, kwarg
from sa.report import VERIF
from sa.vendors import load_rule_texts, load_vendors
from rules.c18 import resolve_rulebook_function

PATCHING = "annet.annlib.patching"
COMMON = "annet.annlib.rulebook.common"
ENTRIES = [("annet.api", "_diff_and_patch"), (PATCHING, "make_diff"), (PATCHING, "make_pre"), (PATCHING, "make_patch"), (PATCHING, "Orderer.order_config"),
           (PATCHING, "apply_acl"), ("annet.api", "patch_from_pre"),
           # judged at their own boundary too: their `matches` argument is a fresh list *of* compiled ACL rules (the access-path analysis does not follow values through fresh containers)
           (PATCHING, "_select_match"), (PATCHING, "match_row_to_acl")]


def is_deepcopy(e):
    return isinstance(e, ast.Call) and (dotted(e.func) or "").split(".")[-1] == "deepcopy"


def registered_functions(repo):
    """{kind: [(name, module, funcdef)]} of every %logic / %diff_logic function plus compiler defaults and vendor diff() names"""
    out = {"logic": [], "diff_logic": []}
    seen = set()
    names = []
    for t in load_rule_texts(repo):
        for r in t.all_rows():
            for k in ("logic", "diff_logic"):
                if k in r.params:
                    names.append((k, r.params[k]))
    pm = repo.module("annet.rulebook.patching")
    for nm, kind in (("DEFAULT_PATCH_LOGIC", "logic"), ("ORDERED_PATCH_LOGIC", "logic"), ("REWRITE_PATCH_LOGIC", "logic"), ("REWRITE_DIFF_LOGIC", "diff_logic"),
                     ("MULTILINE_DIFF_LOGIC", "diff_logic")):
        v = pm.toplevel_assign(nm)
        if isinstance(v, ast.Constant):
            names.append((kind, v.value))
    for vn, ven in load_vendors(repo).items():
        for s in set(ven.diff.values()):
            names.append(("diff_logic", s))
    for kind, name in names:
        if (kind, name) in seen:
            continue
        seen.add((kind, name))
        r = resolve_rulebook_function(repo, name)
        if r:
            out[kind].append((name, r[0], r[2]))
    return out


def run(c):
    c.explanation = ("Shield analysis at the boundaries where annlib.patching hands references to registered (dynamic) logic functions, an inter-procedural may-mutate analysis "
                     "restricted to access paths rooted at parameters over the call-graph closure and every registered logic function, a hidden-state lint over that closure "
                     "(with a positive fixture), and purity / key-completeness of the caches.")
    c.decides = ("old/new reach rule matching and diff logics only as deep copies; the rule handed to a logic function and the match stored in diff items are deep copies of the "
                 "compiled rule; no other parameter-rooted write exists in the closure (one exempt scratch field); no mutable default / global / module-level or class-level "
                 "state in the closure; cached functions read only their arguments and their memo keys are complete")
    c.does_not_decide = "equality of results across histories (the rules are what makes it hold)"
    c.assumptions = ["may-mutate analysis follows access paths rooted at parameters (subscripts, attributes, element iteration, resolved callees); it does not follow values through "
                     "fresh containers or unknown library calls"]
    reg = registered_functions(c.repo)
    c.analysed["registered_logic"] = len(reg["logic"])
    c.analysed["registered_diff_logic"] = len(reg["diff_logic"])
    r1a(c, reg)
    r1b(c, reg)
    r2(c, reg)
    r3(c)
    r4(c, reg)
    r5(c)


def r1a(c, reg):
    repo = c.repo
    c.rule("C20.R1a", "shield sites: (1) in make_diff the old/new handed to apply_diff_rb and call_diff_logic are copy.deepcopy(<parameter>) values (a shallow copy shares the nested "
                      "children that rule matching pops from); (2) in make_patch the `rule` argument of the dynamic logic call is a copy.deepcopy of the compiled rule attrs; (3) in "
                      "_select_match the attrs stored in the returned match (kept in every diff item and written to by vendor post-processors) are a copy.deepcopy; any other dynamic "
                      "call site in annlib.patching / annlib.rulebook.common must be in this table")
    m = repo.module(PATCHING)
    # (1)
    fn = repo.func(PATCHING, "make_diff")
    c.count("functions", 3)
    pv = Provenance(fn)
    n = 0
    for callee, idxs in (("apply_diff_rb", (0, 1)), ("call_diff_logic", (1, 2))):
        calls = [x for x in calls_in(fn) if call_name(x).split(".")[-1] == callee]
        if len(calls) != 1:
            raise AnchorError(f"make_diff: call of {callee} not found")
        for i, pname in zip(idxs, ("old", "new")):
            n += 1
            a = calls[0].args[i] if i < len(calls[0].args) else None
            v = pv.resolve_alias(a) if a is not None else None
            ok = is_deepcopy(v) and v.args and pv.derives_from_param(v.args[0], pname, through_calls=False)
            c.check("C20.R1a", ok, repo.loc(m, calls[0]), f"make_diff/{callee}({pname})", f"{callee} receives `{norm(v)[:60] if v is not None else None}` for {pname}; it must be copy.deepcopy({pname}): "
                    "rule matching pops unknown rows at every depth and diff logics delete from sub-trees, so anything less than a deep copy modifies the caller's tree", key_text=f"shield-{pname}")
    # (2)
    mp = repo.func(PATCHING, "make_patch")
    pv2 = Provenance(mp)
    dyn = [x for x in calls_in(mp) if isinstance(pv2.resolve_alias(x.func), ast.Subscript)]
    if len(dyn) != 1:
        raise AnchorError("make_patch: dynamic logic call attrs['logic'](...) not found")
    rule_arg = kwarg(dyn[0], "rule", 0)
    v = pv2.resolve_alias(rule_arg) if rule_arg is not None else None
    ok = is_deepcopy(v) and "attrs" in norm(v)
    c.check("C20.R1a", ok, repo.loc(m, dyn[0]), "make_patch/logic(rule=)", f"the logic function receives rule=`{norm(v)[:70] if v is not None else None}`; it must be a copy.deepcopy of the compiled rule's attrs — "
            "registered logic functions write to their rule (default_instead_undo, huawei.bgp.undo_commit, cisco.misc.ssh_key), which would alter the shared, cached rulebook", key_text="shield-rule")
    # (3)
    sm = repo.func(PATCHING, "_select_match")
    pv3 = Provenance(sm)
    ok = False
    for n_ in walk_no_nested(sm):
        if isinstance(n_, ast.Dict):
            for k, val in zip(n_.keys, n_.values):
                if isinstance(k, ast.Constant) and k.value == "attrs":
                    vv = pv3.resolve_alias(val)
                    ok = is_deepcopy(vv) and "attrs" in norm(vv)
    c.check("C20.R1a", ok, repo.loc(m, sm), "_select_match/match.attrs", "the attrs placed into the returned match are not a copy.deepcopy of the governing rule's attrs: the match is stored in every diff "
            "item and written to by vendor code (juniper.comment_processor, strip_inactive_removed), which would alter the shared compiled rule", key_text="shield-match")
    # table of dynamic call sites
    table = {(PATCHING, "make_patch"), (COMMON, "call_diff_logic")}
    for modname in (PATCHING, COMMON):
        mm = repo.module(modname)
        for q, f in mm.defs.items():
            if not isinstance(f, ast.FunctionDef):
                continue
            for x in calls_in(f):
                if repo.enclosing_func(x) is not f:
                    continue
                p = Provenance(f)
                dynamic = isinstance(p.resolve_alias(x.func), ast.Subscript)
                if isinstance(x.func, ast.Name) and x.func.id not in ("super",):
                    ds = p.rd.defs(x.func)
                    if ds and all(d.kind in ("for", "unpack", "assign") for d in ds) and not repo.resolve_call(mm, x) and x.func.id not in mm.defs and x.func.id not in mm.imports \
                            and x.func.id not in dir(__builtins__) and not any(x.func.id == st.name for st in ast.walk(f) if isinstance(st, ast.FunctionDef)):
                        dynamic = True
                if dynamic:
                    from sa.util import inlined_into
                    ok = (modname, q) in table or inlined_into(repo, mm, q, table)
                    if ok:
                        c.holds("C20.R1a", repo.loc(mm, x), f"{q}/dynamic-call", f"`{norm(x.func)}` — escape point in the confirmed table")
                    else:
                        c.undecided("C20.R1a", repo.loc(mm, x), f"{q}/dynamic-call", f"new dynamic call `{norm(x)[:60]}` not in the confirmed escape-point table (read it and extend the table)")


def closure(repo, reg):
    """call-graph closure of the entry points plus every registered logic / diff-logic function"""
    todo = []
    for mn, q in ENTRIES:
        todo.append((repo.module(mn), q, repo.func(mn, q)))
    for kind in reg:
        for name, m, fn in reg[kind]:
            todo.append((m, fn.name, fn))
    seen = {}
    while todo:
        m, q, fn = todo.pop()
        if id(fn) in seen:
            continue
        seen[id(fn)] = (m, q, fn)
        for x in calls_in(fn):
            r = repo.resolve_call(m, x)
            if r and isinstance(r[2], ast.FunctionDef) and r[0].name.startswith("annet"):
                todo.append((r[0], r[1], r[2]))
    return list(seen.values())


def r1b(c, reg):
    repo = c.repo
    c.rule("C20.R1b", "effect table: in the call-graph closure of the entry points and over every registered logic function, every write rooted at a parameter is one of: rule "
                      "matching / diff logics on the deep copies (apply_diff_rb, _ignore_case, registered diff logics on old/new/diff_pre), registered logic functions on their "
                      "private rule copy and on the bucket dict of their key, builders on their own fresh objects (self), and the one exempt scratch write "
                      "_find_acl_matches: rule['attrs']['match']; any other parameter-rooted write is reported")
    logic_fns = {id(fn): name for name, m, fn in reg["logic"]}
    dlogic_fns = {id(fn): name for name, m, fn in reg["diff_logic"]}

    pvs = {}

    def dynamic(mod, call, fn=None):
        # attrs["logic"](rule=..., diff=...)  /  logic(old=..., new=...)
        cf = call.func
        if fn is not None and isinstance(cf, ast.Name):
            if id(fn) not in pvs:
                pvs[id(fn)] = Provenance(fn)
            cf = pvs[id(fn)].resolve_alias(cf)
        if isinstance(cf, ast.Subscript) and "logic" in norm(cf):
            return [(m, fn.name, fn) for name, m, fn in reg["logic"]]
        if isinstance(call.func, ast.Name) and call.func.id == "logic" and any(k.arg == "diff_pre" for k in call.keywords):
            return [(m, fn.name, fn) for name, m, fn in reg["diff_logic"]]
        return None
    eff = Effects(repo, mode="paths", dynamic=dynamic, max_depth=6)
    cl = closure(repo, reg)
    c.analysed["closure_functions"] = len(cl)
    if len(cl) < 60:
        raise AnchorError(f"C20.R1b: closure has only {len(cl)} functions (expected >= 60)")
    allowed = {
        (PATCHING, "apply_diff_rb", "old"): "pops unknown rows from the deep copy made by make_diff (R1a)",
        (PATCHING, "apply_diff_rb", "new"): "pops unknown rows from the deep copy made by make_diff (R1a)",
        (PATCHING, "_find_acl_matches", "rules"): "exempt scratch field rule['attrs']['match'] of the compiled ACL (the property exempts it)",
        (COMMON, "_ignore_case", "diff_pre"): "diff_pre is the per-call structure built by apply_diff_rb",
    }
    n = 0
    # (a) entry points: which of their parameters end up written, and by which primitive write
    reg_ids = set(logic_fns) | set(dlogic_fns)
    logic_names = {fn.name for _n, _m, fn in reg["logic"]}
    for (mn, q) in ENTRIES:
        m = repo.module(mn)
        fn = repo.func(mn, q)
        mut = eff.mutated_params(m, q, fn)
        for p, sites in sorted(mut.items()):
            if p in ("self", "cls"):
                continue
            seen_roots = set()
            for s_ in sites:
                rk = (s_.root[0], s_.root[1], s_.root[2])
                wtxt = norm(s_.root[3].targets[0])[:60] if isinstance(s_.root[3], ast.Assign) else type(s_.root[3]).__name__
                if (rk, wtxt) in seen_roots:
                    continue
                seen_roots.add((rk, wtxt))
                n += 1
                rmod, rq, rp = rk
                at = f"{repo.module(rmod).rel}:{getattr(s_.root[3], 'lineno', 0)}"
                construct = f"{q}({p}) <- {rmod.split('.')[-1]}:{rq}({rp})"
                rdef = repo.module(rmod).defs.get(rq)
                if (rmod, rq, rp) in allowed and rq == "_find_acl_matches":
                    # only the one scratch field the property exempts: <rule>['attrs']['match'] = ...
                    wn = s_.root[3]
                    only_match = acl_scratch_write(repo, wn)
                    tgt = wn.targets[0] if isinstance(wn, ast.Assign) else None
                    if only_match:
                        c.holds("C20.R1b", at, construct, f"allowed: {allowed[(rmod, rq, rp)]}")
                    else:
                        c.violated("C20.R1b", at, construct, f"`{norm(wn)[:70]}` writes another field of the shared compiled ACL rule (only the scratch field ['attrs']['match'] is exempt): "
                                   "what is stored there survives into every later use of the same ACL object, so results depend on which rows were seen before",
                                   key_text=f"acl-scratch:{norm(tgt)[:40] if tgt is not None else norm(wn)[:40]}")
                elif p == "pre" and (rmod.startswith("annet.rulebook.") or (rdef is not None and id(rdef) in reg_ids) or any(v in logic_names for v in s_.via)):
                    c.holds("C20.R1b", at, construct, "registered logic writes into the bucket dict of the pre it was handed (ownership: C16.R3)")
                else:
                    c.violated("C20.R1b", at, construct, f"`{q}` lets a write reach its parameter `{p}` ({s_.how[:140]}): the caller's tree, a compiled rulebook/ACL or another shared "
                               "object is modified, so later computations in the same process see different inputs", key_text=f"write:{q}:{p}:{rq}")
    # (b) vendor logic code is judged at its boundary: which parameters of each registered function end up written (directly or through helpers)
    for kind, okparams in (("logic", (0, 2)), ("diff_logic", None)):
        for name, m, fn in reg[kind]:
            mut = eff.mutated_params(m, fn.name, fn)
            params = [a.arg for a in fn.args.args]
            for p, sites in sorted(mut.items()):
                n += 1
                if kind == "logic":
                    ok = p in params and params.index(p) in okparams
                    why = "private rule copy / bucket dict of its key"
                else:
                    ok = p in ("old", "new", "diff_pre")
                    why = "deep copies made by make_diff / per-call diff_pre"
                s0 = sites[0]
                c.check("C20.R1b", ok, s0.at(), f"%{kind}={name}({p})", f"registered {kind} function `{name}` writes into `{p}` ({s0.how[:110]}): only "
                        f"{'rule and diff' if kind == 'logic' else 'old, new and diff_pre'} are shielded by the caller — hw, key, rule_pre/root_pre and _pops are shared",
                        key_text=f"logic-write:{p}", detail=why)
    c.floor("C20.R1b", "parameter-rooted primitive writes", n, 8)
    wr = [name for name, m, fn in reg["logic"] if "rule" in eff.mutated_params(m, fn.name, fn) or (fn.args.args and fn.args.args[0].arg in eff.mutated_params(m, fn.name, fn))]
    c.analysed["logic_functions_writing_rule"] = sorted(wr)


def hidden_state_sites(mod_tree, funcs, module_names):
    """(node, what) for mutable defaults, global writes, module-level container writes, class attribute writes"""
    out = []
    for fn in funcs:
        a = fn.args
        for d in list(a.defaults) + [x for x in a.kw_defaults if x is not None]:
            if isinstance(d, (ast.List, ast.Dict, ast.Set)) or (isinstance(d, ast.Call) and call_name(d) in ("list", "dict", "set", "odict", "OrderedDict", "defaultdict")):
                out.append((d, f"mutable default argument in {fn.name}"))
        local = {x.arg for x in a.args + a.kwonlyargs} | ({a.vararg.arg} if a.vararg else set()) | ({a.kwarg.arg} if a.kwarg else set())
        globs = set()
        for n in walk_no_nested(fn):
            if isinstance(n, ast.Global):
                globs |= set(n.names)
            if isinstance(n, ast.Name) and isinstance(n.ctx, ast.Store):
                local.add(n.id)
        for n in walk_no_nested(fn):
            if isinstance(n, ast.Global):
                out.append((n, f"`global {', '.join(n.names)}` in {fn.name}"))
            tgt = None
            if isinstance(n, (ast.Assign, ast.AugAssign)):
                for t in (n.targets if isinstance(n, ast.Assign) else [n.target]):
                    if isinstance(t, (ast.Subscript, ast.Attribute)):
                        b = t
                        while isinstance(b, (ast.Subscript, ast.Attribute)):
                            b = b.value
                        if isinstance(b, ast.Name) and (b.id not in local or b.id in globs) and b.id in module_names:
                            out.append((n, f"write to module-level `{b.id}` in {fn.name}"))
                        if isinstance(b, ast.Name) and b.id[:1].isupper() and b.id in module_names and isinstance(t, (ast.Attribute, ast.Subscript)):
                            pass
                        if isinstance(b, ast.Call) and call_name(b) == "type" and isinstance(t, ast.Attribute):
                            out.append((n, f"write to a class attribute via type(self) in {fn.name}"))
            if isinstance(n, ast.Call) and isinstance(n.func, ast.Attribute) and n.func.attr in ("append", "extend", "update", "add", "pop", "clear", "setdefault", "insert", "remove", "popitem"):
                b = n.func.value
                while isinstance(b, (ast.Subscript, ast.Attribute)):
                    b = b.value
                if isinstance(b, ast.Name) and b.id not in local and b.id in module_names:
                    out.append((n, f"`{norm(n)[:50]}` mutates module-level `{b.id}` in {fn.name}"))
    # class-level mutable attributes written through self / cls: one object shared by every instance (and every provider the connector hands out)
    fset = {id(f) for f in funcs}
    for cls in [n for n in ast.walk(mod_tree) if isinstance(n, ast.ClassDef)]:
        shared = set()
        for st in cls.body:
            v = getattr(st, "value", None)
            tg = st.targets if isinstance(st, ast.Assign) else ([st.target] if isinstance(st, ast.AnnAssign) else [])
            if v is not None and (isinstance(v, (ast.Dict, ast.List, ast.Set)) or (isinstance(v, ast.Call) and call_name(v).split(".")[-1] in ("dict", "list", "set", "odict", "OrderedDict", "defaultdict"))):
                shared |= {t.id for t in tg if isinstance(t, ast.Name)}
        if not shared:
            continue
        own = {norm(t)[5:] for f in cls.body if isinstance(f, ast.FunctionDef) for st in ast.walk(f) if isinstance(st, (ast.Assign, ast.AnnAssign))
               for t in (st.targets if isinstance(st, ast.Assign) else [st.target]) if isinstance(t, ast.Attribute) and norm(t).startswith("self.")}
        for f in cls.body:
            if not isinstance(f, ast.FunctionDef) or id(f) not in fset:
                continue
            for n in walk_no_nested(f):
                t = None
                if isinstance(n, (ast.Assign, ast.AugAssign)):
                    for t_ in (n.targets if isinstance(n, ast.Assign) else [n.target]):
                        if isinstance(t_, ast.Subscript):
                            t = t_.value
                elif isinstance(n, ast.Call) and isinstance(n.func, ast.Attribute) and n.func.attr in ("append", "extend", "update", "add", "pop", "clear", "setdefault", "insert", "remove", "popitem"):
                    t = n.func.value
                # chained assignment `x = self.A[k] = v`
                if t is not None and isinstance(t, ast.Attribute) and isinstance(t.value, ast.Name) and t.value.id in ("self", "cls") and t.attr in shared and t.attr not in own:
                    out.append((n, f"write to the class-level container `{cls.name}.{t.attr}` in {f.name}"))
    return out


def module_level_names(tree):
    names = set()
    for st in tree.body:
        if isinstance(st, ast.Assign):
            for t in st.targets:
                if isinstance(t, ast.Name):
                    names.add(t.id)
        elif isinstance(st, ast.AnnAssign) and isinstance(st.target, ast.Name):
            names.add(st.target.id)
        elif isinstance(st, ast.ClassDef):
            names.add(st.name)
    return names


def r2(c, reg):
    repo = c.repo
    c.rule("C20.R2", "no hidden state in the closure: no mutable default argument, no `global` write, no write to module-level containers or class attributes in any function of "
                     "the call-graph closure of the entry points and the registered logic functions (expected count 0; a positive fixture under /verif/fixtures proves the matcher alive)")
    # fixture
    fx = os.path.join(VERIF, "fixtures", "c20_hidden_state.py")
    with open(fx, encoding="utf-8") as f:
        ftree = ast.parse(f.read())
    for n in ast.walk(ftree):
        for ch in ast.iter_child_nodes(n):
            ch._parent = n
    ffuncs = [n for n in ast.walk(ftree) if isinstance(n, ast.FunctionDef)]
    fs = hidden_state_sites(ftree, ffuncs, module_level_names(ftree))
    if len(fs) < 5:
        raise AnchorError(f"C20.R2: positive fixture matched only {len(fs)} constructs (matcher dead)")
    c.analysed["fixture_matches"] = len(fs)
    cl = closure(repo, reg)
    by_mod = {}
    for m, q, fn in cl:
        by_mod.setdefault(m.name, (m, []))[1].append(fn)
    found = 0
    for mn, (m, funcs) in sorted(by_mod.items()):
        sites = hidden_state_sites(m.tree, funcs, module_level_names(m.tree))
        for node, what in sites:
            found += 1
            c.violated("C20.R2", repo.loc(m, node), f"{mn.split('.')[-1]}:{what}", f"{what}: state that survives from one device/job to the next in a pool worker", key_text=what)
        c.holds("C20.R2", m.rel, f"{mn}", f"{len(funcs)} closure functions, no hidden state") if not sites else None
    c.analysed["closure_modules"] = len(by_mod)


def r3(c):
    repo = c.repo
    c.rule("C20.R3", "caches are pure and their keys complete: every functools-cached function of the rule compilers (compile_row_regexp, compile_*_text, both _make_reverse, "
                     "import_rulebook_function, parse_hw_model, _simplify_text) uses functools' cache (keyed on all arguments) and contains no global/nonlocal writes; any hand-written "
                     "memo (module-level dict indexed inside a function of these modules) is keyed by an expression deriving from all parameters of the function; the provider's "
                     "render cache is keyed by (name, hw)")
    mods = ["annet.annlib.rbparser.syntax", "annet.annlib.rbparser.acl", "annet.annlib.rbparser.ordering", "annet.annlib.rbparser.deploying", "annet.rulebook.patching",
            "annet.rulebook.deploying", "annet.rulebook.common", "annet.annlib.netdev.devdb", "annet.rulebook", "annet.annlib.patching", "annet.annlib.rulebook.common"]
    n_cached = 0
    for mn in mods:
        m = repo.module(mn)
        mod_names = module_level_names(m.tree)
        for q, fn in m.defs.items():
            if not isinstance(fn, ast.FunctionDef):
                continue
            decos = [norm(d) for d in fn.decorator_list]
            cached = any("lru_cache" in d or d.endswith("functools.cache") or d == "cache" for d in decos)
            if cached:
                n_cached += 1
                bad = [n for n in walk_no_nested(fn) if isinstance(n, (ast.Global, ast.Nonlocal))]
                kwonly_unhashable = False
                c.check("C20.R3", not bad, repo.loc(m, fn), f"{mn.split('.')[-1]}:{q}/cached-pure", "a cached function writes global state", key_text="cached-global")
            # hand-written memos
            params = [a.arg for a in fn.args.args if a.arg not in ("self", "cls")]
            pv = None
            # a memo is recognised by what it is, not by its name: a module-level mapping created empty that this function both fills and reads
            empties = set()
            for st_ in m.tree.body:
                if isinstance(st_, (ast.Assign, ast.AnnAssign)) and getattr(st_, "value", None) is not None:
                    v_ = st_.value
                    if (isinstance(v_, ast.Dict) and not v_.keys) or (isinstance(v_, ast.Call) and call_name(v_).split(".")[-1] in ("dict", "odict", "OrderedDict", "defaultdict", "WeakValueDictionary")
                                                                      and not [a_ for a_ in v_.args if not isinstance(a_, (ast.Name, ast.Lambda))]):
                        for t_ in (st_.targets if isinstance(st_, ast.Assign) else [st_.target]):
                            if isinstance(t_, ast.Name):
                                empties.add(t_.id)
            filled = {x.value.id for x in walk_no_nested(fn) if isinstance(x, ast.Subscript) and isinstance(x.ctx, ast.Store) and isinstance(x.value, ast.Name)} | \
                {x.func.value.id for x in walk_no_nested(fn) if isinstance(x, ast.Call) and isinstance(x.func, ast.Attribute) and x.func.attr == "setdefault" and isinstance(x.func.value, ast.Name)}
            memos = {nm for nm in empties & filled if nm in mod_names}
            for n in walk_no_nested(fn):
                key = None
                if isinstance(n, ast.Subscript) and isinstance(n.value, ast.Name) and n.value.id in memos:
                    key = n.slice
                elif isinstance(n, ast.Call) and isinstance(n.func, ast.Attribute) and isinstance(n.func.value, ast.Name) and n.func.value.id in memos \
                        and n.func.attr in ("get", "setdefault") and n.args:
                    key = n.args[0]
                if key is None or not params:
                    continue
                pv = pv or Provenance(fn)
                names = {nn.arg for kk, nn in pv.origins(key, through_calls=True) if kk == "param"}
                miss = sorted(set(params) - names)
                c.check("C20.R3", not miss, repo.loc(m, n), f"{mn.split('.')[-1]}:{q}/memo-key", f"memo `{norm(n)[:50]}` is keyed without {miss}: a second call with other values of those "
                        "arguments returns the first call's result (history dependence)", key_text="memo-key")
    c.floor("C20.R3", "functools-cached functions", n_cached, 8)
    # provider caches (same facts as C18.R6)
    m = repo.module("annet.rulebook")
    fn = repo.func("annet.rulebook", "DefaultRulebookProvider._render_rul")
    pv = Provenance(fn)
    params = [a.arg for a in fn.args.args if a.arg != "self"]
    keys = [n_ for n_ in walk_no_nested(fn) if isinstance(n_, ast.Subscript) and "_render_rul_cache" in norm(n_.value)]
    if not keys:
        raise AnchorError("_render_rul: cache subscript not found")
    e = pv.resolve_alias(keys[0].slice)
    elts = [norm(x) for x in e.elts] if isinstance(e, ast.Tuple) else [norm(e)]
    c.check("C20.R3", all(p in elts for p in params), repo.loc(m, keys[0]), "_render_rul/cache-key", f"render cache key ({', '.join(elts)}) does not contain each of {params}: a second hardware family "
            "of the same vendor gets the text rendered for the first one", key_text="render-key")
    # instance caches live on the provider object, not at class level
    cls = repo.cls("annet.rulebook", "DefaultRulebookProvider")
    class_level = [st for st in cls.body if isinstance(st, ast.Assign) and any("cache" in norm(t) for t in st.targets)]
    c.check("C20.R3", not class_level, repo.loc(m, class_level[0] if class_level else cls), "DefaultRulebookProvider/cache-per-instance", "rulebook caches are class attributes shared by every provider instance", key_text="class-cache")


def r4(c, reg):
    repo = c.repo
    c.rule("C20.R4", "value helpers stay pure in depth: the annlib.lib functions reached from the closure (merge_dicts: called by _select_match on the cached compiled rules, by the "
                     "generators on result trees) do not mutate anything their arguments contain — checked with the field-insensitive may-mutate analysis (values stored into a "
                     "fresh container still alias the argument they came from; `merged[key] = value` followed by `merged[key].extend(...)` writes into the argument's own list)")
    LIBM = "annet.annlib.lib"
    lm = repo.module(LIBM)
    eff = Effects(repo, mode="contents", max_depth=4)
    cl = closure(repo, reg)
    libfns = sorted({(q, id(fn)) for (m, q, fn) in cl if m.name == LIBM and isinstance(fn, ast.FunctionDef)})
    names = [q for q, _ in libfns]
    if "merge_dicts" not in names:
        raise AnchorError("C20.R4: merge_dicts is not in the closure of the entry points")
    c.analysed["lib_helpers_in_closure"] = names
    for q in names:
        fn = repo.func(LIBM, q)
        c.count("functions")
        mut = eff.mutated_params(lm, q, fn)
        mut = {p: v for p, v in mut.items() if p not in ("self", "cls")}
        if mut:
            p, sites = sorted(mut.items())[0]
            st = sites[0]
            c.violated("C20.R4", st.at(), f"lib.{q}({p})", f"{st.how[:80]} may write into an object reachable from `{p}`: a caller passing shared, cached structures (compiled rules) gets them "
                       "changed for every later use in the process", key_text=f"mutates:{p}")
        else:
            c.holds("C20.R4", repo.loc(lm, fn), f"lib.{q}", "no write reaches anything the arguments contain")


def r5(c):
    from sa.cachealias import CachedMutables
    repo = c.repo
    c.rule("C20.R5", "what a memoised compiler/parser of the rule languages returns (rbparser.*, rulebook.*: compile_*_text and any further lru_cache'd function there) is shared "
                     "by every later caller: no mutation site receives such a value, and it is not handed (directly or inside a list/dict literal) to a function that may mutate "
                     "the corresponding parameter — except the one exempt scratch write rule['attrs']['match'] of ACL matching")
    mods = sorted(n for n in repo.modules if n.startswith(("annet.annlib.rbparser", "annet.rulebook", "annet.annlib.rulebook")))
    cm = CachedMutables(repo, mods)
    c.analysed["memoised_sources"] = sorted(v[1] for v in cm.sources.values())
    c.floor("C20.R5", "memoised sources returning mutable structures", len(cm.sources), 4)
    eff = Effects(repo, mode="contents", max_depth=5)
    n = 0
    for m, q, node, src in cm.sinks():
        n += 1
        c.violated("C20.R5", repo.loc(m, node), f"{m.name.split('.', 1)[-1]}:{q}", f"`{norm(node)[:70]}` mutates a value that may be the memoised result of {src}", key_text=f"mutates:{src}")

    def exempt(site):
        wn = site.root[3]
        return acl_scratch_write(repo, wn)
    seen = set()
    for m, q, call, src, callee, sites in cm.arg_sinks(eff):
        real = [s_ for s_ in sites if not exempt(s_)]
        key = (m.name, q, callee, src)
        if key in seen:
            continue
        seen.add(key)
        n += 1
        if real:
            s0 = real[0]
            c.violated("C20.R5", repo.loc(m, call), f"{m.name.split('.', 1)[-1]}:{q}->{callee}", f"`{norm(call)[:60]}` hands the memoised result of {src} to {callee}, which may mutate it "
                       f"({s0.how[:80]} at {s0.at()}): every later caller of {src} with the same arguments gets the altered structure", key_text=f"arg-mutated:{src}:{callee}")
        else:
            c.holds("C20.R5", repo.loc(m, call), f"{m.name.split('.', 1)[-1]}:{q}->{callee}", f"{src} result only receives the exempt scratch write")
    c.analysed["memoised_result_flows"] = n
