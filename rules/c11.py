"""C11 -- VLAN-list commands change exactly the VLANs that differ (structural clauses)."""
import ast

from sa import guards as G
from sa.flow import GuardMap, Provenance
from sa.repo import AnchorError, call_name, calls_in, dotted, norm, walk_no_nested, kwarg
from sa.util import op_const

MODS = {"huawei": "annet.rulebook.huawei.vlandb", "cisco": "annet.rulebook.cisco.vlandb"}


def run(c):
    c.explanation = ("Set-difference provenance of the VLAN sets handed to the collapse helper for removal/addition commands, a contradiction rule for whole-key reset "
                     "commands (must consult the rows that stay), accumulation shape of the multi-line `vlan batch` set, and expand/collapse helper pairing per vendor.")
    c.decides = ("removal commands derive from old − new and additions from new − old (old/new parsed from the REMOVED/ADDED rows); a whole-key reset consults the UNCHANGED "
                 "bucket; the `vlan batch` id set accumulates over all lines; each module pairs the expand and collapse helpers of one vendor")
    c.does_not_decide = "simulate(cmds, S_old) == S_new and expand(collapse(S)) == S on all sets"
    r1(c)
    r1_more(c)
    r2(c)
    r3(c)
    r4(c)
    r5(c)
    r6(c)


def _bucket_of(pv, e):
    """which diff bucket a parsed set derives from: returns set of op names"""
    out = set()
    for call in pv.origin_calls(e, through_calls=True):
        if call_name(call) == "_parse_vlancfg_actions" and call.args:
            for a in ast.walk(call.args[0]):
                if isinstance(a, ast.Subscript) and op_const(a.slice):
                    out.add(op_const(a.slice))
    return out


def _diff_chain(pv, e, depth=0):
    """A.difference(B) - C  ->  (A, [B, C]); names are followed through their single definitions"""
    v = pv.resolve_alias(e) if depth < 6 else e
    if isinstance(v, ast.Call) and isinstance(v.func, ast.Attribute) and v.func.attr == "difference" and v.args:
        base, subs = _diff_chain(pv, v.func.value, depth + 1)
        return base, subs + list(v.args)
    if isinstance(v, ast.BinOp) and isinstance(v.op, ast.Sub):
        base, subs = _diff_chain(pv, v.left, depth + 1)
        return base, subs + [v.right]
    return e, []


def r1(c):
    repo = c.repo
    c.rule("C11.R1", "in huawei.vlandb._process_vlandb and cisco.vlandb._process_vlandb the set handed to collapse_vlandb for a removal command is old.difference(new) "
                     "(old parsed from the REMOVED rows, new from the ADDED rows) and for an addition command new.difference(old); no removal command is built from old alone; further "
                     "subtrahends are only ids of rows that stay (UNCHANGED/AFFECTED), and where one id can be written by two rows of a key (cisco vlan blocks restate the ids of "
                     "the range line) the removal set must subtract the ids of the UNCHANGED rows")
    restating = {}
    for vendor, modname in MODS.items():
        pa = repo.module(modname).defs.get("_parse_vlancfg_actions")
        if isinstance(pa, ast.FunctionDef) and any(isinstance(x, ast.Subscript) and isinstance(x.slice, ast.Constant) and x.slice.value == "children" for x in ast.walk(pa)):
            restating[vendor] = "_parse_vlancfg_actions tells block rows `vlan N` + children from list rows; NX-OS prints N in both"
    for vendor, modname in MODS.items():
        m = repo.module(modname)
        fn = repo.func(modname, "_process_vlandb")
        c.count("functions")
        pv = Provenance(fn)
        gm = GuardMap(fn)
        cols = [x for x in calls_in(fn) if call_name(x) == "collapse_vlandb" and x.args]
        # a same-module helper that collapses one of its parameters carries the obligation to its call sites
        carriers = {}
        carrier_flag = {}
        for node in m.tree.body:
            if isinstance(node, ast.FunctionDef) and node.name != fn.name:
                ps = [a.arg for a in node.args.args]
                hpv = Provenance(node)
                for x in calls_in(node):
                    if call_name(x) == "collapse_vlandb" and x.args:
                        src0 = hpv.resolve_alias(x.args[0])
                        if isinstance(src0, ast.Name) and src0.id in ps:
                            carriers[node.name] = ps.index(src0.id)
                            # the direct/removal flag of the commands the helper builds: a constant, or one of its parameters
                            for t in ast.walk(node):
                                if isinstance(t, ast.Tuple) and len(t.elts) == 3 and isinstance(getattr(t, "_parent", None), (ast.Yield, ast.Call, ast.ListComp, ast.GeneratorExp, ast.Return)):
                                    f0 = t.elts[0]
                                    if isinstance(f0, ast.Constant) and isinstance(f0.value, bool):
                                        carrier_flag[node.name] = f0.value
                                    elif isinstance(f0, ast.Name) and f0.id in ps:
                                        carrier_flag[node.name] = ("param", ps.index(f0.id))
        via = {}
        via_flag = {}
        for x in calls_in(fn):
            if call_name(x) in carriers and len(x.args) > carriers[call_name(x)]:
                cols.append(x)
                via[id(x)] = x.args[carriers[call_name(x)]]
                fl = carrier_flag.get(call_name(x))
                if isinstance(fl, tuple) and len(x.args) > fl[1] and isinstance(x.args[fl[1]], ast.Constant):
                    fl = x.args[fl[1]].value
                if isinstance(fl, bool):
                    via_flag[id(x)] = fl
        c.floor("C11.R1", f"{vendor} collapse calls", len(cols), 2)
        for col in cols:
            # is this the removal or the addition arm?  look at the yields fed by it
            arm = None
            holder = gm.stmt(col)
            blk = holder._parent
            flags = set()
            for y in walk_no_nested(blk):
                if isinstance(y, ast.Yield) and isinstance(y.value, ast.Tuple) and y.value.elts and isinstance(y.value.elts[0], ast.Constant):
                    flags.add(y.value.elts[0].value)
            if id(col) in via_flag:
                flags = {via_flag[id(col)]}
            if flags == {False}:
                arm = "removal"
            elif flags == {True}:
                arm = "addition"
            else:
                raise AnchorError(f"{vendor}._process_vlandb: cannot tell whether `{norm(col)}` feeds removals or additions")
            arg0 = via.get(id(col), col.args[0])
            src = pv.resolve_alias(arg0)
            shape = None
            if isinstance(src, ast.Call) and isinstance(src.func, ast.Attribute) and src.func.attr == "difference" and len(src.args) == 1:
                shape = (src.func.value, src.args[0])
            elif isinstance(src, ast.BinOp) and isinstance(src.op, ast.Sub):
                shape = (src.left, src.right)
            elif isinstance(arg0, ast.Name):
                # `added -= ...` refinements keep the difference as one of the reaching definitions; every other definition must only shrink the set
                widened = None
                for d in pv.rd.defs(arg0):
                    v = d.value
                    if d.kind == "assign" and isinstance(v, ast.Call) and isinstance(v.func, ast.Attribute) and v.func.attr == "difference":
                        shape = (v.func.value, v.args[0])
                    elif d.kind == "assign" and isinstance(v, ast.BinOp) and isinstance(v.op, ast.Sub) and not (isinstance(v.left, ast.Name) and v.left.id == arg0.id):
                        shape = (v.left, v.right)
                    elif d.kind == "aug" and isinstance(d.stmt, ast.AugAssign) and isinstance(d.stmt.op, (ast.Sub, ast.BitAnd)):
                        pass
                    elif d.kind == "assign" and isinstance(v, ast.BinOp) and isinstance(v.op, (ast.Sub, ast.BitAnd)) and isinstance(v.left, ast.Name) and v.left.id == arg0.id:
                        pass
                    elif d.kind == "mut" and isinstance(v, ast.Call) and isinstance(v.func, ast.Attribute) and v.func.attr in ("difference_update", "intersection_update", "discard", "remove"):
                        pass
                    else:
                        widened = d
                if widened is not None and shape is not None:
                    wv = widened.value if widened.value is not None else widened.stmt
                    c.violated("C11.R1", repo.loc(m, widened.stmt or col), f"{vendor}._process_vlandb/{arm}", f"the set listed by the {arm} command is redefined by `{norm(wv)[:70]}` after the "
                               f"set difference: it may hold VLANs outside {'old − new' if arm == 'removal' else 'new − old'} (ids present in both sets, or in lines that do not change, "
                               f"would be {'removed' if arm == 'removal' else 're-added'})", key_text=f"{arm}-widened")
                    continue
            if shape is None:
                c.violated("C11.R1", repo.loc(m, col), f"{vendor}._process_vlandb/{arm}", f"the {arm} command lists `{norm(src)[:60]}`, which is not a set difference of the old and new VLAN sets", key_text=f"{arm}-not-difference")
                continue
            # both operands are the parsed sets as parsed: a set narrowed before the difference (new -= ...) silently enlarges the other side's result
            altered = None
            for opnd in shape:
                if isinstance(opnd, ast.Name):
                    for d in pv.rd.defs(opnd):
                        if d.kind in ("aug", "mut") or (d.kind == "assign" and not isinstance(d.value, ast.Call)):
                            altered = (opnd, d)
            if altered is not None:
                d = altered[1]
                c.violated("C11.R1", repo.loc(m, d.stmt or col), f"{vendor}._process_vlandb/{arm}", f"`{altered[0].id}` is altered (`{norm(d.stmt)[:50] if d.stmt is not None else ''}`) before the "
                           f"set difference is taken: ids dropped from it count as {'removed' if arm == 'removal' else 'added'} although they are in both sets", key_text=f"{arm}-operand-altered")
                continue
            base0, subs0 = _diff_chain(pv, shape[0])
            base, subs = base0, subs0 + [shape[1]]
            left = _bucket_of(pv, base)
            rights = [_bucket_of(pv, x) for x in subs]
            want = ({"REMOVED"}, {"ADDED"}) if arm == "removal" else ({"ADDED"}, {"REMOVED"})
            STAY = {"UNCHANGED", "AFFECTED"}
            # the other side is subtracted; further subtrahends may only be ids of rows that stay (they are in both sets by definition)
            ok = left == want[0] and any(r == want[1] for r in rights) and all(r == want[1] or (r and r <= STAY) for r in rights)
            c.check("C11.R1", ok, repo.loc(m, col), f"{vendor}._process_vlandb/{arm}",
                    f"the {arm} command lists (rows of {sorted(left)}) − " + " − ".join(f"(rows of {sorted(r)})" for r in rights) + f"; expected {sorted(want[0])} − {sorted(want[1])} "
                    f"[− rows that stay]: VLANs present in both sets would be {'removed' if arm == 'removal' else 're-added'}", key_text=f"{arm}-difference")
            if arm == "removal" and restating.get(vendor):
                c.check("C11.R1", any(r and r <= STAY and "UNCHANGED" in r for r in rights), repo.loc(m, col), f"{vendor}._process_vlandb/removal-keeps-staying-rows",
                        f"in this module one VLAN id can be written by two rows of the same key ({restating[vendor]}), yet the removal set is built from the REMOVED rows without "
                        "subtracting the ids of the rows that stay (UNCHANGED): when only one of the two rows goes away (`vlan 10 / name x` dropped while `vlan 1,10,20` stays) the "
                        "VLAN is deleted although it is in both sets", key_text="removal-ignores-unchanged")


def r1_more(c):
    """two further necessary conditions of 'exactly the VLANs that differ', on the helper that parses rows and on the branch that re-enters a block"""
    repo = c.repo
    for vendor, modname in MODS.items():
        m = repo.module(modname)
        pa = repo.func(modname, "_parse_vlancfg_actions")
        pv = Provenance(pa)
        rets = [n for n in walk_no_nested(pa) if isinstance(n, ast.Return) and n.value is not None]
        narrowed = None
        for r in rets:
            elts = r.value.elts if isinstance(r.value, ast.Tuple) else [r.value]
            for e in elts:
                v = pv.resolve_alias(e)
                if (isinstance(v, ast.BinOp) and isinstance(v.op, (ast.Sub, ast.BitAnd))) or \
                        (isinstance(v, ast.Call) and isinstance(v.func, ast.Attribute) and v.func.attr in ("difference", "intersection")) or \
                        (isinstance(v, (ast.SetComp, ast.ListComp, ast.GeneratorExp)) and any(g.ifs for g in v.generators)):
                    narrowed = (r, v)
        c.check("C11.R1", narrowed is None, repo.loc(m, narrowed[0] if narrowed else pa), f"{vendor}._parse_vlancfg_actions/returns-what-the-rows-list",
                f"the parsed set is narrowed before it is returned (`{norm(narrowed[1])[:60] if narrowed else ''}`): ids dropped here are invisible to the difference — a VLAN of that kind "
                "present in one set only is neither added nor removed", key_text="parser-narrows")
        fn = repo.func(modname, "_process_vlandb")
        pvf = Provenance(fn)
        gm = GuardMap(fn)
        for y in walk_no_nested(fn):
            if not (isinstance(y, ast.Yield) and isinstance(y.value, ast.Tuple) and len(y.value.elts) == 3):
                continue
            third = pvf.resolve_alias(y.value.elts[2])
            flag = y.value.elts[0]
            if not (isinstance(third, ast.Subscript) and isinstance(flag, ast.Constant) and flag.value is True):
                continue
            # re-entering a block of the REMOVED side (to take its options away): its children come from the REMOVED rows
            if "REMOVED" not in _bucket_of(pvf, third.value):
                continue
            loops = [l for l in gm.in_loop(y) if isinstance(l, ast.For)]
            ok = False
            if loops:
                it = pvf.resolve_alias(loops[-1].iter)
                parts = []

                def conj(e):
                    e = pvf.resolve_alias(e)
                    if isinstance(e, ast.BinOp) and isinstance(e.op, ast.BitAnd):
                        conj(e.left)
                        conj(e.right)
                    elif isinstance(e, ast.Call) and isinstance(e.func, ast.Attribute) and e.func.attr == "intersection" and e.args:
                        conj(e.func.value)
                        for a in e.args:
                            conj(a)
                    elif isinstance(e, ast.Call) and call_name(e) in ("sorted", "list", "set", "tuple", "frozenset") and e.args:
                        conj(e.args[0])
                    else:
                        parts.append(e)
                conj(it)

                def pos_bucket(e):
                    """buckets the ids of `e` can come from: the subtrahend of a difference contributes nothing"""
                    e = pvf.resolve_alias(e)
                    if isinstance(e, ast.BinOp) and isinstance(e.op, ast.Sub):
                        return pos_bucket(e.left)
                    if isinstance(e, ast.Call) and isinstance(e.func, ast.Attribute) and e.func.attr == "difference":
                        return pos_bucket(e.func.value)
                    if isinstance(e, ast.BinOp) and isinstance(e.op, ast.BitOr):
                        return pos_bucket(e.left) | pos_bucket(e.right)
                    if isinstance(e, ast.Call) and call_name(e) in ("set", "sorted", "list", "frozenset") and e.args:
                        return pos_bucket(e.args[0])
                    return _bucket_of(pvf, e)
                ok = len(parts) >= 2 and any(pos_bucket(p_) & {"ADDED", "UNCHANGED"} for p_ in parts)
            c.check("C11.R1", ok, repo.loc(m, y), f"{vendor}._process_vlandb/reenter-only-staying-blocks", f"`{norm(y)[:70]}` re-enters the block of a removed row for every id of "
                    f"`{norm(loops[-1].iter)[:50] if loops else '?'}`, not only for the ids that stay (∩ the new side): entering `vlan N` after `no vlan N` creates the VLAN again, so a VLAN "
                    "of S_old − S_new survives", key_text="reenter-removed")


RESET_WORDS = ("all", "none")


def _is_whole_key_reset(text_e, rule_name="rule"):
    """yield text that resets the entire key: rule['reverse'].format(*key) [+ ' all'] or '<prefix> none/all' without a VLAN list"""
    t = norm(text_e).replace('"', "'")
    if f"{rule_name}['reverse'].format(*key)" in t:
        return "reverse"
    if isinstance(text_e, ast.BinOp) and isinstance(text_e.op, ast.Mod) and isinstance(text_e.left, ast.Constant) and isinstance(text_e.left.value, str):
        s = text_e.left.value.strip()
        if s.split()[-1] in RESET_WORDS and s.count("%s") == 1:
            return s.split()[-1]
    if isinstance(text_e, ast.JoinedStr):
        consts = "".join(v.value for v in text_e.values if isinstance(v, ast.Constant)).strip()
        if consts.split() and consts.split()[-1] in RESET_WORDS:
            return consts.split()[-1]
    return None


def r2(c):
    repo = c.repo
    c.rule("C11.R2", "contradiction rule: a vlan logic whose key may hold several rows and that emits a command resetting the entire key (the bare reverse, `... all`, `... none`) "
                     "must do so only on paths whose condition consults the UNCHANGED bucket — rows that stay would be wiped. That holds for the `not multi` arm as well: the "
                     "assertion there bounds the ADDED and REMOVED rows of a key, not the rows that stay (`instance 1 vlan 10 to 20` / `instance 1 vlan 30`). Exempt: the arm "
                     "where the reset word is the new row itself (one ADDED row with an empty set)")
    n = 0
    for vendor, modname in MODS.items():
        m = repo.module(modname)
        fn = repo.func(modname, "_process_vlandb")
        gm = GuardMap(fn)
        for y in walk_no_nested(fn):
            if not (isinstance(y, ast.Yield) and isinstance(y.value, ast.Tuple) and len(y.value.elts) == 3):
                continue
            kind = _is_whole_key_reset(y.value.elts[1], fn.args.args[0].arg)
            if not kind:
                continue
            n += 1
            f = gm.formula(y, G.GuardEnv(rename=lambda s: s.replace('"', "'")))
            atoms = G.atoms(f)
            # the reset happens only where nothing of the key stays: the path condition implies that the UNCHANGED bucket is empty (merely mentioning it — e.g. in the
            # negation of an earlier arm — is not enough)
            consults = False
            for a in atoms:
                if "UNCHANGED" not in a:
                    continue
                empty_cmp = a.replace(" ", "").endswith("==0") or a.replace(" ", "").startswith("0==")
                if G.implies(f, G.Atom(a) if empty_cmp else G.Not(G.Atom(a))):
                    consults = True
            one_added = [G.Atom(a) for a in atoms if a.replace(" ", "") in ("1==len(diff[Op.ADDED])", "len(diff[Op.ADDED])==1")]
            # emptiness of the parsed new set: `len(new) == 0` or `not new`
            empty_new = [G.Atom(a) for a in atoms if a.replace(" ", "") in ("0==len(new)", "len(new)==0")] + ([G.Not(G.Atom("new"))] if "new" in atoms else [])
            is_new_row = any(G.implies(f, a) for a in one_added) and any(G.implies(f, e) for e in empty_new)
            ok = consults or is_new_row
            why = "consults UNCHANGED" if consults else "the reset word is the new row itself" if is_new_row else ""
            if ok:
                c.holds("C11.R2", repo.loc(m, y), f"{vendor}._process_vlandb/reset:{kind}", why)
            else:
                c.violated("C11.R2", repo.loc(m, y), f"{vendor}._process_vlandb/reset:{kind}",
                           f"`{norm(y.value.elts[1])[:70]}` resets the whole key under {G.show(f)} without looking at the rows that stay (UNCHANGED): with two lines of the same "
                           "command, one kept and one dropped, every VLAN of the kept line is removed too", key_text=f"reset-{kind}")
    c.floor("C11.R2", "whole-key reset sites", n, 3)


def r3(c):
    repo = c.repo
    c.rule("C11.R3", "each vlandb module uses the expand helper of the same vendor as the collapse helper it prints with (huawei_* with ' to ', cisco_* with '-')")
    for vendor, modname in MODS.items():
        m = repo.module(modname)
        col = m.imports.get("collapse_vlandb")
        exp = m.imports.get("expand_vlandb")
        ok = col is not None and exp is not None and col[1] and exp[1] and col[1].split("_")[0] == exp[1].split("_")[0] == vendor
        c.check("C11.R3", ok, m.rel, f"{vendor}.vlandb/helpers", f"collapse={col[1] if col else None}, expand={exp[1] if exp else None}: ranges would be parsed in one vendor's syntax and printed in another's",
                key_text="pairing")
        c.count("modules")


def r4(c):
    repo = c.repo
    c.rule("C11.R4", "huawei.vlandb.vlan_diff: the set of VLAN ids declared by `vlan batch` accumulates over every `vlan batch` line of new (the list may span several lines); "
                     "a removed `vlan N` whose id is in that set is demoted to AFFECTED (never `undo vlan N`)")
    modname = MODS["huawei"]
    m = repo.module(modname)
    fn = repo.func(modname, "vlan_diff")
    c.count("functions")
    gm = GuardMap(fn)
    pv = Provenance(fn)
    # the set tested with .intersection(vlan_ids) in the REMOVED arm
    tests = [x for x in calls_in(fn) if isinstance(x.func, ast.Attribute) and x.func.attr in ("intersection", "isdisjoint", "__and__") and isinstance(x.func.value, ast.Name)]
    if not tests:
        raise AnchorError("vlan_diff: batch-set membership test not found")
    setname = tests[0].func.value.id
    defs = [n for n in walk_no_nested(fn) if isinstance(n, ast.Assign) and isinstance(n.targets[0], ast.Name) and n.targets[0].id == setname]
    accum = [x for x in calls_in(fn) if isinstance(x.func, ast.Attribute) and x.func.attr in ("update", "add") and norm(x.func.value) == setname] + \
            [n for n in walk_no_nested(fn) if isinstance(n, ast.AugAssign) and norm(n.target) == setname and isinstance(n.op, ast.BitOr)]
    ok = False
    detail = ""
    if accum:
        a = accum[0]
        loops = gm.in_loop(a)
        f = gm.formula(a, G.GuardEnv(rename=lambda s: s.replace('"', "'")))
        ok = bool(loops) and norm(loops[-1].iter) == "new" and any("vlan batch" in at for at in G.atoms(f)) and \
            all(isinstance(d.value, ast.Call) and call_name(d.value) == "set" and not d.value.args for d in defs)
        detail = "accumulated with update() in a loop over new"
    else:
        v = defs[-1].value if defs else None
        keyed = [x for x in (pv.origin_calls(v, through_calls=True) if v is not None else [])
                 if call_name(x) in ("dict", "odict", "OrderedDict") and x.args and isinstance(x.args[0], (ast.GeneratorExp, ast.ListComp))]
        if keyed:
            ok = False
            detail = f"`{norm(keyed[0])[:80]}` keys the parsed lines by their prefix: only the last `vlan batch` line survives"
        elif isinstance(v, (ast.SetComp,)) or (isinstance(v, ast.Call) and call_name(v) in ("set", "set.union", "frozenset") and v.args):
            # a union comprehension over all lines is fine; a dict keyed by prefix is not
            ok = not any(isinstance(x, ast.Call) and call_name(x) == "dict" for x in ast.walk(v))
            detail = "built by a set expression"
        elif v is not None and any(isinstance(x, ast.Call) and call_name(x) == "dict" for x in ast.walk(v)):
            ok = False
            detail = f"`{norm(v)[:80]}` keys the parsed lines by their prefix: only the last `vlan batch` line survives"
        else:
            raise AnchorError("vlan_diff: construction of the batch id set not recognised")
    c.check("C11.R4", ok, repo.loc(m, defs[-1] if defs else fn), "huawei.vlan_diff/batch-set", f"the `vlan batch` id set does not cover every line of a multi-line list ({detail}): a `vlan N` block dropped while N stays "
            "in an earlier `vlan batch` line is removed with `undo vlan N`", key_text="batch-set")
    # the demotion arm
    items = [x for x in calls_in(fn) if call_name(x) == "DiffItem"]
    ok = any(x.args and op_const(x.args[0]) == "AFFECTED" for x in items)
    if ok:
        x = [x for x in items if op_const(x.args[0]) == "AFFECTED"][0]
        f = gm.formula(x, G.GuardEnv(rename=lambda s: s.replace('"', "'")), alias=True)
        at = G.atoms(f)
        ok = any("REMOVED" in a for a in at) and any("intersection" in a for a in at) and any("'vlan'" in a for a in at)
    c.check("C11.R4", ok, repo.loc(m, fn), "huawei.vlan_diff/demote-removed", "a removed `vlan N` that stays in `vlan batch` is not demoted to AFFECTED", key_text="demote")


def r5(c):
    from sa.cachealias import CachedMutables, is_memoised
    repo = c.repo
    c.rule("C11.R5", "the VLAN sets parsed from config rows are private to one diff: no set produced by a memoised expand helper of annlib.lib (directly, or handed on through "
                     "_parse_vlancfg / _parse_vlancfg_actions return values) is mutated (update/add/-=/...) by the vlandb code — a memoised function returns the same object to "
                     "every caller, so an in-place union would leak VLANs of one port's list into every later list written with the same range text")
    LIB = "annet.annlib.lib"
    lm = repo.module(LIB)
    helpers = [q for q, f in lm.defs.items() if isinstance(f, ast.FunctionDef) and q.endswith("_expand_vlandb")]
    c.floor("C11.R5", "expand helpers", len(helpers), 2)
    cmz = CachedMutables(repo, [LIB] + list(MODS.values()))
    c.analysed["memoised_mutable_sources"] = sorted(v[1] for v in cmz.sources.values())
    c.analysed["carriers"] = sorted(f"{v[0].name}:{v[1]}" for v in cmz.tainted.values())
    sinks = cmz.sinks()
    for q in helpers:
        f = lm.defs[q]
        c.count("functions")
        mine = [s_ for s_ in sinks if s_[3] == q]
        if not mine:
            c.holds("C11.R5", repo.loc(lm, f), f"lib.{q}", "not memoised" if not is_memoised(f) else "memoised, but no caller mutates its result", trivial=not is_memoised(f))
        for m, fq, node, src in mine:
            c.violated("C11.R5", repo.loc(m, node), f"{m.name.split('.', 1)[-1]}:{fq}", f"`{norm(node)[:60]}` mutates a set that may be the memoised result of lib.{src}: the ids merged into it "
                       "stay in the cache entry of that range text, and every later diff in this process that contains the same text sees them (VLANs present in both "
                       "sets are removed / re-added)", key_text=f"mutates-cached:{src}")


def r6(c):
    repo = c.repo
    c.rule("C11.R6", "collapse helpers enumerate ranges inclusively: in annlib.lib.collapse_vlandb a (first, last) pair is never expanded with range(pair[0], pair[1]) — the last id "
                     "of the pair would be dropped from the printed list (expand(collapse(S)) != S)")
    LIB = "annet.annlib.lib"
    lm = repo.module(LIB)
    fn = repo.func(LIB, "collapse_vlandb", canon=False)
    c.count("functions")
    bad = []
    for x in ast.walk(fn):
        if isinstance(x, ast.Call) and call_name(x) == "range" and len(x.args) == 2:
            a, b = x.args
            if isinstance(a, ast.Subscript) and isinstance(b, ast.Subscript) and norm(a.value) == norm(b.value) and norm(a.slice) == "0" and norm(b.slice) in ("1", "-1"):
                bad.append(x)
    c.check("C11.R6", not bad, repo.loc(lm, bad[0] if bad else fn), "collapse_vlandb/inclusive-pairs", f"`{norm(bad[0]) if bad else ''}` enumerates a (first, last) pair without its last id",
            key_text="exclusive-range")
