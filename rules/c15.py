"""C15 -- mesh sessions are mirrored on both ends; handler data merges without loss (structural clauses)."""
import ast

from sa import guards as G
from sa.effects import Effects
from sa.flow import GuardMap, Provenance, ReachingDefs
from sa.repo import AnchorError, call_name, calls_in, dotted, norm, walk_no_nested, kwarg

REG = "annet.mesh.registry"
EXE = "annet.mesh.executor"
BASE = "annet.mesh.basemodel"
CONV = "annet.mesh.models_converter"
ORDER_FREE = {"ForbidChange", "Forbid", "Unite", "Merge", "DictMerge", "Concat"}
ORDER_DEPENDENT = {"UseFirst", "UseLast", "ApplyFunc"}
EXCEPTIONS = {("annet.mesh.executor", "Pair", "device"): "both values are the device named by the pair's key"}


def run(c):
    c.explanation = ("Orientation symmetry of the two lookups (sibling expressions compared under the device<->neighbor swap), role consistency between rule.match_left/right, "
                     "handler argument order and the DTOs a pair is built from, role flow into Peer, a type-level table of the merger of every BaseMeshModel field, and "
                     "no-mutation / conflict-surfacing shape of the mergers.")
    c.decides = ("a rule is tried in both orientations independently and mirrored exactly; handler(left, right) roles match the objects merged into local/connected; addr and "
                 "remote_as come from the connected side and options from the local side; every DTO field merger is order-insensitive (or conflicting) and pure; merge conflicts "
                 "surface as ValueError")
    c.does_not_decide = "the address/AS equalities on topologies; permutation invariance on values"
    r1(c)
    r2(c)
    r3(c)
    r4(c)
    r5(c)
    r6(c)
    r7(c)
    r8(c)


def r1(c):
    repo = c.repo
    c.rule("C15.R1", "orientation symmetry: in lookup_direct and lookup_indirect a rule is tried in both orientations by two independent tests (not if/elif); the second "
                     "Matched…Pair is the first with device<->neighbor swapped in match_pair's arguments and in name_left/name_right, and direct_order negated")
    m = repo.module(REG)
    for fname in ("MeshRulesRegistry.lookup_direct", "MeshRulesRegistry.lookup_indirect"):
        fn = repo.func(REG, fname)
        c.count("functions")
        gm = GuardMap(fn)
        apps = [x for x in calls_in(fn) if isinstance(x.func, ast.Attribute) and x.func.attr == "append" and x.args and isinstance(x.args[0], ast.Call)
                and call_name(x.args[0]).startswith("Matched")]
        if len(apps) == 1 and any(isinstance(l_, ast.For) for l_ in gm.in_loop(apps[0])):
            # the two orientations may be rows of a small table the innermost loop walks: spell the iterations out
            from sa.canon import unroll_literal_loops
            fn = unroll_literal_loops(fn, names_ok=True)
            gm = GuardMap(fn)
            apps = [x for x in calls_in(fn) if isinstance(x.func, ast.Attribute) and x.func.attr == "append" and x.args and isinstance(x.args[0], ast.Call)
                    and call_name(x.args[0]).startswith("Matched")]
        if len(apps) != 2:
            c.violated("C15.R1", repo.loc(m, fn), f"{fname}/two-orientations", f"{len(apps)} Matched…Pair constructions (expected 2: one per orientation)", key_text="count")
            continue
        a, b = apps
        # independent tests
        ifa, ifb = gm.stmt(a)._parent, gm.stmt(b)._parent
        indep = isinstance(ifa, ast.If) and isinstance(ifb, ast.If) and ifa is not ifb and not any(x is ifb for x in ast.walk(ifa))
        c.check("C15.R1", indep, repo.loc(m, ifb), f"{fname}/independent-tests",
                "the reverse orientation is tried only when the direct one did not match (elif/else): for a rule whose masks match a pair both ways each end runs a different "
                "handler call and the two ends of one session disagree", key_text="elif")

        def match_info(ifnode):
            """(match_pair argument texts, name of the variable holding the match result) of an orientation's test"""
            pv_ = Provenance(fn)
            for x in ast.walk(ifnode.test):
                if isinstance(x, ast.NamedExpr) and isinstance(x.value, ast.Call) and isinstance(x.value.func, ast.Attribute) and x.value.func.attr == "match_pair":
                    return [norm(a) for a in x.value.args], x.target.id
            for x in ast.walk(ifnode.test):
                if isinstance(x, ast.Name):
                    v = pv_.resolve_alias(x)
                    if isinstance(v, ast.Call) and isinstance(v.func, ast.Attribute) and v.func.attr == "match_pair" and len(v.args) == 2:
                        return [norm(a) for a in v.args], x.id
            return None, None
        (ma, va), (mb, vb) = match_info(ifa), match_info(ifb)
        ok = ma is not None and mb is not None and ma == list(reversed(mb)) and ma[0] != ma[1]
        c.check("C15.R1", ok, repo.loc(m, ifb), f"{fname}/swapped-match", f"match_pair arguments {ma} / {mb} are not each other's swap", key_text="swap-match")
        ka = {k.arg: norm(k.value).replace(va or "\x00", "ARGS") for k in a.args[0].keywords}
        kb = {k.arg: norm(k.value).replace(vb or "\x00", "ARGS") for k in b.args[0].keywords}
        ok = set(ka) == set(kb) and ka.get("name_left") == kb.get("name_right") and ka.get("name_right") == kb.get("name_left") and ka.get("name_left") != ka.get("name_right") \
            and ka.get("direct_order") == "True" and kb.get("direct_order") == "False" and \
            all(ka[k] == kb[k] for k in ka if k not in ("name_left", "name_right", "direct_order"))
        c.check("C15.R1", ok, repo.loc(m, b), f"{fname}/mirrored-record", f"the reverse record {kb} is not the mirror of the direct one {ka}", key_text="mirror")
        # the names correspond to the match arguments' devices
        ok = ka.get("match_left") == "ARGS[0]" and ka.get("match_right") == "ARGS[1]" and kb.get("match_left") == "ARGS[0]"
        c.check("C15.R1", ok, repo.loc(m, a), f"{fname}/match-sides", "match_left/match_right are not element 0/1 of the orientation's own match result", key_text="sides")


def _arms(fn, gm):
    """for constructor/handler calls: polarity of rule.direct_order on their path"""
    def pol(node):
        f = gm.formula(node, G.GuardEnv(rename=lambda s: {"rule.direct_order": "direct"}.get(s, s)), skip_early=True)
        if G.implies(f, G.Atom("direct")):
            return True
        if G.implies(f, G.Not(G.Atom("direct"))):
            return False
        return None
    return pol


def r2(c):
    from sa import symexec
    repo = c.repo
    c.rule("C15.R2", "role consistency in _execute_direct_pair and _execute_indirect, on every path (symbolic enumeration; each path decides rule.direct_order): the handler is called "
                     "as (left, right) — its first argument is the peer built from rule.match_left, its second the one from rule.match_right — and the peer built around `device` "
                     "is the left one exactly when direct_order holds; the peer around `device` is merged (with the session) into Pair.local, the other peer into Pair.connected, "
                     "and Pair.device is that other peer's device")
    m = repo.module(EXE)
    CT = ("DirectPeer", "IndirectPeer")
    for fname in ("MeshExecutor._execute_direct_pair", "MeshExecutor._execute_indirect"):
        fn = repo.func(EXE, fname)
        c.count("functions")
        gm = GuardMap(fn)
        handlers = [x for x in calls_in(fn) if norm(x.func) == "rule.handler"]
        if not handlers:
            raise AnchorError(f"{fname}: rule.handler(...) call not found")
        lp = [l for l in gm.in_loop(handlers[0]) if isinstance(l, ast.For)]
        region = lp[-1].body if lp else fn.body
        env = G.GuardEnv(rename=lambda s_: {"rule.direct_order": "direct"}.get(s_, s_))
        res = {True: {}, False: {}}
        n_paths = 0
        for p_ in symexec.paths(region, keep=("session",)):
            f = G.And(*[(G.formula(t, env) if pol else G.Not(G.formula(t, env))) for t, pol in p_.conds])
            if not G.satisfiable(f):
                continue
            hs = [(o, s_) for k, o, s_ in p_.events if k == "call" and norm(o.func) == "rule.handler"]
            if not hs:
                continue
            n_paths += 1
            arm = True if G.implies(f, G.Atom("direct")) else (False if G.implies(f, G.Not(G.Atom("direct"))) else None)
            if arm is None:
                res[True]["undecided"] = res[False]["undecided"] = hs[0][0]
                continue
            r = res[arm]
            o, sub = hs[-1]
            r["node"] = o
            a0, a1 = (sub.args + [None, None])[:2]
            okc = all(isinstance(a_, ast.Call) and call_name(a_) in CT and len(a_.args) >= 2 for a_ in (a0, a1))
            r.setdefault("sides", True)
            r.setdefault("order", True)
            r.setdefault("pair", True)
            if not okc or len(hs) != 1:
                r["sides"] = r["order"] = False
                r["detail"] = f"handler called with ({norm(a0)[:40] if a0 is not None else None}, {norm(a1)[:40] if a1 is not None else None})"
                continue
            if not (norm(a0.args[0]) == "rule.match_left" and norm(a1.args[0]) == "rule.match_right"):
                r["sides"] = False
                r["detail"] = f"(left, right) arguments are built from ({norm(a0.args[0])}, {norm(a1.args[0])})"
            d0, d1 = norm(a0.args[1]), norm(a1.args[1])
            dev_left = d0 == "device" and d1 != "device"
            dev_right = d1 == "device" and d0 != "device"
            if not ((arm and dev_left) or ((not arm) and dev_right)):
                r["order"] = False
                r["detail2"] = f"the peers wrap ({d0}, {d1})"
            mine, other = (a0, a1) if dev_left else (a1, a0)
            pairs = [s_ for k, o2, s_ in p_.events if k == "call" and call_name(o2) == "Pair"]
            for pr in pairs[:1]:
                kw = {k.arg: k.value for k in pr.keywords}
                tl, tc = norm(kw.get("local")) if kw.get("local") is not None else "", norm(kw.get("connected")) if kw.get("connected") is not None else ""
                ok = norm(mine) in tl and norm(other) not in tl and norm(other) in tc and norm(mine) not in tc and "session" in tl and "session" in tc \
                    and kw.get("device") is not None and norm(kw["device"]) == norm(other.args[1])
                if not ok:
                    r["pair"] = False
            gave_up = any(k in ("raise", "continue") for k, _o, _s in p_.events) or (isinstance(p_.returned, ast.Constant) and p_.returned.value is None)
            if not pairs and not gave_up:
                r["pair"] = False
        if not n_paths:
            raise AnchorError(f"{fname}: no path reaches the handler call")
        for arm in (True, False):
            r = res[arm]
            an = "direct" if arm else "reverse"
            at = repo.loc(m, r.get("node", fn))
            if "undecided" in r or "node" not in r:
                c.violated("C15.R2", repo.loc(m, fn), f"{fname}/arm[{an}]/handler-args", f"no handler call on a path that decides rule.direct_order ({an})", key_text=f"handler-{arm}")
                continue
            c.check("C15.R2", r["sides"], at, f"{fname}/arm[{an}]/match-sides", f"in the {an} arm {r.get('detail', '')}; expected rule.match_left for the first and rule.match_right "
                    "for the second: the handler would see the other side's match groups", key_text=f"sides-{arm}")
            c.check("C15.R2", r["order"], at, f"{fname}/arm[{an}]/handler-args", f"in the {an} arm {r.get('detail2', r.get('detail', ''))}; the device is the rule's {'left' if arm else 'right'} side there",
                    key_text=f"handler-{arm}")
            c.check("C15.R2", r["pair"], at, f"{fname}/arm[{an}]/pair-roles", "Pair.local / Pair.connected / Pair.device are not (device's peer + session, other peer + session, other device)",
                    key_text=f"pair-roles-{arm}")


def r3(c):
    repo = c.repo
    c.rule("C15.R3", "role flow into Peer: in to_bgp_peer(local, connected, ...) addr and remote_as derive from `connected`, options (incl. local_as <- asnum through the retort "
                     "name mapping) from `local`; the executor passes pair.local, pair.connected in that order")
    m = repo.module(CONV)
    fn = repo.func(CONV, "to_bgp_peer")
    c.count("functions")
    pv = Provenance(fn)
    peer = [x for x in calls_in(fn) if call_name(x) == "Peer"]
    if len(peer) != 1:
        raise AnchorError("to_bgp_peer: Peer(...) not found")
    kw = {k.arg: k.value for k in peer[0].keywords}

    def params_of(e):
        return {n.arg for k, n in pv.origins(e, through_calls=True) if k == "param"} if e is not None else set()
    for field, want in (("addr", "connected"), ("remote_as", "connected"), ("options", "local")):
        got = params_of(kw.get(field))
        c.check("C15.R3", got == {want}, repo.loc(m, peer[0]), f"to_bgp_peer/Peer.{field}", f"Peer.{field} derives from {sorted(got)}; expected `{want}` only "
                f"({'the peer must point at the other side' if want == 'connected' else 'session options are those this side was given'})", key_text=f"peer-{field}")
    ok = "asnum" in norm(kw.get("remote_as")) and "addr" in norm(kw.get("addr"))
    c.check("C15.R3", ok, repo.loc(m, peer[0]), "to_bgp_peer/fields", "remote_as/addr are not the connected side's asnum/addr", key_text="fields")
    nm = [x for x in calls_in(m.tree) if call_name(x) == "name_mapping" and any(k.arg == "map" for k in x.keywords)]
    ok = any('"local_as": "asnum"' in norm(x).replace("'", '"') for x in nm)
    c.check("C15.R3", ok, m.rel, "retort/local_as<-asnum", "PeerOptions.local_as is not mapped from the local side's asnum", key_text="mapping")
    em = repo.module(EXE)
    for fname in ("MeshExecutor._to_bgp_peer", "MeshExecutor._virtual_to_bgp_peer"):
        f2 = repo.func(EXE, fname)
        calls = [x for x in calls_in(f2) if call_name(x) == "to_bgp_peer"]
        ok = len(calls) == 1 and len(calls[0].args) >= 2 and norm(calls[0].args[0]) == "pair.local" and norm(calls[0].args[1]) == "pair.connected"
        c.check("C15.R3", ok, repo.loc(em, f2), f"{fname}/argument-order", "to_bgp_peer is not called with (pair.local, pair.connected, ...)", key_text="arg-order")


def r4(c):
    repo = c.repo
    c.rule("C15.R4", "every annotated field of every BaseMeshModel subclass under annet/mesh has an order-insensitive or conflicting merger: the default (ForbidChange), Forbid, "
                     "Unite, Merge, DictMerge(<allowed>) or Concat (element order of concatenations is exempted by the property); UseFirst, UseLast, ApplyFunc are reported. "
                     "Frozen exception: executor.Pair.device (UseLast) — both values are the device named by the pair's key")
    n_fields = n_cls = 0
    for m, cls in repo.subclasses("BaseMeshModel"):
        if not m.name.startswith("annet.mesh"):
            continue
        n_cls += 1
        for st in cls.body:
            if not isinstance(st, ast.AnnAssign) or not isinstance(st.target, ast.Name):
                continue
            ann = st.annotation
            if isinstance(ann, ast.Subscript) and norm(ann.value).endswith("ClassVar"):
                continue
            n_fields += 1
            mergers = []
            if isinstance(ann, ast.Subscript) and norm(ann.value).endswith("Annotated"):
                elts = ann.slice.elts if isinstance(ann.slice, ast.Tuple) else [ann.slice]
                for e in elts[1:]:
                    for x in ast.walk(e):
                        if isinstance(x, ast.Call) and call_name(x).split(".")[-1] in ORDER_FREE | ORDER_DEPENDENT:
                            mergers.append(call_name(x).split(".")[-1])
            bad = [x for x in mergers if x in ORDER_DEPENDENT]
            key = (m.name, cls.name, st.target.id)
            if bad and key in EXCEPTIONS:
                c.holds("C15.R4", repo.loc(m, st), f"{cls.name}.{st.target.id}", f"{bad[0]} — frozen exception: {EXCEPTIONS[key]}")
                continue
            c.check("C15.R4", not bad, repo.loc(m, st), f"{cls.name}.{st.target.id}", f"field merger {bad[0] if bad else ''}() makes the outcome depend on handler registration order "
                    "(two different values for a single-valued field must raise a conflict instead)", key_text="order-dependent", detail=",".join(mergers) or "ForbidChange (default)")
    c.analysed["model_classes"] = n_cls
    c.floor("C15.R4", "annotated DTO fields", n_fields, 60)


def r5(c):
    repo = c.repo
    c.rule("C15.R5", "merger semantics and conflict surfacing: Merger.__call__ returns the other side when one is NOT_SET (both arms); ForbidChange._merge returns only under "
                     "x == y and otherwise raises MergeForbiddenError; Unite/Concat/Merge/DictMerge build a new value and do not mutate their operands (handlers share constants); "
                     "every merge(...) in executor.py that combines handler output sits in a try whose MergeForbiddenError handler raises ValueError")
    m = repo.module(BASE)
    call = repo.func(BASE, "Merger.__call__")
    c.count("functions")
    gm = GuardMap(call)
    rets = [n for n in walk_no_nested(call) if isinstance(n, ast.Return)]
    table = {}
    for r in rets:
        f = gm.formula(r, G.GuardEnv(rename=lambda s: {"x is Special.NOT_SET": "x_unset", "Special.NOT_SET is x": "x_unset", "y is Special.NOT_SET": "y_unset", "Special.NOT_SET is y": "y_unset"}.get(s, s)))
        table[norm(r.value)] = f
    ok = "y" in table and "x" in table and G.equivalent(table["y"], G.Atom("x_unset")) and G.equivalent(table["x"], G.And(G.Not(G.Atom("x_unset")), G.Atom("y_unset")))
    c.check("C15.R5", ok, repo.loc(m, call), "Merger.__call__/unset", f"unset handling is {dict((k, G.show(v)) for k, v in table.items())}; expected: x unset -> y, y unset -> x (an unset field never overrides a set one)",
            key_text="unset")
    fc = repo.func(BASE, "ForbidChange._merge")
    gmf = GuardMap(fc)
    rets = [n for n in walk_no_nested(fc) if isinstance(n, ast.Return)]
    raises = [n for n in walk_no_nested(fc) if isinstance(n, ast.Raise)]
    ok = len(rets) == 1 and len(raises) == 1 and any(a in ("x == y", "y == x") for a in G.atoms(gmf.formula(rets[0]))) and "MergeForbiddenError" in norm(raises[0])
    c.check("C15.R5", ok, repo.loc(m, fc), "ForbidChange._merge", "does not return only for equal values and raise MergeForbiddenError otherwise", key_text="forbid-change")
    eff = Effects(repo)
    for cls, expr in (("Unite", "x | y"), ("Concat", "x + y"), ("DictMerge", None), ("Merge", None)):
        fn = repo.func(BASE, f"{cls}._merge")
        c.count("functions")
        mut = eff.mutated_params(m, f"{cls}._merge", fn)
        bad = [p for p in ("x", "y") if p in mut]
        c.check("C15.R5", not bad, mut[bad[0]][0].at() if bad else repo.loc(m, fn), f"{cls}._merge/pure", f"{cls}._merge mutates its operand `{bad[0] if bad else ''}` ({mut[bad[0]][0].how if bad else ''}): "
                "a value a handler assigned (possibly a shared constant) silently grows, so later pairs and the other end of the session see extra data", key_text="mutates-operand")
        if expr:
            r = [n for n in walk_no_nested(fn) if isinstance(n, ast.Return)]
            ok = len(r) == 1 and norm(r[0].value) == expr
            c.check("C15.R5", ok or bool(bad), repo.loc(m, fn), f"{cls}._merge/value", f"returns `{norm(r[0].value) if r else None}`; expected `{expr}`", key_text="value")
    # conflict surfacing in the executor
    em = repo.module(EXE)
    n = 0
    for q, fn in em.defs.items():
        if not isinstance(fn, ast.FunctionDef):
            continue
        for call_ in calls_in(fn):
            if call_name(call_) != "merge" or repo.enclosing_func(call_) is not fn:
                continue
            n += 1
            t = call_
            tr = None
            while getattr(t, "_parent", None) is not None:
                t = t._parent
                if isinstance(t, ast.Try) and any(call_ is x for b in t.body for x in ast.walk(b)):
                    tr = t
                    break
            ok = False
            if tr is not None:
                for h in tr.handlers:
                    if h.type is not None and "MergeForbiddenError" in norm(h.type):
                        last = h.body[-1]
                        ok = isinstance(last, ast.Raise) and "ValueError" in norm(last)
            c.check("C15.R5", ok, repo.loc(em, call_), f"{q}/merge-conflict-surfaced", f"`{norm(call_)[:60]}` is not inside a try that turns MergeForbiddenError into ValueError", key_text="surfacing")
    c.floor("C15.R5", "merge() sites in executor", n, 8)


def _optional_int_fields(repo, mod, cls):
    out = set()
    for st in cls.body:
        if isinstance(st, ast.AnnAssign) and isinstance(st.target, ast.Name):
            a = norm(st.annotation).replace(" ", "")
            if a in ("Optional[int]", "int|None", "None|int", "Union[int,None]", "Union[None,int]", "typing.Optional[int]"):
                out.add(st.target.id)
    return out


def truthiness_uses(fn):
    """expressions evaluated for their truth value: if/elif/while/conditional-expression tests, operands of and/or/not, assert tests"""
    out = []

    def test(e):
        if isinstance(e, ast.BoolOp):
            for v in e.values:
                test(v)
        elif isinstance(e, ast.UnaryOp) and isinstance(e.op, ast.Not):
            test(e.operand)
        else:
            out.append(e)
    for n in ast.walk(fn):
        if isinstance(n, (ast.If, ast.While, ast.IfExp, ast.Assert)):
            test(n.test)
        elif isinstance(n, ast.comprehension):
            for i in n.ifs:
                test(i)
    return out


def r6(c):
    repo = c.repo
    c.rule("C15.R6", "0 is an interface number: wherever the mesh executor decides from a handler's interface request (fields typed Optional[int] of the model class a parameter is "
                     "annotated with: lag, subif, svi, ...) whether to create a LAG / sub-interface / SVI, the field is compared with None, never used for its truth value "
                     "(unit 0, Port-channel0 or Vlan0 would silently be skipped and the session would sit on the parent interface on both ends)")
    m = repo.module(EXE)
    nfun = nsites = 0
    for q, fn0 in m.defs.items():
        if not isinstance(fn0, ast.FunctionDef):
            continue
        fn = repo.func(EXE, q, canon=False)
        typed = {}
        for a in fn.args.args + fn.args.kwonlyargs:
            if a.annotation is None:
                continue
            r = repo.resolve(m, norm(a.annotation))
            if r and isinstance(r[2], ast.ClassDef):
                fs = _optional_int_fields(repo, r[0], r[2])
                if fs:
                    typed[a.arg] = (r[2].name, fs)
        if not typed:
            continue
        nfun += 1
        c.count("functions")
        for e in ast.walk(fn):
            if isinstance(e, ast.Attribute) and isinstance(e.value, ast.Name) and e.value.id in typed and e.attr in typed[e.value.id][1]:
                nsites += 1
        for e in truthiness_uses(fn):
            if isinstance(e, ast.Attribute) and isinstance(e.value, ast.Name) and e.value.id in typed and e.attr in typed[e.value.id][1]:
                c.violated("C15.R6", repo.loc(m, e), f"{q}/{norm(e)}", f"`{norm(e)}` ({typed[e.value.id][0]}.{e.attr}: Optional[int]) is tested for truth: the value 0 counts as 'not requested', "
                           "so the sub-interface / LAG / SVI the rule selected is not created and the addresses and peers land on the parent interface", key_text=f"truthiness:{e.attr}")
    c.floor("C15.R6", "functions with Optional[int] model parameters", nfun, 2)
    c.floor("C15.R6", "uses of Optional[int] model fields", nsites, 8)
    c.holds("C15.R6", m.rel, "mesh.executor/optional-int-tests", f"{nsites} uses in {nfun} functions, none in truth-value position") if not [1 for v in c.instances if v["rule"] == "C15.R6" and v["verdict"] != "HOLDS"] else None


def _dep_names(fn, rd, gm, expr, limit=400):
    """names of the function's scope the value of `expr` may depend on (data dependence through reaching definitions, call arguments and receivers included,
    plus the conditions the defining statements sit under)"""
    out, todo, seen = {}, [expr], set()
    while todo and len(seen) < limit:
        e = todo.pop()
        if id(e) in seen:
            continue
        seen.add(id(e))
        for n in ast.walk(e):
            if isinstance(n, ast.Name) and isinstance(n.ctx, ast.Load):
                out.setdefault(n.id, n)
                for d in rd.defs(n):
                    if d.value is not None:
                        todo.append(d.value)
                    if d.stmt is not None and d.kind not in ("param",):
                        try:
                            for t, _pol in gm.of(d.stmt):
                                todo.append(t)
                        except Exception:
                            pass
    return out


def r7(c):
    repo = c.repo
    c.rule("C15.R7", "handler results are accumulated as acc[key(x)] = merge(acc[key(x)], x); with commutative / conflicting mergers (R4) the outcome is independent of the "
                     "registration order only if the key is a function of the handler's own result: at every `merge(ACC[K], ...)` in mesh/executor.py the key K must not depend "
                     "(through definitions, call arguments or the conditions it is chosen under) on the accumulator ACC, i.e. on what earlier handlers produced")
    m = repo.module(EXE)
    sites = 0
    for q, fn0 in m.defs.items():
        if not isinstance(fn0, ast.FunctionDef):
            continue
        fn = repo.func(EXE, q, canon=False)
        accs = []
        for call in calls_in(fn):
            if call_name(call) != "merge":
                continue
            for a in call.args:
                if isinstance(a, ast.Subscript) and isinstance(a.value, ast.Name):
                    accs.append((call, a))
        if not accs:
            continue
        c.count("functions")
        rd = ReachingDefs(fn)
        gm = GuardMap(fn)
        params = {x.arg for x in fn.args.args}
        for call, sub in accs:
            ACC = sub.value.id
            if ACC in params:
                # the accumulate step lives in a helper that is handed the accumulator and the key: decide at every call site of the helper
                plist = [x.arg for x in fn.args.args]
                if not (isinstance(sub.slice, ast.Name) and sub.slice.id in plist):
                    continue
                ia, ik = plist.index(ACC), plist.index(sub.slice.id)
                off = 1 if plist and plist[0] in ("self", "cls") else 0
                for q2, fn2_0 in m.defs.items():
                    if not isinstance(fn2_0, ast.FunctionDef) or fn2_0 is fn0:
                        continue
                    fn2 = repo.func(EXE, q2, canon=False)
                    rd2 = gm2 = None
                    for x in calls_in(fn2):
                        r_ = repo.resolve_call(m, x)
                        if not (r_ and r_[2] is fn0):
                            continue
                        if len(x.args) <= max(ia, ik) - off:
                            continue
                        a_acc, a_key = x.args[ia - off], x.args[ik - off]
                        if not isinstance(a_acc, ast.Name):
                            continue
                        rd2 = rd2 or ReachingDefs(fn2)
                        gm2 = gm2 or GuardMap(fn2)
                        sites += 1
                        deps = _dep_names(fn2, rd2, gm2, a_key)
                        if a_acc.id in deps:
                            c.violated("C15.R7", repo.loc(m, x), f"{q2}/merge-key:{a_acc.id}", f"the key `{norm(a_key)}` under which a handler's result is merged into `{a_acc.id}` (through {q}) depends on "
                                       f"`{a_acc.id}` itself: which stored session a result joins depends on the order the handlers ran in", key_text=f"key-depends-on-acc:{a_acc.id}")
                        else:
                            c.holds("C15.R7", repo.loc(m, x), f"{q2}/merge-key:{a_acc.id}", f"key `{norm(a_key)}` (merged through {q}) depends on {sorted(deps)[:8]} only")
                continue
            sites += 1
            # conditions that only ask whether the key is already present are the accumulate idiom itself
            deps = _dep_names(fn, rd, gm, sub.slice)
            if ACC in deps:
                c.violated("C15.R7", repo.loc(m, sub), f"{q}/merge-key:{ACC}", f"the key `{norm(sub.slice)}` under which a handler's result is merged into `{ACC}` depends on `{ACC}` itself "
                           "(what earlier handlers stored): which stored session a result joins then depends on the order the handlers ran in, so permuting the registration "
                           "changes the peers", key_text=f"key-depends-on-acc:{ACC}")
            else:
                c.holds("C15.R7", repo.loc(m, sub), f"{q}/merge-key:{ACC}", f"key `{norm(sub.slice)}` depends on {sorted(deps)[:8]} only")
    c.floor("C15.R7", "accumulate-by-key merge sites", sites, 2)


def unordered_memo_sites(fn):
    """(store node, key expr) where a value computed by a call on >= 2 parameters is memoised under a key that passes those parameters through frozenset / set / sorted:
    the key names the unordered pair while the call's result is oriented by the argument order"""
    out = []
    params = {a.arg for a in fn.args.args if a.arg not in ("self", "cls")}
    if len(params) < 2:
        return out
    pv = Provenance(fn)

    def oriented_call(v):
        return isinstance(v, ast.Call) and len({x.id for a in v.args for x in ast.walk(a) if isinstance(x, ast.Name) and x.id in params}) >= 2

    def loses_order(key):
        k = pv.resolve_alias(key)
        for x in ast.walk(k):
            if isinstance(x, ast.Call) and call_name(x) in ("frozenset", "set", "sorted") and x.args:
                used = {y.id for y in ast.walk(x) if isinstance(y, ast.Name) and y.id in params}
                if len(used) >= 2:
                    return True
            if isinstance(x, ast.Name) and x is not k:
                k2 = pv.resolve_alias(x)
                if k2 is not x and isinstance(k2, ast.Call) and call_name(k2) in ("frozenset", "set", "sorted") and len({y.id for y in ast.walk(k2) if isinstance(y, ast.Name) and y.id in params}) >= 2:
                    return True
        return False
    for n in walk_no_nested(fn):
        if isinstance(n, ast.Assign) and len(n.targets) == 1 and isinstance(n.targets[0], ast.Subscript) and isinstance(n.targets[0].value, ast.Attribute) \
                and oriented_call(n.value) and loses_order(n.targets[0].slice):
            out.append((n, n.targets[0].slice))
        if isinstance(n, ast.Call) and isinstance(n.func, ast.Attribute) and n.func.attr == "setdefault" and isinstance(n.func.value, ast.Attribute) and len(n.args) == 2 \
                and oriented_call(n.args[1]) and loses_order(n.args[0]):
            out.append((n, n.args[0]))
    return out


def r8(c):
    import os
    repo = c.repo
    c.rule("C15.R8", "what the executor remembers between calls keeps the orientation it was computed in: no memo in annet/mesh stores the result of a call on two (or more) "
                     "parameters under a key that forgets their order (frozenset / set / sorted of them) — storage.search_connections(a, b) answers (a's port, b's port) pairs; "
                     "served from a cache filled while computing the other end, every port, address and session lands on the wrong side. Expected count 0; a positive fixture "
                     "under /verif/fixtures proves the matcher alive")
    fx = os.path.join(os.path.dirname(os.path.dirname(os.path.abspath(__file__))), "fixtures", "c15_unordered_memo.py")
    tree = ast.parse(open(fx).read())
    for n_ in ast.walk(tree):
        for ch in ast.iter_child_nodes(n_):
            ch._parent = n_
    nfx = sum(len(unordered_memo_sites(f)) for f in ast.walk(tree) if isinstance(f, ast.FunctionDef))
    if nfx != 2:
        raise AnchorError(f"C15.R8: positive fixture matched {nfx} constructs, expected 2 (matcher broken)")
    c.analysed["fixture_matches"] = nfx
    nf = 0
    for mn in sorted(n for n in repo.modules if n.startswith("annet.mesh")):
        m = repo.module(mn)
        for q, d in m.defs.items():
            if not isinstance(d, ast.FunctionDef):
                continue
            nf += 1
            for node, key in unordered_memo_sites(repo.func(mn, q, canon=False)):
                c.violated("C15.R8", repo.loc(m, node), f"{mn.split('.')[-1]}:{q}/memo", f"`{norm(node)[:80]}` memoises an oriented result under the unordered key `{norm(key)[:50]}`: the second end of "
                           "a link is served the first end's (local, remote) pairs", key_text="unordered-memo")
    c.count("functions", nf)
    c.floor("C15.R8", "mesh functions scanned", nf, 40)
    if not [1 for v in c.instances if v["rule"] == "C15.R8"]:
        c.holds("C15.R8", "annet/mesh", "mesh/memos", f"{nf} functions, no order-forgetting memo")
