"""C18 -- every known hardware model resolves to one vendor and a loadable rulebook (structural / data clauses)."""
import ast
import re

from sa import dsl
from sa.flow import GuardMap, Provenance
from sa import guards as G
from sa.hwdb import HwDb, all_chains, eval_cond
from sa.repo import AnchorError, call_name, calls_in, dotted, norm, walk_no_nested
from sa.vendors import load_rule_texts, load_vendors, vendor_aliases

HW_NON_MODEL = {"vendor", "soft", "model", "match", "dump", "_soft"}


def run(c):
    c.explanation = ("Exhaustive data analysis over devdb.json (all keys), every hw.* attribute chain in rule templates and Python, every function named by "
                     "%logic/%diff_logic/%apply_logic, every Mako branch combination reachable from a devdb sequence, and the vendor match table.")
    c.decides = ("every hw chain addressable; named functions resolve with compatible signatures; every reachable branch combination gives a well-formed rule tree; "
                 "devdb prefix-closed with parsing regexes; vendor choice strict and order-independent; cache keys cover what templates read")
    c.does_not_decide = "that Mako and re behave deterministically; equality of two loads"
    db = HwDb(c.repo)
    c.analysed["devdb_keys"] = len(db.keys)
    c.floor("C18.R4", "devdb keys", len(db.keys), 160) if False else None
    r1(c, db)
    r2(c)
    r3(c, db)
    r4(c, db)
    r5(c, db)
    r6(c)
    r7(c)
    r8(c)


def hw_chains_in_python(repo):
    """(module, node, chain) for attribute chains rooted at a hardware view: hw.A.B, device.hw.A, self.hw.A ..."""
    out = []
    for m in repo.modules.values():
        if not m.name.startswith("annet"):
            continue
        for n in ast.walk(m.tree):
            if not isinstance(n, ast.Attribute):
                continue
            par = getattr(n, "_parent", None)
            if isinstance(par, ast.Attribute) and par.value is n:
                continue  # not maximal
            parts = []
            x = n
            while isinstance(x, ast.Attribute):
                parts.append(x.attr)
                x = x.value
            parts.reverse()
            root_is_hw = False
            if isinstance(x, ast.Name) and x.id == "hw":
                root_is_hw = True
            elif "hw" in parts:
                i = parts.index("hw")
                parts = parts[i + 1:]
                root_is_hw = True
            if not root_is_hw or not parts:
                continue
            chain = []
            for p in parts:
                if p in HW_NON_MODEL or not (p[0].isupper() or p[0].isdigit()):
                    break
                chain.append(p)
            if chain:
                out.append((m, n, tuple(chain)))
    return out


def r1(c, db):
    repo = c.repo
    c.rule("C18.R1", "every attribute chain rooted at a hardware view — hw.A.B in Mako control lines of all rule texts; hw.*, device.hw.*, self.hw.* in Python under "
                     "annet/ — resolves, prefix by prefix, in the addressable-name table computed from devdb.json (an unknown name raises AttributeError at render/run time, "
                     "but only for models that enter that branch)")
    n_t = 0
    for t in load_rule_texts(repo):
        seen = set()
        for ln in t.lines:
            for cond, _pol in ln.conds:
                if (cond,) in seen:
                    continue
                seen.add((cond,))
                for ch in all_chains(cond):
                    n_t += 1
                    bad = db.chain_ok(ch)
                    c.check("C18.R1", bad is None, f"{t.rel}:{ln.no}", f"{t.rel.split('/')[-1]}:hw.{'.'.join(ch)}",
                            f"template condition `{cond}` reads hw.{'.'.join(ch)} but `hw.{bad}` is not addressable in devdb: AttributeError when a model enters this branch",
                            key_text="chain")
    c.floor("C18.R1", "template chains", n_t, 8)
    pys = hw_chains_in_python(repo)
    distinct = {}
    for m, n, ch in pys:
        distinct.setdefault((m.rel, ch), n)
    for (rel, ch), n in sorted(distinct.items(), key=lambda kv: (kv[0][0], kv[1].lineno)):
        bad = db.chain_ok(ch)
        c.check("C18.R1", bad is None, f"{rel}:{n.lineno}", f"{rel}:hw.{'.'.join(ch)}", f"`{norm(n)}`: hw.{bad} is not addressable in devdb (AttributeError on the models that reach this expression)",
                key_text="chain")
    c.floor("C18.R1", "python chains", len(pys), 50)


LOGIC_KW = {"logic": ["rule", "key", "diff", "hw", "rule_pre", "root_pre"], "diff_logic": ["old", "new", "diff_pre", "_pops"],
            "apply_logic": ["do_commit", "do_finalize", "path"]}


def resolve_rulebook_function(repo, name):
    modname, _, fname = name.rpartition(".")
    for root in ("annet.rulebook",):
        mn = f"{root}.{modname}"
        if mn in repo.modules:
            r = repo.resolve(repo.modules[mn], fname)
            if r and isinstance(r[2], ast.FunctionDef):
                return r
    return None


def r2(c):
    repo = c.repo
    c.rule("C18.R2", "every %logic=, %diff_logic=, %apply_logic= value in any rule text (all branches), the built-in defaults and the vendors' diff() names resolve under "
                     "annet.rulebook to a module-level def whose signature accepts the keywords the caller passes (by name or through **kwargs)")
    refs = {}
    for t in load_rule_texts(repo):
        for r in t.all_rows():
            for k in ("logic", "diff_logic", "apply_logic"):
                if k in r.params:
                    refs.setdefault((k, r.params[k]), (t.rel, r.line.no))
    # defaults named in the compilers
    pm = repo.module("annet.rulebook.patching")
    for nm, kind in (("DEFAULT_PATCH_LOGIC", "logic"), ("ORDERED_PATCH_LOGIC", "logic"), ("REWRITE_PATCH_LOGIC", "logic"), ("REWRITE_DIFF_LOGIC", "diff_logic"),
                     ("MULTILINE_DIFF_LOGIC", "diff_logic")):
        v = pm.toplevel_assign(nm)
        if isinstance(v, ast.Constant):
            refs.setdefault((kind, v.value), (pm.rel, v.lineno))
    dm = repo.module("annet.rulebook.deploying")
    v = dm.toplevel_assign("DEFAULT_APPLY_LOGIC")
    if isinstance(v, ast.Constant):
        refs.setdefault(("apply_logic", v.value), (dm.rel, v.lineno))
    for vn, ven in load_vendors(repo).items():
        for s in set(ven.diff.values()):
            refs.setdefault(("diff_logic", s), (ven.mod.rel, ven.cls.lineno))
    bm = repo.module("annet.vendors.base")
    for n in ast.walk(bm.tree):
        if isinstance(n, ast.Constant) and isinstance(n.value, str) and n.value.startswith("common.") and n.value.endswith("_diff"):
            refs.setdefault(("diff_logic", n.value), (bm.rel, n.lineno))
    c.floor("C18.R2", "function references", len(refs), 55)
    for (kind, name), (rel, no) in sorted(refs.items()):
        r = resolve_rulebook_function(repo, name)
        if r is None:
            c.violated("C18.R2", f"{rel}:{no}", f"%{kind}={name}", f"`{name}` does not resolve to a function under annet.rulebook: ImportError/AttributeError when the rulebook is compiled",
                       key_text="unresolved")
            continue
        fn = r[2]
        a = fn.args
        names = [x.arg for x in a.posonlyargs + a.args + a.kwonlyargs]
        need = LOGIC_KW[kind]
        if kind == "apply_logic":
            ok = (len(a.args) >= 1 or a.vararg) and all(k in names or a.kwarg for k in need)
        else:
            ok = all(k in names or a.kwarg for k in need)
        # required params without default that the caller does not pass
        n_def = len(a.defaults)
        req = [x.arg for x in a.args[:len(a.args) - n_def]]
        passed = need + (["hw"] if kind == "apply_logic" else [])
        extra = [x for x in req if x not in passed]
        if kind == "apply_logic" and extra and extra[0] == req[0]:
            extra = extra[1:]   # first positional receives hw
        c.check("C18.R2", ok and not extra, f"{rel}:{no}", f"%{kind}={name}", f"`{name}{norm(a)[:0]}({', '.join(names)}{', **' + a.kwarg.arg if a.kwarg else ''})` does not accept the caller's keywords {need}"
                + (f" / requires {extra}" if extra else ""), key_text="signature")


def r3(c, db):
    repo = c.repo
    c.rule("C18.R3", "every rule row compiles to a valid regex; for every devdb sequence (model = this key's chain is true) and every vendor's canonical hardware, each rule file renders to a well-formed tree: "
                     "%if/%endif balanced, every Mako condition evaluable, consistent indentation after branch selection; quick: the distinct branch combinations of each file")
    texts = load_rule_texts(repo)
    vendors = load_vendors(repo)
    models = []
    if c.tier == "thorough":
        for k in db.keys:
            models.append((".".join(k), db.true_set_for_key(k)))
        for vn, v in vendors.items():
            if v.hardware:
                models.append((f"HardwareView({v.hardware!r})", db.true_set_for_model(v.hardware)))
    n_eval = 0
    for t in texts:
        for no, msg in t.mako_problems:
            c.violated("C18.R3", f"{t.rel}:{no}", f"{t.rel.split('/')[-1]}:mako", msg, key_text=msg)
        for r in t.all_rows():
            if r.type == "context" or (t.kind == "deploy" and r.row.startswith(("dialog:", "ignore:"))):
                continue
            err = dsl.row_regex_error(r.row)
            if err:
                c.violated("C18.R3", f"{t.rel}:{r.line.no}", f"{t.rel.split('/')[-1]}:{r.row}", f"the row's regex does not compile ({err}): compiling the rulebook raises re.error for "
                           "every model that selects this line", key_text="row-regex")
        conds = []
        for ln in t.lines:
            for cond, _ in ln.conds:
                if cond not in conds:
                    conds.append(cond)
        # which valuations of the conditions to try
        combos = []
        if c.tier == "thorough":
            for name, ts in models:
                val = {}
                err = None
                for cond in conds:
                    v, _, e = eval_cond(cond, db, ts)
                    val[cond] = v
                    err = err or e
                combos.append((name, val, err))
        else:
            import itertools
            for bits in itertools.product([False, True], repeat=min(len(conds), 8)):
                combos.append(("combo:" + "".join("1" if b else "0" for b in bits), dict(zip(conds, bits)), None))
        seen_val = set()
        for name, val, err in combos:
            key = tuple(sorted((k, v) for k, v in val.items()))
            if key in seen_val:
                continue
            seen_val.add(key)
            n_eval += 1
            if err:
                # reported by R1 (addressability) -- here only note once per file
                continue

            def select(cs, val=val):
                for cond, pol in cs:
                    v = val.get(cond)
                    if v is None or v != pol:
                        return False
                return True
            rows, probs = dsl.build_tree(t.lines, select)
            sel_lines = [ln for ln in t.lines if select(ln.conds)]
            # a selected line deeper than its predecessor's children level w/o parent is already a child; detect first-line indentation
            if sel_lines and sel_lines[0].indent != min(l.indent for l in sel_lines):
                probs.append((sel_lines[0].no, "first selected line is indented deeper than a later top-level line"))
            if probs:
                no, msg = probs[0]
                c.violated("C18.R3", f"{t.rel}:{no}", f"{t.rel.split('/')[-1]}:{name}", f"after selecting the branches of {name}: {msg}", key_text=f"{no}:{msg}")
            else:
                c.holds("C18.R3", t.rel, f"{t.rel.split('/')[-1]}:{name}", f"{len(sel_lines)} lines selected", trivial=not conds)
    c.count("branch_evaluations", n_eval)
    c.analysed["models"] = len(models)


def r4(c, db):
    repo = c.repo
    c.rule("C18.R4", "devdb is hierarchical: every key's parent prefix is a key; every regex parses; find_true_sequences descends into children only inside the "
                     "`if regexp.search(...)` of the parent (a true family implies true ancestors); the addressing rule in annlib/netdev/db.py is the one the checker restates")
    c.floor("C18.R4", "devdb keys", len(db.keys), 160)
    mp = db.missing_parents()
    c.check("C18.R4", not mp, "annet/annlib/netdev/devdb/data/devdb.json", "devdb/prefix-closed", f"keys without a parent key: {mp[:5]}", key_text="parents:" + ",".join(mp[:5]))
    c.check("C18.R4", not db.regex_errors, "annet/annlib/netdev/devdb/data/devdb.json", "devdb/regexes", f"regexes that do not compile: {db.regex_errors[:3]}", key_text="regex")
    m = repo.module("annet.annlib.netdev.db")
    fn = repo.func("annet.annlib.netdev.db", "find_true_sequences")
    c.count("functions", 2)
    # the descent into children: a recursive call (of the function itself or of a nested walker) on <node>["children"], taken only after the node's regexp matched
    scopes = [fn] + [n for n in ast.walk(fn) if isinstance(n, ast.FunctionDef) and n is not fn]
    rec = []
    for sc in scopes:
        gsc = GuardMap(sc)
        for x in calls_in(sc):
            if call_name(x) in (fn.name, sc.name) and "children" in norm(x) and repo.enclosing_func(x) in (sc, None, fn):
                rec.append((x, gsc))
            elif isinstance(x.func, ast.Attribute) and x.func.attr in ("append", "extend", "appendleft", "add") and isinstance(x.func.value, ast.Name) and "children" in norm(x) \
                    and repo.enclosing_func(x) in (sc, None, fn):
                # the iterative form of the same descent: the children are queued on a work list that an enclosing loop drains
                wl = x.func.value.id
                drained = any(isinstance(w, (ast.While, ast.For)) and any(isinstance(t, ast.Name) and t.id == wl for t in ast.walk(w.test if isinstance(w, ast.While) else w.iter))
                              and any(y is x for y in ast.walk(w)) for w in ast.walk(sc))
                if drained:
                    rec.append((x, gsc))
    ok = len(rec) == 1
    if ok:
        f_ = rec[0][1].formula(rec[0][0])
        sa_ = [a for a in G.atoms(f_) if ".search(" in a]
        ok = len(sa_) == 1 and G.implies(f_, G.Atom(sa_[0]))
    c.check("C18.R4", ok, repo.loc(m, fn), "find_true_sequences/nested-descent", "children are searched outside the parent's match test: a family could be true while its ancestor is false",
            key_text="descent")
    bt = repo.func("annet.annlib.netdev.db", "_build_tree")
    pvb = Provenance(bt)
    inner = [n for n in ast.walk(bt) if isinstance(n, ast.For) and isinstance(n.iter, ast.Call) and call_name(n.iter) == "_seq_subs" and isinstance(n.target, ast.Name)]
    if len(inner) != 1 or len(bt.args.args) < 2:
        raise AnchorError("db._build_tree: the walk over the prefixes of a sequence (_seq_subs) not found")
    S = inner[0].target.id
    allowed = bt.args.args[1].arg
    nodes = [d for d in ast.walk(inner[0]) if isinstance(d, ast.Dict) and any(isinstance(k, ast.Constant) and k.value == "sequences" for k in d.keys)]
    if len(nodes) != 1:
        raise AnchorError("db._build_tree: node construction not found")
    sv_ = [v for k, v in zip(nodes[0].keys, nodes[0].values) if isinstance(k, ast.Constant) and k.value == "sequences"][0]
    sv_ = pvb.resolve_alias(sv_)
    ok = isinstance(sv_, ast.Subscript) and norm(sv_.value) == allowed and norm(pvb.resolve_alias(sv_.slice)) == S
    c.check("C18.R4", ok, repo.loc(m, nodes[0]), "db._build_tree/node-sequences", f"the node created for the prefix `{S}` stores `{norm(sv_)[:40]}`; expected {allowed}[{S}]: a family node created while "
            "walking to one of its descendants (a descendant listed before its family in devdb.json) would answer with the descendant's names — the model is hw.A.B.C but not hw.A.B",
            key_text="node-sequences")
    sv = repo.func("annet.annlib.netdev.db", "_make_seq_variants")
    txt = norm(sv)
    ok = "seq[left:-right] + (seq[-1],)" in txt and "range(len(seq))" in txt and "range(1, len(seq[left:]) + 1)" in txt
    al = repo.func("annet.annlib.netdev.db", "_make_allowed_by_seq", canon=False)
    ok2 = _unique_claim(c, repo, m, al)
    if not (ok and ok2):
        raise AnchorError("annlib/netdev/db.py: addressing rule (_make_seq_variants/_make_allowed_by_seq) no longer has the shape the checker's specification restates")
    c.holds("C18.R4", repo.loc(m, sv), "db._make_seq_variants/spec", "addressing rule matches the restated specification")


def _unique_claim(c, repo, m, al):
    """_make_allowed_by_seq keeps a short form only when exactly one sequence produces it.  Structural form of that: the claims are aggregated over *all* sequences first
    (phase 1), the filter reads the finished aggregate (phase 2) and keeps a variant when its count is at most one.  A filter that reads the aggregate inside the loop that is
    still filling it sees only the sequences listed earlier: the form then belongs to the first claimant instead of nobody (hw.<family> true without its ancestor)."""
    if not al.args.args:
        return False
    SEQS = al.args.args[0].arg
    pv = Provenance(al)
    loops = []
    for n in walk_no_nested(al):
        if isinstance(n, ast.For):
            names, _ = pv.iteration_bases(n.iter)
            if SEQS in names or any(isinstance(x, ast.Name) and x.id == SEQS for x in ast.walk(n.iter)):
                loops.append(n)
    partial = []
    for lp in loops:
        recv = {}
        for n in ast.walk(lp):
            t = None
            if isinstance(n, ast.Call) and isinstance(n.func, ast.Attribute) and n.func.attr in ("update", "add", "append", "extend", "subtract") and isinstance(n.func.value, ast.Name):
                t = n.func.value
            elif isinstance(n, ast.AugAssign) and isinstance(n.target, ast.Name):
                t = n.target
            elif isinstance(n, ast.AugAssign) and isinstance(n.target, ast.Subscript) and isinstance(n.target.value, ast.Name):
                t = n.target.value
            elif isinstance(n, ast.Assign) and isinstance(n.targets[0], ast.Subscript) and isinstance(n.targets[0].value, ast.Name):
                t = n.targets[0].value
            if t is not None:
                recv.setdefault(t.id, set()).add(id(t))
        for n in ast.walk(lp):
            if isinstance(n, ast.Name) and n.id in recv and id(n) not in recv[n.id] and isinstance(n.ctx, ast.Load):
                partial.append((lp, n))
    for lp, n in partial:
        c.violated("C18.R4", repo.loc(m, n), f"db._make_allowed_by_seq/partial-aggregate:{n.id}", f"`{n.id}` is read inside the loop over the sequences that is still filling it: which short "
                   "forms a sequence may be addressed by then depends on the sequences listed before it in devdb.json — an ambiguous form goes to the first claimant instead of "
                   "nobody, so hw.<form> is true for one family while false for its sibling and the prefix-closure of the true families is lost", key_text="partial-aggregate")
    if partial:
        return True                       # decided (violated); the anchor itself is intact
    # phase 2: a comparison `AGG[variant] <= 1` (or < 2, == 1) outside the aggregation loops
    in_loops = {id(x) for lp in loops for x in ast.walk(lp)}
    for n in ast.walk(al):
        if isinstance(n, ast.Compare) and id(n) not in in_loops and len(n.ops) == 1 and isinstance(n.left, ast.Subscript) and isinstance(n.comparators[0], ast.Constant):
            op, k = type(n.ops[0]).__name__, n.comparators[0].value
            if (op, k) in (("LtE", 1), ("Lt", 2), ("Eq", 1)):
                return True
            c.violated("C18.R4", repo.loc(m, n), "db._make_allowed_by_seq/threshold", f"a short form is kept under `{norm(n)}`; expected: produced by exactly one sequence", key_text="threshold")
            return True
    return False


def r5(c, db):
    repo = c.repo
    c.rule("C18.R5", "vendor choice is strict: if the devdb key of vendor A's match expression is a proper prefix of vendor B's key (both true for one model), B's expression "
                     "has strictly more dots (the only tie-breaker in Registry.match is registration order); no two vendors list the same expression; Registry.match "
                     "returns an arg-max over the dot count of all matching expressions")
    vendors = load_vendors(repo)
    if len(vendors) < 14:
        raise AnchorError(f"only {len(vendors)} vendors found (expected >= 14)")
    c.analysed["vendors"] = len(vendors)
    exprs = []
    for vn, v in vendors.items():
        for e in v.match:
            ch = tuple(e.split("."))
            if ch and ch[0] == "hw":
                ch = ch[1:]
            bad = db.chain_ok(ch)
            if bad:
                c.violated("C18.R5", repo.loc(v.mod, v.cls), f"vendor:{vn}:match:{e}", f"match expression `{e}`: hw.{bad} is not addressable", key_text="unaddressable")
                continue
            exprs.append((vn, e, db.addressable[ch], v))
    seen = {}
    for vn, e, key, v in exprs:
        if e in seen and seen[e] != vn:
            c.violated("C18.R5", repo.loc(v.mod, v.cls), f"vendor:{vn}:match:{e}", f"expression `{e}` is also listed by vendor {seen[e]}", key_text="duplicate")
        seen[e] = vn
    for vn, e, key, v in exprs:
        ok = True
        for vn2, e2, key2, v2 in exprs:
            if vn2 == vn:
                continue
            if len(key2) < len(key) and key[:len(key2)] == key2:
                # key2 is an ancestor of key: e must have more dots than e2
                if not e.count(".") > e2.count("."):
                    ok = False
                    c.violated("C18.R5", repo.loc(v.mod, v.cls), f"vendor:{vn}:match:{e}",
                               f"`{e}` (devdb key {'.'.join(key)}) ties with vendor {vn2}'s `{e2}` (key {'.'.join(key2)}): both are true for {vn}'s hardware and have "
                               f"{e.count('.')} dot(s), so registration order decides and the more specific vendor is not chosen", key_text=f"tie-with-{vn2}")
        if ok:
            c.holds("C18.R5", repo.loc(v.mod, v.cls), f"vendor:{vn}:match:{e}", f"key {'.'.join(key)}")
    # Registry.match idiom
    m = repo.module("annet.vendors.registry")
    fn = repo.func("annet.vendors.registry", "Registry.match")
    c.count("functions")
    pv = Provenance(fn)
    # candidate tuples (vendor, rank): appended in a loop or produced by a comprehension
    cands = [x.args[0] for x in calls_in(fn) if isinstance(x.func, ast.Attribute) and x.func.attr == "append" and x.args and isinstance(x.args[0], ast.Tuple)]
    cands += [n.elt for n in ast.walk(fn) if isinstance(n, (ast.ListComp, ast.GeneratorExp, ast.SetComp)) and isinstance(n.elt, ast.Tuple)]
    rank_idx = None
    for t in cands:
        for i, e in enumerate(t.elts):
            if "count('.')" in norm(e).replace('"', "'"):
                rank_idx = i
    ok_rank = rank_idx is not None

    def by_rank(call):
        for k in call.keywords:
            if k.arg == "key":
                kv = norm(pv.resolve_alias(k.value))
                return f"itemgetter({rank_idx})" in kv or f"[{rank_idx}]" in kv
        return False
    rets = [n for n in walk_no_nested(fn) if isinstance(n, ast.Return) and n.value is not None]
    argmax = False
    selection_seen = False
    picks = [norm(x) for x in ast.walk(fn) if isinstance(x, ast.Subscript) and isinstance(x.slice, (ast.Constant, ast.UnaryOp))] + \
            [norm(x) for x in ast.walk(fn) if isinstance(x, ast.Call) and call_name(x) == "next"]
    for r in rets:
        sel_calls = [x for x in ast.walk(r.value) if isinstance(x, ast.Call)] + pv.origin_calls(r.value, through_calls=True)
        for call in sel_calls:
            nm = call_name(call)
            if nm in ("sorted", "max", "min"):
                selection_seen = True
            if nm == "sorted" and ok_rank and by_rank(call):
                rev = any(k.arg == "reverse" and isinstance(k.value, ast.Constant) and k.value.value is True for k in call.keywords)
                first = any(p_.endswith("[0]") or p_.startswith("next(") for p_ in picks)
                last = any(p_.endswith("[-1]") for p_ in picks)
                if (rev and first) or (not rev and last and not first):
                    argmax = True
            if nm == "max" and ok_rank and by_rank(call):
                argmax = True
    if ok_rank and argmax:
        c.holds("C18.R5", repo.loc(m, fn), "Registry.match/argmax", "most dotted matching expression wins")
    elif selection_seen:
        c.violated("C18.R5", repo.loc(m, fn), "Registry.match/argmax", "the vendor is selected by sorted/max/min, but not as the maximum of the dot count of the matched expression: a less "
                   "specific (or merely earlier/later registered) vendor wins over the most dotted one", key_text="argmax")
    else:
        # loop-based selection: a comparison against a running best whose threshold is updated together with the choice
        upd = False
        cmp_found = False
        for n in walk_no_nested(fn):
            if isinstance(n, ast.If):
                for cm in ast.walk(n.test):
                    if isinstance(cm, ast.Compare) and isinstance(cm.ops[0], (ast.Gt, ast.GtE, ast.Lt, ast.LtE)):
                        cmp_found = True
                        names = {x.id for x in ast.walk(cm) if isinstance(x, ast.Name)}
                        assigned = set()
                        for st in n.body:
                            for t in ast.walk(st):
                                if isinstance(t, ast.Name) and isinstance(t.ctx, ast.Store):
                                    assigned.add(t.id)
                        if len(names & assigned) >= 1 and len(assigned) >= 2:
                            upd = True
        if not cmp_found:
            raise AnchorError("Registry.match: selection idiom not recognised (neither sorted/max over the dot count nor a running-best loop)")
        c.check("C18.R5", upd, repo.loc(m, fn), "Registry.match/argmax", "the running-best comparison never updates its threshold together with the choice: the last matching vendor "
                "registered wins instead of the most dotted one", key_text="argmax")


def r6(c):
    repo = c.repo
    c.rule("C18.R6", "cache keys cover what is read: DefaultRulebookProvider caches rulebooks and rendered texts by hw (hash/eq = model), so templates may read only "
                     "model-derived attributes (no hw.soft in a template) and the render cache key must contain the hw object itself and the file name")
    n = 0
    for t in load_rule_texts(repo):
        for ln in t.lines:
            for cond, _ in ln.conds:
                n += 1
                bad = re.search(r"hw\.(soft|_soft)\b", cond)
                c.check("C18.R6", not bad, f"{t.rel}:{ln.no}", f"{t.rel.split('/')[-1]}:{cond}", "template reads hw.soft, which the provider's cache key (model only) does not cover",
                        key_text="soft") if bad else None
    m = repo.module("annet.rulebook")
    fn = repo.func("annet.rulebook", "DefaultRulebookProvider._render_rul")
    c.count("functions", 2)
    pv = Provenance(fn)
    params = [a.arg for a in fn.args.args if a.arg != "self"]
    keys = [n_ for n_ in walk_no_nested(fn) if isinstance(n_, ast.Subscript) and "_render_rul_cache" in norm(n_.value)]
    if not keys:
        raise AnchorError("_render_rul: cache subscript not found")
    for k in keys[:1]:
        e = pv.resolve_alias(k.slice)
        elts = [norm(x) for x in e.elts] if isinstance(e, ast.Tuple) else [norm(e)]
        ok = all(p in elts for p in params)
        c.check("C18.R6", ok, repo.loc(m, k), "_render_rul/cache-key", f"render cache key is ({', '.join(elts)}); it must contain each of {params} itself — the template branches on hw's model families, "
                "so two models of one vendor must not share a rendered text", key_text="render-key")
    g = repo.func("annet.rulebook", "DefaultRulebookProvider.get_rulebook")
    keys = [n_ for n_ in walk_no_nested(g) if isinstance(n_, ast.Subscript) and "_rulebook_cache" in norm(n_.value)]
    ok = bool(keys) and all(norm(k.slice) == "hw" for k in keys)
    c.check("C18.R6", ok, repo.loc(m, g), "get_rulebook/cache-key", "rulebook cache is not keyed by hw", key_text="rb-key")
    hv = repo.cls("annet.annlib.netdev.views.hardware", "HardwareView")
    hm = repo.module("annet.annlib.netdev.views.hardware")
    h = [st for st in hv.body if isinstance(st, ast.FunctionDef) and st.name == "__hash__"]
    e = [st for st in hv.body if isinstance(st, ast.FunctionDef) and st.name == "__eq__"]
    ok = bool(h) and bool(e) and "self.model" in norm(h[0]) and "self.model == other.model" in norm(e[0])
    c.check("C18.R6", ok, repo.loc(hm, hv), "HardwareView/__hash__,__eq__", "HardwareView identity is not the model string: cached rulebooks could be shared between different models", key_text="hw-identity")


def import_graph(repo):
    """module -> modules imported by its top-level statements at import time (bodies of `if TYPE_CHECKING:` excluded)"""
    graph = {}
    for name, m in repo.modules.items():
        deps = set()
        todo = list(m.tree.body)
        while todo:
            st = todo.pop()
            if isinstance(st, ast.If):
                if "TYPE_CHECKING" in norm(st.test):
                    todo.extend(st.orelse)
                else:
                    todo.extend(st.body + st.orelse)
                continue
            if isinstance(st, ast.Try):
                todo.extend(st.body + st.orelse + st.finalbody + [x for h in st.handlers for x in h.body])
                continue
            if isinstance(st, ast.Import):
                for a in st.names:
                    if a.name in repo.modules:
                        deps.add(a.name)
            elif isinstance(st, ast.ImportFrom):
                base = st.module or ""
                if st.level:
                    pkg = name if m.is_pkg else name.rsplit(".", 1)[0]
                    for _ in range(st.level - 1):
                        pkg = pkg.rsplit(".", 1)[0]
                    base = (pkg + "." + base) if base else pkg
                if base in repo.modules:
                    deps.add(base)
                for a in st.names:
                    if base + "." + a.name in repo.modules:
                        deps.add(base + "." + a.name)
        graph[name] = deps - {name}
    return graph


def cycles(graph):
    import sys as _sys
    _sys.setrecursionlimit(max(_sys.getrecursionlimit(), 10000))
    idx, low, st, on, res, i = {}, {}, [], set(), [], [0]

    def sc(v):
        idx[v] = low[v] = i[0]
        i[0] += 1
        st.append(v)
        on.add(v)
        for w in graph.get(v, ()):
            if w not in idx:
                sc(w)
                low[v] = min(low[v], low[w])
            elif w in on:
                low[v] = min(low[v], idx[w])
        if low[v] == idx[v]:
            comp = []
            while True:
                w = st.pop()
                on.discard(w)
                comp.append(w)
                if w == v:
                    break
            if len(comp) > 1:
                res.append(sorted(comp))
    for v in sorted(graph):
        if v not in idx:
            sc(v)
    return res


def r7(c):
    repo = c.repo
    c.rule("C18.R7", "custom logic modules load in any order: the import graph of the modules under annet.rulebook.<vendor> (top-level imports, wherever in the file, `if "
                     "TYPE_CHECKING` bodies excluded) has no cycle — import_rulebook_function swallows ImportError, so a module that only imports cleanly when another one was "
                     "loaded first turns into `Could not import ...` for whichever rulebook happens to be loaded first in the process")
    g = import_graph(repo)
    logic = [n for n in g if n.startswith("annet.rulebook.") and n.count(".") >= 3]
    c.floor("C18.R7", "vendor logic modules", len(logic), 14)
    c.analysed["import_graph_modules"] = len(g)
    bad = [cy for cy in cycles(g) if any(n in logic for n in cy)]
    for cy in bad:
        a = [n for n in cy if n in logic][0]
        c.violated("C18.R7", repo.module(a).rel, f"import-cycle:{'+'.join(x.split('annet.rulebook.')[-1] for x in cy if x in logic)}", f"modules {cy} import each other at load time: which of them "
                   "can be imported first depends on the order rulebooks are loaded in", key_text="cycle:" + "+".join(cy))
    if not bad:
        c.holds("C18.R7", "annet/rulebook", "vendor-logic-import-graph", f"{len(logic)} modules, no cycle")


def r8(c):
    """the vendor of a model is whatever the registry says *now*: nothing between the model string and Registry.match may remember an earlier answer"""
    from rules.c20 import hidden_state_sites, module_level_names
    repo = c.repo
    c.rule("C18.R8", "resolution is stateless and failures are not memoised: (a) no function of annet.hardware / annet.vendors.* writes module-level or class-level state (the only "
                     "mutable table is the registry's own per-instance vendor table, filled by registration) — a memo model -> vendor in front of Registry.match would keep the "
                     "answer given before a more specific vendor was registered; (b) the provider's text/rulebook caches only ever store results: no store of a None/placeholder "
                     "value into a `*_cache` attribute (a remembered miss makes the second lookup return the placeholder instead of raising or retrying)")
    mods = [n for n in sorted(repo.modules) if n == "annet.hardware" or n.startswith("annet.vendors")]
    c.floor("C18.R8", "modules on the model -> vendor path", len(mods), 5)
    nfun = 0
    for mn in mods:
        m = repo.module(mn)
        funcs = [n for n in ast.walk(m.tree) if isinstance(n, ast.FunctionDef)]
        nfun += len(funcs)
        sites = hidden_state_sites(m.tree, funcs, module_level_names(m.tree))
        for node, what in sites:
            c.violated("C18.R8", repo.loc(m, node), f"{mn.split('annet.', 1)[-1]}:{what}", f"{what}: the vendor / hardware answer for a model then depends on what was asked or registered before",
                       key_text=what)
        if not sites:
            c.holds("C18.R8", m.rel, mn, f"{len(funcs)} functions, no module-level or class-level state written", trivial=len(funcs) < 2)
    c.count("functions", nfun)
    rm = repo.module("annet.rulebook")
    cls = repo.cls("annet.rulebook", "DefaultRulebookProvider")
    stores = 0
    for f in [x for x in cls.body if isinstance(x, ast.FunctionDef)]:
        for n in walk_no_nested(f):
            if isinstance(n, ast.Assign):
                for t in n.targets:
                    if isinstance(t, ast.Subscript) and "_cache" in norm(t.value):
                        stores += 1
                        v = n.value
                        bad = isinstance(v, ast.Constant) and (v.value is None or v.value is False or v.value == "")
                        c.check("C18.R8", not bad, repo.loc(rm, n), f"DefaultRulebookProvider.{f.name}/cache-store:{norm(t.value)}", f"`{norm(n)[:70]}` stores a placeholder in the cache: the next "
                                "request for the same key finds an entry and returns the placeholder (a text that could not be read the first time is `None` the second time, "
                                "and Mako fails on it) — loading then depends on the provider's history", key_text="cache-placeholder")
    c.floor("C18.R8", "provider cache stores", stores, 3)
