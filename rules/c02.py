"""C02 -- a patch never touches configuration outside the generators' ACL (structural clauses)."""
import ast

from sa.util import acl_scratch_write

from sa import guards as G
from sa.flow import GuardMap, Provenance
from sa.repo import AnchorError, call_name, calls_in, dotted, norm, walk_no_nested, kwarg
from sa.util import bind_args, calls_to, one
from rules.aclshape import ApplyAcl, PATCHING, ren_acl

ACL = "annet.annlib.rbparser.acl"


def run(c):
    c.explanation = ("Shape of the ACL application in the diff pipeline, decided with guard algebra and reaching definitions on "
                     "annlib/patching.py, the ACL parameter scheme table, and the table of every make_diff call site in the repository.")
    c.decides = ("every ACL of the list reaches apply_acl_diff; unmatched rows are dropped; REMOVED becomes AFFECTED under "
                 "all(cant_delete); cant_delete default and uniters; device call sites pass both ACLs; old/new filtered by the same ACL")
    c.does_not_decide = "ACL coverage of command text produced by logic functions; untouched neighbours on all inputs"
    r1(c)
    r2(c)
    r3(c)
    r4(c)
    r5(c)
    r6(c)
    r7(c)
    r8(c)
    r9(c)
    r10(c)


def r6(c):
    """the combined ACL must be the union of the generators' own ACLs: each ACL text normalised on its own and tagged"""
    from rules import c10
    c10.r4(c, rid="C02.R6")


def r1(c):
    repo = c.repo
    c.rule("C02.R1", "in make_diff every non-None element of acl_rules_list is applied: diff = apply_acl_diff(diff, acl_rules) inside a loop "
                     "without break/continue/return, guarded only by the None test; the filtered diff is what mark_unchanged receives and what is returned")
    m = repo.module(PATCHING)
    fn = repo.func(PATCHING, "make_diff")
    c.count("functions")
    pn = [a.arg for a in fn.args.args]
    if len(pn) < 4:
        raise AnchorError("make_diff signature changed")
    lst = pn[3]
    pv0 = Provenance(fn)
    loops = [st for st in walk_no_nested(fn) if isinstance(st, ast.For) and pv0.iteration_bases(st.iter)[0] == {lst}]
    if len(loops) != 1 or not isinstance(loops[0].target, ast.Name):
        c.violated("C02.R1", repo.loc(m, fn), "make_diff/acl-loop", f"no single loop over `{lst}`: some ACLs of the list are not applied", key_text="no-loop")
        return
    loop = loops[0]
    var = loop.target.id
    gm = GuardMap(fn)
    calls = [x for x in calls_in(loop) if call_name(x).split(".")[-1] == "apply_acl_diff"]
    abrupt = [n for n in walk_no_nested(loop) if isinstance(n, (ast.Break, ast.Return))]
    c.check("C02.R1", not abrupt, repo.loc(m, abrupt[0] if abrupt else loop), "make_diff/acl-loop/no-exit",
            f"`{norm(abrupt[0]) if abrupt else ''}` inside the ACL loop: later ACLs of the list are skipped", key_text="loop-exit")
    if len(calls) != 1:
        c.violated("C02.R1", repo.loc(m, loop), "make_diff/apply_acl_diff", "apply_acl_diff is not called exactly once per list element", key_text="call-count")
        return
    call = calls[0]
    env = G.GuardEnv()
    f = gm.formula(call, env)
    none_atom = G.Atom(f"{var} is None")
    # a filter on the iterable (filter(lambda r: r is not None, ...), a comprehension `if`) is part of the guard
    for flt in pv0.iteration_bases(loop.iter)[1]:
        if isinstance(flt, ast.Lambda) and flt.args.args:
            from sa import symexec
            f = G.And(f, G.formula(symexec.subst(flt.body, {flt.args.args[0].arg: ast.Name(id=var, ctx=ast.Load())}), env))
        elif isinstance(flt, ast.Constant) and flt.value is None:
            f = G.And(f, G.Atom(var))
        else:
            f = G.And(f, G.Atom("filter:" + norm(flt)[:40]))
    ok = G.equivalent(f, G.Not(none_atom)) or G.equivalent(f, G.Atom(var)) or f == G.T
    c.check("C02.R1", ok, repo.loc(m, call), "make_diff/apply_acl_diff/guard", f"apply_acl_diff runs only under {G.show(f)}; expected: for every non-None ACL",
            key_text="guard")
    ok = len(call.args) >= 2 and isinstance(call.args[1], ast.Name) and call.args[1].id == var
    c.check("C02.R1", ok, repo.loc(m, call), "make_diff/apply_acl_diff/rules", "the ACL applied is not the loop's current element", key_text="arg")
    # assignment back and flow to return
    pv = Provenance(fn)
    rets = [n for n in walk_no_nested(fn) if isinstance(n, ast.Return) and n.value is not None]
    if len(rets) != 1:
        raise AnchorError("make_diff: expected one return")
    oc = pv.origin_calls(rets[0].value, through_calls=True)
    names = [call_name(x).split(".")[-1] for x in oc]
    c.check("C02.R1", any(x is call for x in oc), repo.loc(m, rets[0]), "make_diff/return", "returned diff does not derive from the ACL-filtered diff", key_text="return-flow")
    # the diff argument of apply_acl_diff chains (diff = f(diff, ...)): its first arg reaches itself/previous
    a0 = call.args[0] if call.args else None
    chained = isinstance(a0, ast.Name) and any((d.kind == "assign" and d.value is call) for d in pv.rd.defs(a0))
    c.check("C02.R1", chained, repo.loc(m, call), "make_diff/apply_acl_diff/chain", "ACLs are not applied one after another to the same diff (result of one application is not the input of the next)",
            key_text="chain")
    mu = [x for x in oc if call_name(x).split(".")[-1] == "mark_unchanged"]
    ok = bool(mu) and any(x is call for x in pv.origin_calls(mu[0].args[0], through_calls=True)) if mu and mu[0].args else False
    c.check("C02.R1", ok, repo.loc(m, rets[0]), "make_diff/mark_unchanged", "mark_unchanged does not receive the ACL-filtered diff", key_text="mark-flow")


def r2(c):
    repo = c.repo
    c.rule("C02.R2", "apply_acl_diff appends an item only under a truthy match of match_row_to_acl(row, rules); children are filtered recursively "
                     "with the children_rules of that match; a REMOVED item whose match has all(cant_delete) is appended as AFFECTED")
    m = repo.module(PATCHING)
    fn = repo.func(PATCHING, "apply_acl_diff")
    c.count("functions")
    gm = GuardMap(fn)
    pv = Provenance(fn)
    env = G.GuardEnv(rename=ren_acl)
    loop = [st for st in fn.body if isinstance(st, ast.For)]
    if len(loop) != 1 or not isinstance(loop[0].target, ast.Tuple) or len(loop[0].target.elts) != 4:
        raise AnchorError("apply_acl_diff: loop `for (op,row,children,d_match) in diff` not found")
    loop = loop[0]
    op_v, row_v, ch_v, dm_v = [e.id for e in loop.target.elts]
    abrupt = [n for n in walk_no_nested(loop) if isinstance(n, (ast.Break, ast.Return))]
    c.check("C02.R2", not abrupt, repo.loc(m, abrupt[0] if abrupt else loop), "apply_acl_diff/no-exit", "loop over the diff exits early", key_text="loop-exit")
    apps = [x for x in calls_in(fn) if isinstance(x.func, ast.Attribute) and x.func.attr in ("append", "extend", "insert")]
    if len(apps) != 1 or apps[0].func.attr != "append" or not apps[0].args or not isinstance(apps[0].args[0], ast.Tuple) or len(apps[0].args[0].elts) != 4:
        raise AnchorError("apply_acl_diff: single `passed.append((op,row,children,d_match))` not found")
    app = apps[0]
    mc = one([x for x in calls_in(fn) if call_name(x).split(".")[-1] == "match_row_to_acl"], "match_row_to_acl call in apply_acl_diff")
    mname = crname = None
    for n in walk_no_nested(fn):
        if isinstance(n, ast.Assign) and n.value is mc and isinstance(n.targets[0], ast.Tuple) and len(n.targets[0].elts) == 2:
            mname, crname = n.targets[0].elts[0].id, n.targets[0].elts[1].id
    if not mname:
        raise AnchorError("apply_acl_diff: match unpacking not found")

    def ren(s):
        s = ren_acl(s)
        s = s.replace(f"{mname}['is_reverse']", "is_reverse")
        if s == f"all({mname}['attrs']['cant_delete'])":
            return "all_cant_delete"
        if s == f"any({mname}['attrs']['cant_delete'])":
            return "any_cant_delete"
        if s in (f"{op_v} == Op.REMOVED", f"Op.REMOVED == {op_v}"):
            return "op_removed"
        if s == mname:
            return "match"
        return s
    env = G.GuardEnv(rename=ren)
    f = gm.formula(app, env)
    c.check("C02.R2", G.implies(f, G.Atom("match")), repo.loc(m, app), "apply_acl_diff/append/guard",
            f"diff item is kept under {G.show(f)}; it must imply that the row matches the ACL", key_text="append-guard")
    ok = isinstance(mc.args[0], ast.Name) and mc.args[0].id == row_v and len(mc.args) >= 2 and isinstance(mc.args[1], ast.Name) and mc.args[1].id == fn.args.args[1].arg
    c.check("C02.R2", ok, repo.loc(m, mc), "apply_acl_diff/match-args", "match_row_to_acl is not called with the item's row and the function's rules", key_text="match-args")
    e_op, e_row, e_ch, e_dm = app.args[0].elts
    # op element
    rewrites = [(k, n) for k, n in pv.origins(e_op, through_calls=False) if k == "attr" and norm(n) == "Op.AFFECTED"]
    keeps = [n for k, n in pv.origins(e_op, through_calls=False) if k == "for"]
    if not rewrites:
        c.violated("C02.R2", repo.loc(m, app), "apply_acl_diff/cant_delete-rewrite",
                   "no REMOVED->AFFECTED rewrite reaches the appended item: rows covered only by cant_delete rules would be removed", key_text="rewrite-absent")
    else:
        for _, node in rewrites:
            # the guard of the statement/expression producing Op.AFFECTED
            holder = node
            ff = gm.formula(holder, env)
            spec_all = G.And(G.Atom("match"), G.Atom("op_removed"), G.Atom("all_cant_delete"))
            spec_any = G.And(G.Atom("match"), G.Atom("op_removed"), G.Atom("any_cant_delete"))
            ok = G.implies(spec_all, ff) or G.implies(spec_any, ff)
            c.check("C02.R2", ok, repo.loc(m, node), "apply_acl_diff/cant_delete-rewrite",
                    f"REMOVED->AFFECTED rewrite happens under {G.show(ff)}; expected match ∧ op==REMOVED ∧ all(cant_delete)", key_text="rewrite-guard")
        c.check("C02.R2", bool(keeps), repo.loc(m, app), "apply_acl_diff/op-kept", "the original op of the item never reaches the appended tuple", key_text="op-kept")
    # children element
    rec = [x for x in pv.origin_calls(e_ch, through_calls=False) if call_name(x) == "apply_acl_diff"]
    ok = bool(rec) and len(rec[0].args) >= 2 and isinstance(rec[0].args[1], ast.Name) and rec[0].args[1].id == crname
    if ok:
        a0 = rec[0].args[0]
        ok = isinstance(a0, ast.Name) and any(d.kind in ("for", "unpack") and d.stmt is loop for d in pv.rd.defs(a0))
    c.check("C02.R2", ok, repo.loc(m, app), "apply_acl_diff/children", "children are not filtered recursively with the children rules of this row's match", key_text="children")
    for e, v in ((e_row, row_v), (e_dm, dm_v)):
        ok = isinstance(e, ast.Name) and e.id == v and all(d.stmt is loop for d in pv.rd.defs(e))
        c.check("C02.R2", ok, repo.loc(m, app), f"apply_acl_diff/item.{v}", f"appended `{norm(e)}` is not the item's own `{v}`", key_text=f"elt-{v}")


def r3(c):
    repo = c.repo
    c.rule("C02.R3", "apply_acl stores a row only when it matched and is not (a negated form governed only by cant_delete rules); the only store into the "
                     "result is passed[row] = apply_acl(children, children_rules, ...)")
    A = ApplyAcl(repo)
    c.count("functions")
    m = A.mod
    stores = [s for s in A.stores if s[1] is not None]
    others = [s for s in A.stores if s[1] is None]
    c.check("C02.R3", len(stores) == 1 and not others, repo.loc(m, A.fn), "apply_acl/stores",
            f"{len(stores)} subscript stores and {len(others)} other writes into the result (expected exactly one store)", key_text="store-count")
    if not stores:
        return
    st, tg = stores[0]

    def ren(s):
        s = ren_acl(s)
        if s == A.match_name:
            return "match"
        s2 = s.replace(f"{A.match_name}[", "match[")
        return ren_acl(s2)
    env = G.GuardEnv(rename=ren)
    f = A.gm.formula(st, env)
    spec = G.And(G.Atom("match"), G.Not(G.And(G.Atom("is_reverse"), G.Atom("all_cant_delete"))))
    c.check("C02.R3", G.implies(f, spec), repo.loc(m, st), "apply_acl/store/guard",
            f"row stored under {G.show(f)}; this must imply match ∧ ¬(is_reverse ∧ all(cant_delete))", key_text="store-guard")


def r4(c):
    repo = c.repo
    c.rule("C02.R4", "every call of make_diff is classified: device paths (api._diff_and_patch, diff.worker) pass a list containing the device ACL and the "
                     "filter ACL; file/score paths pass [] by design; gen._old_new_per_device filters old and new with the same ACL under one guard")
    table = {
        ("annet.api", "_diff_and_patch"): "device",
        ("annet.diff", "worker"): "device",
        ("annet.api", "_read_old_new_diff_patch"): "file",
        ("annet.api", "guess_hw"): "score",
        ("annet.diff", "FrrFileDiffer._diff_frr_conf"): "file",
    }
    seen = set()
    n = 0
    for m, q, fn in repo.all_functions(canon=True):
        for call in calls_in(fn):
            if call_name(call).split(".")[-1] != "make_diff":
                continue
            r = repo.resolve_call(m, call)
            if r is not None and r[1] != "make_diff":
                continue
            if repo.enclosing_func(call) is not fn:
                continue
            n += 1
            kind = table.get((m.name, q))
            seen.add((m.name, q))
            arg = call.args[3] if len(call.args) > 3 else kwarg(call, "acl_rules_list")
            if isinstance(arg, ast.Name):
                arg = Provenance(fn).resolve_alias(arg)
            at = repo.loc(m, call)
            if kind is None:
                # a helper of a confirmed call site: its body is analysed where the canonicaliser inlined it (all of its callers are confirmed sites of this module)
                callers = set()
                for q2, f2 in m.defs.items():
                    if isinstance(f2, ast.FunctionDef) and f2 is not m.defs.get(q):
                        for x2 in calls_in(f2):
                            r2 = repo.resolve_call(m, x2)
                            if r2 and r2[2] is m.defs.get(q):
                                callers.add((m.name, q2))
                inlined = bool(callers) and all(k in table for k in callers) and all(
                    not any(call_name(x3).split(".")[-1] == q.split(".")[-1] for x3 in calls_in(repo.func(k[0], k[1]))) for k in callers)
                if inlined:
                    n -= 1
                    continue
                c.notes.append(f"UNCLASSIFIED make_diff call site {m.name}:{q} at {at} (ACL list: {norm(arg) if arg is not None else '?'})")
                c.undecided("C02.R4", at, f"{m.name}:{q}", "make_diff call site not in the confirmed table (new fact to read)")
                continue
            if kind == "device":
                ok = isinstance(arg, ast.List) and len(arg.elts) >= 2
                if ok:
                    txt = [norm(e) for e in arg.elts]
                    ok = any("filter_acl_rules" in t for t in txt) and any(t == "acl_rules" for t in txt)
                    if ok:
                        # acl_rules must be the device's ACL: a parameter, or res.get_acl_rules(...)
                        pv = Provenance(fn)
                        e = [e for e in arg.elts if norm(e) == "acl_rules"][0]
                        src = pv.origins(e, through_calls=False)
                        ok = any(k == "param" for k, _ in src) or any(k == "call" and call_name(x).endswith("get_acl_rules") for k, x in src)
                c.check("C02.R4", ok, at, f"{m.name}:{q}/make_diff(acl_rules_list)",
                        f"device path passes `{norm(arg) if arg is not None else '?'}` — must contain the device's acl_rules and filter_acl_rules", key_text="device-acls")
            else:
                ok = isinstance(arg, ast.List) and not arg.elts
                c.check("C02.R4", ok, at, f"{m.name}:{q}/make_diff(acl_rules_list)", f"{kind} path expected to pass [] (recorded design), passes `{norm(arg) if arg is not None else '?'}`",
                        key_text="file-acls")
    c.count("call_sites", n)
    missing = [k for k in table if k not in seen]
    if missing:
        raise AnchorError(f"C02.R4: confirmed make_diff call sites vanished: {missing}")
    # sibling agreement in gen._old_new_per_device
    g = repo.module("annet.gen")
    fn = repo.func("annet.gen", "_old_new_per_device")
    gm = GuardMap(fn)
    calls = [x for x in calls_in(fn) if call_name(x).split(".")[-1] == "apply_acl" and len(x.args) >= 2 and norm(x.args[1]) == "acl_rules"]
    firsts = {norm(x.args[0]) for x in calls}
    ok = {"old", "new"} <= firsts
    c.check("C02.R4", ok, repo.loc(g, fn), "gen._old_new_per_device/apply_acl(old|new, acl_rules)",
            f"old and new are not both filtered by the combined generator ACL (filtered: {sorted(firsts)})", key_text="gen-sibling")
    if ok:
        env = G.GuardEnv()
        fo = [gm.formula(x, G.GuardEnv()) for x in calls if norm(x.args[0]) == "old"][0]
        fnw = [gm.formula(x, G.GuardEnv()) for x in calls if norm(x.args[0]) == "new"][0]
        # `old and apply_acl(old, ...)` adds the truthiness of old; ignore that atom
        fo_ = G.And(*[g_ for g_ in (fo[1:] if fo[0] == "and" else [fo]) if g_ != G.Atom("old")])
        c.check("C02.R4", G.equivalent(fo_, fnw), repo.loc(g, calls[0]), "gen._old_new_per_device/acl-guards",
                f"old filtered under {G.show(fo_)} but new under {G.show(fnw)}", key_text="gen-guards")


def r5(c):
    repo = c.repo
    c.rule("C02.R5", "ACL parameter scheme: cant_delete.default is a function of the raw rule returning a one-element list of "
                     "raw_rule.startswith(<prefix of 'interface'>); cant_delete and generator_names uniters are list concatenation (flags stay aligned "
                     "with names); prio uniter is max")
    m = repo.module(ACL)
    d = m.toplevel_assign("_PARAMS_SCHEME")
    if not isinstance(d, ast.Dict):
        raise AnchorError("_PARAMS_SCHEME dict literal not found")
    scheme = {}
    for k, v in zip(d.keys, d.values):
        if isinstance(k, ast.Constant) and isinstance(v, ast.Dict):
            scheme[k.value] = {kk.value: vv for kk, vv in zip(v.keys, v.values) if isinstance(kk, ast.Constant)}
    for need in ("cant_delete", "generator_names", "prio", "global"):
        if need not in scheme:
            raise AnchorError(f"_PARAMS_SCHEME lacks {need}")
    c.count("tables", 1)

    def is_concat(e):
        return isinstance(e, ast.Lambda) and len(e.args.args) == 2 and isinstance(e.body, ast.BinOp) and isinstance(e.body.op, ast.Add) \
            and {norm(e.body.left), norm(e.body.right)} == {e.args.args[0].arg, e.args.args[1].arg} and norm(e.body.left) == e.args.args[0].arg
    from sa.util import as_lambda
    for k_ in scheme:
        for f_ in ("default", "uniter"):
            if f_ in scheme[k_] and as_lambda(repo, m, scheme[k_][f_]) is not None:
                scheme[k_][f_] = as_lambda(repo, m, scheme[k_][f_])
    dflt = scheme["cant_delete"].get("default")
    ok = False
    detail = "default is not `lambda raw_rule: [raw_rule.startswith(...)]`"
    if isinstance(dflt, ast.Lambda) and len(dflt.args.args) == 1 and isinstance(dflt.body, ast.List) and len(dflt.body.elts) == 1:
        e = dflt.body.elts[0]
        if isinstance(e, ast.Call) and isinstance(e.func, ast.Attribute) and e.func.attr == "startswith" and isinstance(e.func.value, ast.Name) \
                and e.func.value.id == dflt.args.args[0].arg and e.args and isinstance(e.args[0], ast.Constant) and isinstance(e.args[0].value, str):
            pfx = e.args[0].value
            ok = bool(pfx) and "interface".startswith(pfx)
            detail = f"built-in cant_delete default tests startswith({pfx!r}): rows `interface`/`interfaces ...` without an explicit flag lose (or rows not about interfaces gain) the protection"
    c.check("C02.R5", ok, repo.loc(m, dflt or d), "_PARAMS_SCHEME/cant_delete.default", detail, key_text="cant_delete-default")
    for k in ("cant_delete", "generator_names"):
        u = scheme[k].get("uniter")
        c.check("C02.R5", u is not None and is_concat(u), repo.loc(m, u or d), f"_PARAMS_SCHEME/{k}.uniter",
                f"uniter of {k} is `{norm(u) if u is not None else None}`; must be `a + b` so that flags stay aligned with generator names", key_text=f"uniter-{k}")
    u = scheme["prio"].get("uniter")
    c.check("C02.R5", isinstance(u, ast.Name) and u.id == "max", repo.loc(m, u or d), "_PARAMS_SCHEME/prio.uniter", "prio uniter is not max", key_text="uniter-prio")


def r7(c):
    """which rule governs a row must not depend on the rows matched before it: the compiled ACL is shared (lru_cache) between all rows, devices and runs of the process"""
    from sa.effects import Effects
    repo = c.repo
    c.rule("C02.R7", "the ACL matching functions do not write into the compiled ACL they are given: _select_match and match_row_to_acl mutate nothing reachable from their "
                     "`matches` / `rules` arguments (children rules of several matches are merged into fresh dicts), and _find_acl_matches writes only the exempt scratch field "
                     "['attrs']['match'] — a rule grafted onto another rule's children would make later rows covered by rules no generator placed there")
    m = repo.module(PATCHING)
    eff = Effects(repo, mode="contents", max_depth=6)
    for q in ("_select_match", "match_row_to_acl", "_find_acl_matches"):
        fn = repo.func(PATCHING, q)
        c.count("functions")
        mut = eff.mutated_params(m, q, fn)
        bad = []
        for p, sites in mut.items():
            for s_ in sites:
                wn = s_.root[3]
                scratch = acl_scratch_write(repo, wn)
                if not scratch:
                    bad.append((p, s_))
        if bad:
            p, s_ = bad[0]
            c.violated("C02.R7", f"{repo.module(s_.root[0]).rel}:{getattr(s_.root[3], 'lineno', 0)}", f"{q}({p})", f"{s_.how[:90]} writes into the compiled ACL reached through `{p}`: "
                       "the children rules of one ACL rule are changed for every later row (and device) matched against the same cached ACL", key_text=f"acl-write:{p}")
        else:
            c.holds("C02.R7", repo.loc(m, fn), q, "no write into the compiled ACL")


def r8(c):
    repo = c.repo
    c.rule("C02.R8", "ACL rows are matched as written: rbparser.acl._compile_acl compiles the direct and the reverse pattern of every ACL rule with compile_row_regexp(<row>) and no "
                     "flags (case-sensitive for every vendor) — with IGNORECASE a rule naming one object (`ip vpn-instance MGMT`) would also cover a foreign object whose name differs "
                     "only in letter case, and the patch would remove it")
    m = repo.module(ACL)
    fn = repo.func(ACL, "_compile_acl")
    c.count("functions")
    calls = [x for x in calls_in(fn) if call_name(x).split(".")[-1] == "compile_row_regexp"]
    c.floor("C02.R8", "compile_row_regexp calls in _compile_acl", len(calls), 2)
    pv = Provenance(fn)
    for x in calls:
        fl = x.args[1] if len(x.args) > 1 else kwarg(x, "flags")
        v = pv.resolve_alias(fl) if fl is not None else None
        ok = fl is None or (isinstance(v, ast.Constant) and v.value == 0)
        c.check("C02.R8", ok, repo.loc(m, x), f"_compile_acl/{norm(x.args[0])[:40] if x.args else '?'}", f"ACL pattern compiled with flags `{norm(fl) if fl is not None else ''}`: rows differing from the rule "
                "only in what the flag ignores are covered too", key_text="acl-flags")


def r9(c):
    """which rule governs a row is decided from the row and the ACL handed in, every time"""
    from rules.c20 import hidden_state_sites, module_level_names
    repo = c.repo
    c.rule("C02.R9", "ACL matching keeps no memory: the functions that decide which ACL rule governs a row (apply_acl, apply_acl_diff, match_row_to_acl, _find_acl_matches, "
                     "_select_match and the same-module helpers they call) write no module-level or class-level state — a remembered (row -> rule) answer is served to another "
                     "device / generator set whose ACL merely looks alike at that level (same rule texts, other children, flags or vendor), and the patch then removes or keeps "
                     "lines by someone else's ACL")
    m = repo.module(PATCHING)
    roots = ["apply_acl", "apply_acl_diff", "match_row_to_acl", "_find_acl_matches", "_select_match"]
    seen, todo = {}, [q for q in roots if q in m.defs]
    if len(todo) < 4:
        raise AnchorError("C02.R9: ACL matching functions not found in annlib.patching")
    while todo:
        q = todo.pop()
        if q in seen or not isinstance(m.defs.get(q), ast.FunctionDef):
            continue
        seen[q] = m.defs[q]
        for x in calls_in(m.defs[q]):
            r_ = repo.resolve_call(m, x)
            if r_ and r_[0] is m and isinstance(r_[2], ast.FunctionDef) and r_[1] not in seen:
                todo.append(r_[1])
    c.count("functions", len(seen))
    sites = hidden_state_sites(m.tree, list(seen.values()), module_level_names(m.tree))
    for node, what in sites:
        c.violated("C02.R9", repo.loc(m, node), f"patching:{what}", f"{what}: ACL decisions survive from one call to the next", key_text=what)
    if not sites:
        c.holds("C02.R9", m.rel, "patching/acl-matching-stateless", f"{len(seen)} functions ({', '.join(sorted(seen))[:120]}) write no module-level state")


def r10(c):
    repo = c.repo
    c.rule("C02.R10", "only the operator switches the ACL off: in gen._old_new_per_device the branch that compiles the generators' combined ACL and filters old / new with it is "
                      "taken exactly when `not ctx.args.no_acl` — no further condition (presence of partial results, emptiness of the new config). With acl_rules left at None the "
                      "later stages behave as under --no-acl, and a device for which no selected generator produced anything gets its whole configuration removed although the "
                      "combined ACL is empty")
    g = repo.module("annet.gen")
    fn = repo.func("annet.gen", "_old_new_per_device")
    c.count("functions")
    gm = GuardMap(fn)
    comp = [n for n in walk_no_nested(fn) if isinstance(n, ast.Assign) and isinstance(n.value, ast.Call) and call_name(n.value).split(".")[-1] == "compile_acl_text"
            and "acl_text" in norm(n.value) and "_safe" not in norm(n.targets[0])]
    if not comp:
        raise AnchorError("_old_new_per_device: compilation of the combined ACL (compile_acl_text(res.acl_text(), ...)) not found")
    st = comp[0]
    holder = getattr(st, "_parent", None)
    while holder is not None and not isinstance(holder, ast.If):
        holder = getattr(holder, "_parent", None)
    ok = isinstance(holder, ast.If)
    shown = ""
    if ok:
        f = G.formula(holder.test, G.GuardEnv(rename=lambda s_: "no_acl" if s_.replace(" ", "") in ("ctx.args.no_acl", "args.no_acl") else s_))
        shown = G.show(f)
        ok = G.equivalent(f, G.Not(G.Atom("no_acl")))
    c.check("C02.R10", ok, repo.loc(g, holder or st), "_old_new_per_device/acl-step-guard", f"the ACL step runs under `{shown}`; expected exactly `not ctx.args.no_acl`", key_text="acl-guard")
