"""C05 -- indented text is parsed by the offside rule and bad indentation is refused (structural clauses)."""
import ast

from sa import guards as G
from sa.flow import GuardMap, Provenance
from sa.repo import ordk, AnchorError, call_name, calls_in, dotted, norm, walk_no_nested, kwarg

TAB = "annet.annlib.tabparser"


def cmp_under(test: ast.AST, a: str, b: str, order: str):
    """evaluate a test that compares names a and b (and/or/not, len(x) truthiness unknown) under the ordering a<b / a==b / a>b;
    returns True/False/None(unknown)"""
    if isinstance(test, ast.BoolOp):
        vals = [cmp_under(v, a, b, order) for v in test.values]
        if isinstance(test.op, ast.And):
            if any(v is False for v in vals):
                return False
            return True if all(v is True for v in vals) else None
        if any(v is True for v in vals):
            return True
        return False if all(v is False for v in vals) else None
    if isinstance(test, ast.UnaryOp) and isinstance(test.op, ast.Not):
        v = cmp_under(test.operand, a, b, order)
        return None if v is None else (not v)
    if isinstance(test, ast.Compare) and len(test.ops) == 1:
        l, r = norm(test.left), norm(test.comparators[0])
        if {l, r} != {a, b}:
            return None
        o = order if l == a else {"<": ">", ">": "<", "==": "=="}[order]
        op = test.ops[0]
        table = {ast.Lt: o == "<", ast.LtE: o in ("<", "=="), ast.Gt: o == ">", ast.GtE: o in (">", "=="), ast.Eq: o == "==", ast.NotEq: o != "=="}
        return table.get(type(op))
    return None


def _top_normalised(fn):
    """two representations of the open blocks are in use: a stack of indent *increments* with a running current level, or a stack of the block *columns* whose top is the current
    level.  For the second one `indents[-1] if indents else 0` (and `indents and indents[-1] > x`, `indents[-1]` under a non-empty test) IS the current level: rewrite it to the
    name the clauses are stated over.  Returns (function copy, 'REP_INC' | 'REP_ABS')."""
    import copy as _copy
    S, CUR = "indents", "curr_level"

    def is_top(e):
        return isinstance(e, ast.Subscript) and isinstance(e.value, ast.Name) and e.value.id == S and norm(e.slice) in ("-1", "len(indents) - 1")
    has_abs = any(isinstance(n, ast.IfExp) and isinstance(n.test, ast.Name) and n.test.id == S and is_top(n.body) and isinstance(n.orelse, ast.Constant) and n.orelse.value == 0
                  for n in ast.walk(fn))
    maintained = any(isinstance(n, ast.AugAssign) and norm(n.target) == CUR for n in ast.walk(fn))
    if not has_abs or maintained:
        return fn, "REP_INC"

    class T(ast.NodeTransformer):
        def visit_IfExp(self, n):
            self.generic_visit(n)
            if isinstance(n.test, ast.Name) and n.test.id == S and (is_top(n.body) or (isinstance(n.body, ast.Name) and n.body.id == CUR)) and isinstance(n.orelse, ast.Constant) and n.orelse.value == 0:
                return ast.copy_location(ast.Name(id=CUR, ctx=ast.Load()), n)
            return n

        def visit_BoolOp(self, n):
            self.generic_visit(n)
            if isinstance(n.op, ast.And) and any(isinstance(v, ast.Name) and v.id == S for v in n.values):
                rest = [v for v in n.values if not (isinstance(v, ast.Name) and v.id == S)]
                if rest and all(any(isinstance(x, ast.Name) and x.id == CUR for x in ast.walk(v)) for v in rest):
                    # `indents and top > level`: with level >= 0 (refused before) top > level already implies a non-empty stack
                    return rest[0] if len(rest) == 1 else ast.copy_location(ast.BoolOp(op=ast.And(), values=rest), n)
            return n

        def visit_Subscript(self, n):
            self.generic_visit(n)
            if is_top(n) and isinstance(n.ctx, ast.Load):
                return ast.copy_location(ast.Name(id=CUR, ctx=ast.Load()), n)
            return n
    new = T().visit(_copy.deepcopy(fn))
    # `curr_level = curr_level` left over from `curr_level = indents[-1] if indents else 0`
    for parent in ast.walk(new):
        for fld in ("body", "orelse", "finalbody"):
            seq = getattr(parent, fld, None)
            if isinstance(seq, list):
                seq[:] = [st for st in seq if not (isinstance(st, ast.Assign) and norm(st.targets[0]) == CUR and norm(st.value) == CUR)] or ([ast.Pass()] if seq and isinstance(seq[0], ast.stmt) else seq)
    ast.fix_missing_locations(new)
    for node in ast.walk(new):
        for ch in ast.iter_child_nodes(node):
            ch._parent = node
    from sa.canon import number_nodes
    number_nodes(new)
    return new, "REP_ABS"


def run(c):
    c.explanation = ("Shape of the offside parser decided on the AST of annlib/tabparser.py: the refusal tests of _stripped_indents are evaluated under the three possible orderings "
                     "of (curr_level, level) — the values are touched only through comparisons — the comment/blank filter and the '#'-at-column-0 reset are checked with guard "
                     "algebra and provenance, and the tree construction for duplicate keys.")
    c.decides = ("a dedent pops while the current level is deeper and is refused unless it lands exactly on an enclosing level; a negative top indent is refused before anything is "
                 "yielded; push/pop pairing of the indent stack; comment and blank lines never become rows; the Huawei '#' section break is recognised at column 0 only; duplicates merge")
    c.does_not_decide = "equality of the tree with a reference offside parser for all texts (level arithmetic of _stacked is value-level)"
    r1(c)
    r2(c)
    r3(c)


def r1(c):
    repo = c.repo
    c.rule("C05.R1", "_stripped_indents: (a) a line with a negative indent relative to the first line raises ParserError before the yield; (b) in the dedent arm the stack is popped "
                     "while curr_level > level, and afterwards ParserError is raised unless curr_level == level — decided by evaluating the loop test and the refusal test under "
                     "the orderings curr_level <, ==, > level; (c) the indent arm pushes level - curr_level onto the same stack the dedent arm pops from; (d) one yield per string line "
                     "with len(indents) as depth")
    m = repo.module(TAB)
    fn = repo.func(TAB, "_stripped_indents")
    c.count("functions")
    fn, rep = _top_normalised(fn)
    gm = GuardMap(fn)
    ys = [n for n in walk_no_nested(fn) if isinstance(n, ast.Yield)]
    if len(ys) != 1:
        raise AnchorError("_stripped_indents: single yield not found")
    y = ys[0]
    f = gm.formula(y)
    ok = G.implies(f, G.Not(G.Atom("level < 0")))
    raises = [n for n in walk_no_nested(fn) if isinstance(n, ast.Raise) and "ParserError" in norm(n)]
    c.check("C05.R1", ok and len(raises) >= 2, repo.loc(m, y), "_stripped_indents/negative-indent-refused", f"a line is yielded under {G.show(f)}, which does not exclude level < 0: text whose "
            "indentation goes left of the first line is attached somewhere instead of being rejected", key_text="negative")
    # the arms
    arms = None
    for n in walk_no_nested(fn):
        if isinstance(n, ast.If) and cmp_under(n.test, "level", "curr_level", ">") is True and cmp_under(n.test, "level", "curr_level", "==") is False and n.orelse:
            arms = n
    if arms is None:
        raise AnchorError("_stripped_indents: indent/dedent if-elif not found")
    ded = arms.orelse[0] if isinstance(arms.orelse[0], ast.If) else None
    ok = ded is not None and cmp_under(ded.test, "level", "curr_level", "<") is True and cmp_under(ded.test, "level", "curr_level", "==") is False
    c.check("C05.R1", ok, repo.loc(m, arms), "_stripped_indents/dedent-arm", "no arm handles level < curr_level", key_text="dedent-arm")
    if not ok:
        return
    loops = [n for n in ded.body if isinstance(n, ast.While)]
    ok = len(loops) == 1
    if ok:
        w = loops[0]
        t_gt, t_eq, t_lt = (cmp_under(w.test, "curr_level", "level", o) for o in (">", "==", "<"))
        # keeps popping while deeper (True or depends on the stack only), stops once not deeper
        ok = t_gt in (True, None) and t_eq is False and t_lt is False
        pops = [x for x in calls_in(w) if isinstance(x.func, ast.Attribute) and x.func.attr == "pop" and norm(x.func.value) == "indents"]
        dec = [n for n in walk_no_nested(w) if isinstance(n, ast.AugAssign) and isinstance(n.op, ast.Sub) and norm(n.target) == "curr_level"]
        if rep == "REP_ABS":
            # the stack holds the columns themselves: the current level is its top, a plain pop is the whole step
            ok = ok and len(pops) == 1 and not dec and not pops[0].args
        else:
            ok = ok and len(pops) == 1 and len(dec) == 1 and any(x is pops[0] for x in ast.walk(dec[0]))
    c.check("C05.R1", ok, repo.loc(m, ded), "_stripped_indents/pop-loop", "the dedent loop does not pop exactly the pushed amounts while curr_level > level", key_text="pop-loop")
    after = [n for n in ded.body if isinstance(n, ast.If) and loops and ordk(n) > ordk(loops[0]) and any(isinstance(x, ast.Raise) for x in ast.walk(n))]
    ok = len(after) == 1
    detail = "no refusal test after the pop loop"
    if ok:
        t = after[0].test
        lt, eq = cmp_under(t, "curr_level", "level", "<"), cmp_under(t, "curr_level", "level", "==")
        ok = lt is True and eq is False and isinstance(after[0].body[-1], ast.Raise)
        detail = f"after popping, `{norm(t)}` is {lt} when curr_level < level and {eq} when curr_level == level"
    c.check("C05.R1", ok, repo.loc(m, after[0] if after else ded), "_stripped_indents/inconsistent-dedent-refused",
            f"{detail}: a dedent to a column no enclosing block started at must raise ParserError (after the loop curr_level <= level, so the test must be true exactly when they differ)",
            key_text="refusal")
    push = [x for x in calls_in(arms) if isinstance(x.func, ast.Attribute) and x.func.attr == "append" and norm(x.func.value) == "indents"
            and not any(x is y_ for y_ in ast.walk(ded))]
    ok = len(push) == 1 and norm(push[0].args[0]).replace(" ", "") == ("level" if rep == "REP_ABS" else "level-curr_level")
    c.check("C05.R1", ok, repo.loc(m, arms), "_stripped_indents/push", "the indent arm does not push level - curr_level", key_text="push")
    ok = isinstance(y.value, ast.Tuple) and norm(y.value.elts[0]) == "len(indents)" and any("isinstance(line, str)" in a for a in G.atoms(f))
    c.check("C05.R1", ok, repo.loc(m, y), "_stripped_indents/yield", "the depth yielded is not len(indents), or non-string markers are yielded as rows", key_text="yield")
    # the base offset of a section is fixed by its first line: g_level is (re)bound to a line's indent only while it is still None
    fixes = [n for n in walk_no_nested(fn) if isinstance(n, ast.Assign) and norm(n.targets[0]) == "g_level" and not (isinstance(n.value, ast.Constant) and n.value.value is None)
             and gm.conds[id(n)]]
    okf = bool(fixes)
    for n in fixes:
        ff = gm.formula(n, G.GuardEnv(rename=lambda s_: "unset" if s_ in ("g_level is None", "None is g_level") else s_))
        okf = okf and G.implies(ff, G.Atom("unset"))
    c.check("C05.R1", okf, repo.loc(m, fixes[0] if fixes else fn), "_stripped_indents/base-fixed-by-first-line", "the base offset g_level is re-bound for a later line of the same section: "
            "a line indented less than the first line re-bases the block instead of being refused (the level < 0 test can no longer fire)", key_text="base-offset")
    resets = [n for n in walk_no_nested(fn) if isinstance(n, ast.Assign) and norm(n.targets[0]) in ("indents", "curr_level", "g_level") and gm.conds[id(n)]
              and G.implies(gm.formula(n, G.GuardEnv(rename=lambda s_: "is_end" if s_ in ("line is BlockEnd", "BlockEnd is line") else s_)), G.Atom("is_end"))]
    c.check("C05.R1", {norm(n.targets[0]) for n in resets} == ({"indents", "g_level"} if rep == "REP_ABS" else {"indents", "curr_level", "g_level"}), repo.loc(m, fn), "_stripped_indents/reset-on-BlockEnd", "the indent stack, current level and base offset are not all reset at a section break", key_text="reset")


def r2(c):
    repo = c.repo
    c.rule("C05.R2", "_filtered_lines yields a line as a row only when its stripped form is non-empty and does not start with a comment marker; the '#' section break (BlockEnd) is "
                     "taken only when '#' is a comment marker and the *raw* line starts with '#' (column 0) — an indented '# note' is an ordinary comment")
    m = repo.module(TAB)
    fn = repo.func(TAB, "_filtered_lines")
    c.count("functions")
    gm = GuardMap(fn)
    pv = Provenance(fn)
    loop = [n for n in fn.body if isinstance(n, ast.For)]
    if len(loop) != 1 or not isinstance(loop[0].target, ast.Name):
        raise AnchorError("_filtered_lines: loop not found")
    lv = loop[0].target.id
    ys = [n for n in walk_no_nested(fn) if isinstance(n, ast.Yield)]
    row_y = [y for y in ys if isinstance(y.value, ast.Name) and y.value.id == lv]
    end_y = [y for y in ys if norm(y.value) == "BlockEnd"]
    if len(row_y) != 1 or len(end_y) != 1:
        raise AnchorError("_filtered_lines: row / BlockEnd yields not found")

    def ren(s):
        s = s.replace('"', "'")
        s = s.replace(f"{lv}.strip()", "stripped")
        if s in ("0 == len(stripped)", "len(stripped) == 0", "stripped == ''", "'' == stripped"):
            return "empty"
        if s == "stripped":
            return "nonempty"
        if s == "stripped.startswith(comments)":
            return "is_comment"
        return s
    f = gm.formula(row_y[0], G.GuardEnv(rename=ren))
    ax = G.And(G.Or(G.Atom("empty"), G.Atom("nonempty")), G.Not(G.And(G.Atom("empty"), G.Atom("nonempty"))))
    ok = G.implies(f, G.Not(G.Atom("empty")), ax) and G.implies(f, G.Not(G.Atom("is_comment")), ax)
    c.check("C05.R2", ok, repo.loc(m, row_y[0]), "_filtered_lines/row-guard", f"a line becomes a row under {G.show(f)}, which does not exclude blank and comment lines", key_text="row-guard")
    st = [n for n in walk_no_nested(fn) if isinstance(n, ast.Assign) and norm(n.targets[0]) == "stripped"]
    ok = (bool(st) and norm(st[0].value) == f"{lv}.strip()") or any(f"{lv}.strip()" in norm(t) for t, p in gm.of(row_y[0]))
    c.check("C05.R2", ok, repo.loc(m, fn), "_filtered_lines/stripped", "the comment/blank test is not made on the stripped line", key_text="stripped")
    # BlockEnd guard
    conds = gm.of(end_y[0])
    sw = None
    for t, pol in conds:
        for x in ast.walk(t):
            if isinstance(x, ast.Call) and isinstance(x.func, ast.Attribute) and x.func.attr == "startswith" and x.args and isinstance(x.args[0], ast.Constant) and x.args[0].value == "#":
                sw = x
    if sw is None:
        # the break is tested, but by equality with "#": a column-0 line that starts with '#' and carries text (`#-- next section`, `# sep`) no longer closes the open blocks
        eqs = [x for t, pol in conds for x in ast.walk(t) if isinstance(x, ast.Compare) and len(x.ops) == 1 and isinstance(x.ops[0], ast.Eq)
               and any(isinstance(y, ast.Constant) and y.value == "#" for y in [x.left] + x.comparators)]
        if eqs:
            c.check("C05.R2", False, repo.loc(m, eqs[0]), "_filtered_lines/section-break-any-#-line", f"the section break is recognised by `{norm(eqs[0])}`: only a bare `#`, not every line with "
                    "`#` in column 0, ends the open blocks and resets the common offset — the rows after `#text` are attached to the block left open (or refused for bad indentation)",
                    key_text="break-equality")
            return
        raise AnchorError("_filtered_lines: startswith('#') test of the section break not found")
    recv = sw.func.value
    raw = isinstance(recv, ast.Name) and recv.id == lv and all(d.stmt is loop[0] for d in pv.rd.defs(recv))
    c.check("C05.R2", raw, repo.loc(m, sw), "_filtered_lines/section-break-at-column-0", f"the section break is recognised by `{norm(sw)}`, not on the raw line: an indented `# comment` inside a block "
            "resets the indentation stack, and the rest of the block is attached at top level (or refused)", key_text="column0")
    fe = gm.formula(end_y[0], G.GuardEnv(rename=lambda s: s.replace('"', "'")))
    ok = any(a in ("'#' in comments",) for a in G.atoms(fe)) and G.implies(fe, G.Atom("'#' in comments"))
    c.check("C05.R2", ok, repo.loc(m, end_y[0]), "_filtered_lines/section-break-needs-marker", "the '#' reset is taken even when '#' is not a comment marker", key_text="marker")
    # "column 0" means column 0 of the text as given: the default splitter hands the lines on untouched
    sp = repo.func(TAB, "CommonFormatter.split", canon=False)
    pvs = Provenance(sp)
    tp = sp.args.args[1].arg if len(sp.args.args) > 1 else "text"
    splits = [x for x in calls_in(sp) if isinstance(x.func, ast.Attribute) and x.func.attr in ("split", "splitlines")]
    okc = bool(splits)
    for x in splits:
        rv = pvs.resolve_alias(x.func.value)
        okc = okc and isinstance(rv, ast.Name) and rv.id == tp and all(d.kind == "param" for d in pvs.rd.defs(rv))
    rewr = [x for x in calls_in(sp) if call_name(x).split(".")[-1] in ("dedent", "expandtabs", "lstrip", "strip", "indent", "replace", "sub")]
    c.check("C05.R2", okc and not rewr, repo.loc(m, (rewr or splits or [sp])[0]), "CommonFormatter.split/lines-as-given", f"the default splitter rewrites the text before cutting it into lines "
            f"(`{norm((rewr or splits or [sp])[0])[:60]}`): columns shift, so an indented `#` comment can land in column 0 and be taken for a section break (and the offside base "
            "of every section changes)", key_text="split-rewrites")


def _body_paths(stmts, cursor, key):
    """paths through a loop body made of if/assignments: -> [(conditions, final value of the cursor, stores)] with abstract values
    'self' (unchanged), 'child' (cursor[key] read back), 'created' (the object just stored under cursor[key]), 'fresh' (a new empty mapping), 'other'"""
    def fresh(e):
        return isinstance(e, ast.Call) and not e.args and not e.keywords and call_name(e) in ("odict", "dict", "OrderedDict", "collections.OrderedDict") or (isinstance(e, ast.Dict) and not e.keys)

    def val(e, env):
        if isinstance(e, ast.Name):
            return env.get(e.id, "self" if e.id == cursor else "other")
        if fresh(e):
            return "fresh"
        if isinstance(e, ast.Subscript) and isinstance(e.value, ast.Name) and env.get(e.value.id, "self" if e.value.id == cursor else None) == "self" and norm(e.slice) == key:
            return "child"
        if isinstance(e, ast.Call) and isinstance(e.func, ast.Attribute) and e.func.attr == "setdefault" and isinstance(e.func.value, ast.Name) \
                and env.get(e.func.value.id, "self" if e.func.value.id == cursor else None) == "self" and len(e.args) == 2 and norm(e.args[0]) == key:
            return "setdefault:" + ("fresh" if fresh(e.args[1]) else "other")
        return "other"
    out = []

    def run(stmts, conds, env, stores):
        for i, st in enumerate(stmts):
            if isinstance(st, ast.If):
                for pol, arm in ((True, st.body), (False, st.orelse)):
                    if not run(list(arm) + list(stmts[i + 1:]), conds + [(st.test, pol)], dict(env), list(stores)):
                        return False
                return True
            if isinstance(st, ast.Assign) and len(st.targets) == 1:
                t = st.targets[0]
                if isinstance(t, ast.Name):
                    v = val(st.value, env)
                    if v.startswith("setdefault:"):
                        stores = stores + [("setdefault", v.split(":")[1])]
                        if v.split(":")[1] != "fresh":
                            stores = stores + [("child", "other")]
                        v = "child"
                    if v == "fresh" and False:
                        pass
                    env[t.id] = v
                    continue
                if isinstance(t, ast.Subscript) and isinstance(t.value, ast.Name) and env.get(t.value.id, "self" if t.value.id == cursor else None) == "self" and norm(t.slice) == key:
                    v = val(st.value, env)
                    stores = stores + [("child", v)]
                    # names holding that value now denote the stored child
                    for nm_, vv in list(env.items()):
                        if isinstance(st.value, ast.Name) and nm_ == st.value.id:
                            env[nm_] = "created"
                    env["__stored__"] = "created"
                    continue
                return False
            if isinstance(st, (ast.Pass,)) or (isinstance(st, ast.Expr) and isinstance(st.value, (ast.Constant, ast.Name))):
                continue
            return False
        fin = env.get(cursor, "self")
        # cursor = cursor[key] read after a store on this path is the created child
        if fin == "child" and any(k_ == "child" for k_, _ in stores):
            fin = "created"
        out.append((conds, fin, stores))
        return True
    if not run(list(stmts), [], {}, []):
        return None
    return out


def r3(c):
    repo = c.repo
    c.rule("C05.R3", "parse_to_tree: walking the path of every line from the root, a key gets a fresh odict only when it is not there yet (`if key not in node: node[key] = odict()` "
                     "or `node.setdefault(key, odict())`) — duplicates merge, nothing is overwritten — and the walk descends into it; _stacked yields one path per line: deeper "
                     "-> push, same depth -> replace the top, shallower -> truncate (the slice arithmetic itself is value-level and not decided)")
    m = repo.module(TAB)
    fn = repo.func(TAB, "parse_to_tree")
    c.count("functions", 2)
    gm = GuardMap(fn)
    outer = [n for n in walk_no_nested(fn) if isinstance(n, ast.For) and isinstance(n.iter, ast.Call) and call_name(n.iter) == "_stacked"]
    if len(outer) != 1 or not isinstance(outer[0].target, ast.Name):
        raise AnchorError("parse_to_tree: loop over _stacked(...) not found")
    inner = [n for n in walk_no_nested(outer[0]) if isinstance(n, ast.For) and n is not outer[0] and isinstance(n.iter, ast.Name) and n.iter.id == outer[0].target.id]
    if len(inner) != 1 or not isinstance(inner[0].target, ast.Name):
        raise AnchorError("parse_to_tree: inner loop over the path not found")
    key = inner[0].target.id
    # the cursor is the variable that is rebound to its own child in the body of the inner loop; enumerate the paths through that body
    cands = set()
    for n in walk_no_nested(inner[0]):
        if isinstance(n, ast.Assign) and isinstance(n.targets[0], ast.Name):
            x = n.targets[0].id
            if any(isinstance(y, ast.Name) and y.id == x for y in ast.walk(n.value)):
                cands.add(x)
    if len(cands) != 1:
        raise AnchorError("parse_to_tree: descent `node = node[key]` / `node = node.setdefault(key, ...)` not found")
    cursor = cands.pop()
    paths = _body_paths(inner[0].body, cursor, key)
    if paths is None:
        raise AnchorError("parse_to_tree: the body of the walk over a path uses constructs the path enumeration does not know")
    present = G.Atom("present")

    def cond_formula(conds):
        env = G.GuardEnv(rename=lambda s_: "present" if s_ in (f"{key} in {cursor}", f"{key} in {cursor}.keys()") else s_)
        return G.And(*[(G.formula(t, env) if pol else G.Not(G.formula(t, env))) for t, pol in conds])
    ok_desc, ok_keep, ok_create = True, True, True
    for conds, final, stores in paths:
        f = cond_formula(conds)
        if not G.satisfiable(f):
            continue
        created = [v for k_, v in stores if k_ == "child"]
        # descends: the cursor ends as its own child for this key (the existing one, or the one just stored)
        if final not in ("child", "created"):
            ok_desc = False
        if created:
            # a store is allowed only when the key was absent, and must store a fresh empty tree
            if not G.implies(f, G.Not(present)) or not all(v == "fresh" for v in created):
                ok_keep = False
        else:
            # no store: the key must be known to be present (or the store is built into setdefault)
            if final == "child" and not G.implies(f, present) and not any(k_ == "setdefault" for k_, _ in stores):
                ok_create = False
    at = repo.loc(m, inner[0])
    c.check("C05.R3", ok_desc, at, "parse_to_tree/descend", "the walk does not descend into every key of the path", key_text="descend")
    c.check("C05.R3", ok_keep and ok_create, at, "parse_to_tree/no-overwrite", "a repeated line overwrites (or does not create) its subtree", key_text="overwrite")
    # the cursor restarts at the root for every path
    init = [n for n in walk_no_nested(outer[0]) if isinstance(n, ast.Assign) and norm(n.targets[0]) == cursor and not any(x is n for x in ast.walk(inner[0]))]
    rets = [n for n in walk_no_nested(fn) if isinstance(n, ast.Return) and n.value is not None]
    ok = len(init) == 1 and rets and norm(init[0].value) == norm(rets[-1].value) and gm.formula(init[0]) == G.T and ordk(init[0]) < ordk(inner[0])
    c.check("C05.R3", bool(ok), repo.loc(m, outer[0]), "parse_to_tree/restart-at-root", "the walk of a path does not start at the root of the result tree", key_text="root")
    sk = repo.func(TAB, "_stacked")
    gms = GuardMap(sk)
    ys = [n for n in walk_no_nested(sk) if isinstance(n, ast.Yield)]
    ok = len(ys) == 1 and gms.formula(ys[0]) == G.T and isinstance(ys[0].value, ast.Call) and call_name(ys[0].value) == "tuple" and isinstance(ys[0].value.args[0], ast.Name)
    c.check("C05.R3", ok, repo.loc(m, sk), "_stacked/one-stack-per-line", "not exactly one path is yielded per line", key_text="stacked-yield")
    if ok:
        S = ys[0].value.args[0].id
        okk, why = _stack_semantics(sk, S)
        c.check("C05.R3", okk, repo.loc(m, sk), "_stacked/arms", f"after a line at depth d the path stack is not old[:d] + [line] on every branch ({why}): deeper -> push, same depth -> "
                "replace the top, shallower -> truncate", key_text="stacked-arms")


def _lin(e, syms):
    """linear form {symbol: coef, 1: const} of an expression over the given symbol texts (others make it None)"""
    if isinstance(e, ast.Constant) and isinstance(e.value, int) and not isinstance(e.value, bool):
        return {1: e.value}
    t = norm(e)
    if t in syms:
        return {syms[t]: 1}
    if isinstance(e, ast.BinOp) and isinstance(e.op, (ast.Add, ast.Sub)):
        a_, b_ = _lin(e.left, syms), _lin(e.right, syms)
        if a_ is None or b_ is None:
            return None
        out = dict(a_)
        sg = 1 if isinstance(e.op, ast.Add) else -1
        for k, v in b_.items():
            out[k] = out.get(k, 0) + sg * v
        return out
    if isinstance(e, ast.UnaryOp) and isinstance(e.op, ast.USub):
        a_ = _lin(e.operand, syms)
        return None if a_ is None else {k: -v for k, v in a_.items()}
    return None


def _sub(a_, b_):
    out = dict(a_)
    for k, v in b_.items():
        out[k] = out.get(k, 0) - v
    return {k: v for k, v in out.items() if v != 0}


def _stack_semantics(fn, S):
    """abstract interpretation of one iteration of _stacked's loop: the stack is `kept` leading elements of its old value followed by `suffix`;
    on every path the result must be old[:d] + [line] where d is the depth the line arrived with (d <= len(old) is the producer's invariant)"""
    loops = [n for n in fn.body if isinstance(n, ast.For) and isinstance(n.target, ast.Tuple) and len(n.target.elts) == 2 and all(isinstance(e, ast.Name) for e in n.target.elts)]
    if len(loops) != 1:
        return False, "loop over (level, line) not found"
    loop = loops[0]
    LV, LINE = loop.target.elts[0].id, loop.target.elts[1].id
    results = []

    def run(stmts, st):
        # st: dict(level=lin of the level variable, locals={name: lin}, kept=None|lin, suffix=[texts], conds=[(lin, op)])
        for i, x in enumerate(stmts):
            syms = {LV: "LEVEL", f"len({S})": "n"}
            def lin(e):
                l = _lin(e, {**{k: k for k in st["locals"]}, f"len({S})": "n", LV: LV})
                if l is None:
                    return None
                out = {}
                for k, v in l.items():
                    src = st["level"] if k == LV else st["locals"].get(k, {k: 1} if k in ("n", 1) else None)
                    if k in ("n", 1):
                        out[k] = out.get(k, 0) + v
                        continue
                    if src is None:
                        return None
                    for kk, vv in src.items():
                        out[kk] = out.get(kk, 0) + v * vv
                return {k: v for k, v in out.items() if v != 0}
            if isinstance(x, ast.If):
                t = x.test
                neg = False
                while isinstance(t, ast.UnaryOp) and isinstance(t.op, ast.Not):
                    t, neg = t.operand, not neg
                rel = None
                if isinstance(t, ast.Compare) and len(t.ops) == 1:
                    a_, b_ = lin(t.left), lin(t.comparators[0])
                    if a_ is not None and b_ is not None:
                        rel = (_sub(a_, b_), type(t.ops[0]).__name__)
                for pol, arm in ((True, x.body), (False, x.orelse)):
                    s2 = {"level": dict(st["level"]), "locals": {k: dict(v) for k, v in st["locals"].items()}, "kept": None if st["kept"] is None else dict(st["kept"]),
                          "suffix": list(st["suffix"]), "conds": list(st["conds"]), "bad": st["bad"]}
                    if rel is not None:
                        op = rel[1]
                        if pol == neg:
                            op = {"Gt": "LtE", "GtE": "Lt", "Lt": "GtE", "LtE": "Gt", "Eq": "NotEq", "NotEq": "Eq"}.get(op, op)
                        s2["conds"].append((rel[0], op))
                    run(list(arm) + list(stmts[i + 1:]), s2)
                return
            if isinstance(x, ast.AugAssign) and isinstance(x.target, ast.Name) and isinstance(x.op, (ast.Add, ast.Sub)) and x.target.id in ([LV] + list(st["locals"])):
                d_ = lin(x.value)
                if d_ is None:
                    st["bad"] = "non-linear update of the depth"
                    continue
                cur = st["level"] if x.target.id == LV else st["locals"][x.target.id]
                for k, v in d_.items():
                    cur[k] = cur.get(k, 0) + (v if isinstance(x.op, ast.Add) else -v)
                continue
            if isinstance(x, ast.Assign) and len(x.targets) == 1 and isinstance(x.targets[0], ast.Name) and x.targets[0].id != S:
                l = lin(x.value)
                if l is not None:
                    if x.targets[0].id == LV:
                        st["level"] = l
                    else:
                        st["locals"][x.targets[0].id] = l
                continue
            # stack operations
            if isinstance(x, ast.Expr) and isinstance(x.value, ast.Call) and isinstance(x.value.func, ast.Attribute) and norm(x.value.func.value) == S and x.value.func.attr == "append" and len(x.value.args) == 1:
                st["suffix"].append(norm(x.value.args[0]))
                continue
            if isinstance(x, ast.Assign) and norm(x.targets[0]) == f"{S}[-1]":
                if st["suffix"]:
                    st["suffix"][-1] = norm(x.value)
                else:
                    base = st["kept"] if st["kept"] is not None else {"n": 1}
                    st["kept"] = _sub(base, {1: 1})
                    st["suffix"] = [norm(x.value)]
                continue
            if isinstance(x, ast.Delete) and len(x.targets) == 1 and isinstance(x.targets[0], ast.Subscript) and norm(x.targets[0].value) == S and isinstance(x.targets[0].slice, ast.Slice) \
                    and x.targets[0].slice.upper is None and x.targets[0].slice.lower is not None and not st["suffix"]:
                l = lin(x.targets[0].slice.lower)
                if l is None:
                    st["bad"] = "truncation at a non-linear position"
                else:
                    st["kept"] = l
                continue
            if isinstance(x, ast.Assign) and norm(x.targets[0]) == S and isinstance(x.value, ast.BinOp) and isinstance(x.value.op, ast.Add) and isinstance(x.value.left, ast.Subscript) \
                    and norm(x.value.left.value) == S and isinstance(x.value.left.slice, ast.Slice) and x.value.left.slice.lower is None and x.value.left.slice.upper is not None \
                    and isinstance(x.value.right, ast.List) and not st["suffix"]:
                l = lin(x.value.left.slice.upper)
                if l is None:
                    st["bad"] = "truncation at a non-linear position"
                else:
                    st["kept"] = l
                    st["suffix"] = [norm(e) for e in x.value.right.elts]
                continue
            if isinstance(x, ast.Assign) and norm(x.targets[0]) == S and isinstance(x.value, ast.Subscript) and norm(x.value.value) == S and isinstance(x.value.slice, ast.Slice) \
                    and x.value.slice.lower is None and x.value.slice.upper is not None and not st["suffix"]:
                l = lin(x.value.slice.upper)
                if l is None:
                    st["bad"] = "truncation at a non-linear position"
                else:
                    st["kept"] = l
                continue
            if isinstance(x, ast.Expr) and isinstance(x.value, ast.Yield):
                results.append(st)
                continue
            if isinstance(x, (ast.Pass,)) or (isinstance(x, ast.Expr) and isinstance(x.value, ast.Constant)):
                continue
            st["bad"] = f"unrecognised statement `{norm(x)[:40]}`"
        return
    run(list(loop.body), {"level": {"d": 1}, "locals": {}, "kept": None, "suffix": [], "conds": [], "bad": None})
    if not results:
        return False, "no yield reached"
    D = {"d": 1}
    for st in results:
        if st["bad"]:
            return False, st["bad"]
        if st["suffix"] != [LINE]:
            return False, f"a branch leaves {st['suffix']} on top instead of the line"
        eqs = [l for l, op in st["conds"] if op == "Eq"]
        if st["kept"] is None:
            # nothing removed: right only when the line is deeper than everything on the stack (d >= len)
            need = _sub(D, {"n": 1})            # d - n >= 0
            ok = any((op == "Gt" and _sub(l, need) == {1: 1}) or (op == "GtE" and _sub(l, need) == {}) or (op == "Lt" and _sub({k: -v for k, v in l.items()}, need) == {1: 1})
                     or (op == "LtE" and _sub({k: -v for k, v in l.items()}, need) == {}) for l, op in st["conds"])
            if not ok:
                return False, "a branch keeps the whole stack without knowing that the line is deeper than its top"
        else:
            diff = _sub(st["kept"], D)
            ok = diff == {} or any(_sub(diff, e) == {} or _sub(diff, {k: -v for k, v in e.items()}) == {} for e in eqs)
            if not ok:
                return False, f"a branch keeps old[:{st['kept']}] instead of old[:d]"
    return True, ""
