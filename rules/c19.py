"""C19 -- file-based devices get each changed file once, from the winning generator (structural clauses)."""
import ast

from sa import guards as G
from sa.flow import GuardMap, Provenance
from sa.repo import AnchorError, call_name, calls_in, dotted, norm, walk_no_nested, kwarg

RESULT = "annet.generators.result"
API = "annet.api"


def run(c):
    c.explanation = ("Guard algebra with comparison normalisation on add_entire; decision table of PCDeployerJob.parse_result over (changed, force, enable); sibling agreement of "
                     "the changed-file predicate across the three front ends; provenance of the uploaded bytes; safe filter.")
    c.decides = "priority guard; upload/reload decision table per file; changed-file predicate is content (in)equality in every front end; uploaded bytes are the generated content; safe filter"
    c.does_not_decide = "what difflib prints for a changed file; behaviour of user generators"
    r1(c)
    r2(c)
    r3(c)
    r4(c)
    r5(c)
    r6(c)
    r7(c)
    r8(c)


def r1(c):
    repo = c.repo
    c.rule("C19.R1", "RunGeneratorResult.add_entire stores a result for its path iff the path is absent or result.prio > the prio stored under that same path (the outcome does not "
                     "depend on the order generators are listed in)")
    m = repo.module(RESULT)
    fn = repo.func(RESULT, "RunGeneratorResult.add_entire")
    c.count("functions")
    gm = GuardMap(fn)
    stores = [n for n in walk_no_nested(fn) if isinstance(n, ast.Assign) and isinstance(n.targets[0], ast.Subscript) and norm(n.targets[0].value) == "self.entire_results"]
    other = [x for x in calls_in(fn) if isinstance(x.func, ast.Attribute) and norm(x.func.value) == "self.entire_results" and x.func.attr in ("setdefault", "update", "pop")]
    if len(stores) != 1 or other:
        c.violated("C19.R1", repo.loc(m, other[0] if other else fn), "add_entire/store", f"the winner for a path is not chosen by one guarded store "
                   f"(`{norm(other[0])[:60] if other else str(len(stores)) + ' stores'}`): the first (or last) listed generator wins instead of the highest priority", key_text="store-shape")
        return
    st = stores[0]
    pv = Provenance(fn)
    ok = norm(pv.resolve_alias(st.targets[0].slice)) == "result.path" and norm(pv.resolve_alias(st.value)) == "result"
    c.check("C19.R1", ok, repo.loc(m, st), "add_entire/store-key", "the result is not stored under its own path", key_text="key")

    def ren(s):
        return {"result.path in self.entire_results": "present", "self.entire_results[result.path].prio < result.prio": "higher",
                "self.entire_results.get(result.path).prio < result.prio": "higher",
                "self.entire_results.get(result.path) is None": "absent", "None is self.entire_results.get(result.path)": "absent",
                "self.entire_results.get(result.path)": "present", "present is None": "absent", "None is present": "absent", "present.prio < result.prio": "higher"}.get(s, s)
    f = gm.formula(st, G.GuardEnv(rename=ren), alias=True)
    # the table holds result objects: `get(path) is None` is "no result stored for the path"
    f = G.substitute(f, {"absent": G.Not(G.Atom("present"))})
    f2 = G.And(*[g for g in (f[1:] if f[0] == "and" else [f]) if g != G.Atom("result.path")])
    spec = G.Or(G.Not(G.Atom("present")), G.Atom("higher"))
    c.check("C19.R1", G.equivalent(f2, spec), repo.loc(m, st), "add_entire/priority-guard", f"stored under {G.show(f2)}; expected path absent ∨ result.prio > stored.prio (strictly, same path)", key_text="prio-guard")


def r2(c):
    repo = c.repo
    c.rule("C19.R2", "PCDeployerJob.parse_result, per file of the loop: upload_files[file] is set iff (this file changed ∨ force_reload); reload_cmds[file] iff additionally reloads "
                     "are enabled; enable_reload / force_reload are the comparisons of args.entire_reload with EntireReloadFlag.no / .force")
    m = repo.module(API)
    fn = repo.func(API, "PCDeployerJob.parse_result")
    c.count("functions")
    gm = GuardMap(fn)
    pv = Provenance(fn)
    subst = {}
    for n in walk_no_nested(fn):
        if isinstance(n, ast.Assign) and isinstance(n.targets[0], ast.Name) and n.targets[0].id in ("enable_reload", "force_reload"):
            subst[n.targets[0].id] = n.value
    if set(subst) != {"enable_reload", "force_reload"}:
        raise AnchorError("parse_result: enable_reload / force_reload definitions not found")
    ok = norm(subst["enable_reload"]).replace(" ", "") == "self.args.entire_reloadisnotcli_args.EntireReloadFlag.no" and \
        norm(subst["force_reload"]).replace(" ", "") == "self.args.entire_reloadiscli_args.EntireReloadFlag.force"
    c.check("C19.R2", ok, repo.loc(m, fn), "parse_result/reload-flags", f"enable_reload={norm(subst['enable_reload'])}, force_reload={norm(subst['force_reload'])}", key_text="flags")
    up = [n for n in walk_no_nested(fn) if isinstance(n, ast.Assign) and isinstance(n.targets[0], ast.Subscript) and norm(n.targets[0].value) == "upload_files"]
    rl = [n for n in walk_no_nested(fn) if isinstance(n, ast.Assign) and isinstance(n.targets[0], ast.Subscript) and norm(n.targets[0].value) == "reload_cmds"]
    if len(up) != 1 or len(rl) != 1:
        raise AnchorError("parse_result: upload_files[...] / reload_cmds[...] stores not found")
    loops = gm.in_loop(up[0])
    if not loops:
        raise AnchorError("parse_result: upload store is not inside the per-file loop")
    inner = loops[-1]
    # the 'changed' expression: what the upload guard tests besides force_reload
    conds = [(t, pol) for t, pol in gm.of(up[0]) if any(x is t for x in ast.walk(inner))]
    f_up = G.And(*[(G.formula(t) if pol else G.Not(G.formula(t))) for t, pol in conds])
    atoms = G.atoms(f_up) - {"force_reload"}
    # every remaining atom must be about *this* file: derive from variables defined inside the loop body (not accumulated state)
    bad_atoms = []
    changed_atoms = []
    for t, pol in conds:
        for nm in ast.walk(t):
            if isinstance(nm, ast.Name) and nm.id not in ("force_reload", "enable_reload"):
                ds = pv.rd.defs(nm)
                local = bool(ds) and all(d.stmt is not None and any(x is d.stmt for x in ast.walk(inner)) for d in ds)
                (changed_atoms if local else bad_atoms).append(nm.id)
            elif isinstance(nm, ast.Attribute) and isinstance(nm.value, ast.Name) and nm.value.id == "self":
                bad_atoms.append(norm(nm))
    c.check("C19.R2", not bad_atoms and bool(changed_atoms), repo.loc(m, up[0]), "parse_result/upload-guard-per-file",
            f"the upload decision for a file tests {sorted(set(bad_atoms))} — state accumulated over the job, not this file's own change: after the first changed file every later file is uploaded",
            key_text="per-file")
    if changed_atoms:
        ch = sorted(set(changed_atoms))[0]
        spec = G.Or(G.Atom(ch), G.Atom("force_reload"))
        c.check("C19.R2", G.equivalent(f_up, spec), repo.loc(m, up[0]), "parse_result/upload-guard", f"upload_files[file] set under {G.show(f_up)}; expected changed ∨ force_reload", key_text="upload-guard")
        conds_r = [(t, pol) for t, pol in gm.of(rl[0]) if any(x is t for x in ast.walk(inner))]
        f_rl = G.And(*[(G.formula(t) if pol else G.Not(G.formula(t))) for t, pol in conds_r])
        c.check("C19.R2", G.equivalent(f_rl, G.And(spec, G.Atom("enable_reload"))), repo.loc(m, rl[0]), "parse_result/reload-guard",
                f"reload_cmds[file] set under {G.show(f_rl)}; expected (changed ∨ force_reload) ∧ enable_reload", key_text="reload-guard")
    # (an early `continue` on "unchanged" is the same decision re-spelled: GuardMap folds its negation into the path condition above)
    brk = [n for n in walk_no_nested(inner) if isinstance(n, (ast.Break, ast.Return))]
    c.check("C19.R2", not brk, repo.loc(m, brk[0] if brk else inner), "parse_result/no-break", "the per-file loop stops before all files were decided", key_text="break")
    key_ok = norm(up[0].targets[0].slice) == norm(rl[0].targets[0].slice) and isinstance(inner.target, ast.Tuple) and norm(inner.target.elts[0]) == norm(up[0].targets[0].slice)
    c.check("C19.R2", key_ok, repo.loc(m, up[0]), "parse_result/keys", "upload/reload entries are not keyed by the loop's file", key_text="keys")
    v = rl[0].value
    cm = inner.target.elts[1].elts[1].id if isinstance(inner.target, ast.Tuple) and isinstance(inner.target.elts[1], ast.Tuple) else None
    c.check("C19.R2", cm is not None and norm(v) == f"{cm}.encode()", repo.loc(m, rl[0]), "parse_result/reload-value", "reload command attached is not this file's own command", key_text="reload-value")


def r3(c):
    repo = c.repo
    c.rule("C19.R3", "the boolean that decides whether a file counts as changed — in PCDeployerJob.parse_result (upload), api._patch_worker (`annet patch`) and diff.pc_diff "
                     "(`annet diff`) — derives from an (in)equality between old and new content, not from a lossy transform (line diff of splitlines, formatted text)")
    am = repo.module(API)
    # parse_result
    fn = repo.func(API, "PCDeployerJob.parse_result")
    gm = GuardMap(fn)
    pv = Provenance(fn)
    up = [n for n in walk_no_nested(fn) if isinstance(n, ast.Assign) and isinstance(n.targets[0], ast.Subscript) and norm(n.targets[0].value) == "upload_files"][0]
    lossy = None
    eq = False
    for t, pol in gm.of(up):
        for nm in ast.walk(t):
            if isinstance(nm, ast.Compare) and isinstance(nm.ops[0], (ast.NotEq, ast.Eq)):
                eq = True
            if isinstance(nm, ast.Name):
                for call in pv.origin_calls(nm, through_calls=True):
                    if call_name(call).split(".")[-1] in ("diff_file", "unified_diff", "ndiff", "_diff_text_file"):
                        lossy = call
    c.check("C19.R3", lossy is None, repo.loc(am, lossy if lossy is not None else up), "PCDeployerJob.parse_result/changed-predicate",
            f"a file is scheduled when `{norm(lossy)[:70] if lossy is not None else ''}` is non-empty: a line diff of splitlines() is empty for contents that differ only in a trailing "
            "newline / CRLF / missing-vs-empty, so the file is not uploaded although `annet patch` (content !=) shows it", key_text="lossy-predicate")
    # _patch_worker
    pw = repo.func(API, "_patch_worker")
    gmw = GuardMap(pw)
    ys = [n for n in walk_no_nested(pw) if isinstance(n, ast.Yield) and "cfg_text" in norm(n)]
    ok = False
    if ys:
        for t, pol in gmw.of(ys[0]):
            for nm in ast.walk(t):
                if isinstance(nm, ast.Compare) and isinstance(nm.ops[0], ast.NotEq) and "old_files" in norm(nm) and "cfg_text" in norm(nm):
                    ok = True
    c.check("C19.R3", ok, repo.loc(am, ys[0] if ys else pw), "_patch_worker/changed-predicate", "`annet patch` does not decide by content inequality", key_text="patch-predicate")
    # pc_diff
    dm = repo.module("annet.diff")
    pd = repo.func("annet.diff", "pc_diff")
    gmd = GuardMap(pd)
    ys = [n for n in walk_no_nested(pd) if isinstance(n, ast.Yield)]
    lossy = None
    if ys:
        for t, pol in gmd.of(ys[0]):
            if "diff_lines" in norm(t):
                lossy = t
    c.check("C19.R3", lossy is None, repo.loc(dm, lossy if lossy is not None else pd), "pc_diff/changed-predicate",
            "a file is shown in `annet diff` iff its rendered line diff is non-empty: contents that differ only in a trailing newline / CRLF / missing-vs-empty are reported as unchanged",
            key_text="lossy-predicate")
    c.count("functions", 3)


def r4(c):
    repo = c.repo
    c.rule("C19.R4", "the bytes scheduled for upload are the generated content of the same loop item: upload_files[file] = <content of this file>.encode()")
    m = repo.module(API)
    fn = repo.func(API, "PCDeployerJob.parse_result")
    gm = GuardMap(fn)
    pv = Provenance(fn)
    up = [n for n in walk_no_nested(fn) if isinstance(n, ast.Assign) and isinstance(n.targets[0], ast.Subscript) and norm(n.targets[0].value) == "upload_files"][0]
    inner = gm.in_loop(up)[-1]
    v = up.value
    ok = isinstance(v, ast.Call) and isinstance(v.func, ast.Attribute) and v.func.attr == "encode" and isinstance(v.func.value, ast.Name)
    src_ok = False
    if ok:
        content_var = inner.target.elts[1].elts[0].id
        for k, n in pv.origins(v.func.value, through_calls=True):
            if k == "for" and n.stmt is inner:
                src_ok = True
        names = [call_name(x).split(".")[-1] for x in pv.origin_calls(v.func.value, through_calls=True)]
        src_ok = src_ok and "diff_file" not in names
    c.check("C19.R4", ok and src_ok, repo.loc(m, up), "parse_result/upload-bytes", f"`{norm(v)[:60]}` is not the generated content of this file (or derives from the rendered diff)", key_text="bytes")


def r5(c):
    repo = c.repo
    c.rule("C19.R5", "RunGeneratorResult.new_files(safe) includes a result iff not safe or the result is_safe, keyed by its path, with its own output and reload")
    m = repo.module(RESULT)
    fn = repo.func(RESULT, "RunGeneratorResult.new_files")
    c.count("functions")
    gm = GuardMap(fn)
    pv = Provenance(fn)
    rets = [n for n in walk_no_nested(fn) if isinstance(n, ast.Return) and n.value is not None]
    if len(rets) != 1:
        raise AnchorError("new_files: single return not found")
    res = pv.resolve_alias(rets[0].value)
    # the returned mapping is built either by a loop storing into a local dict or by a dict comprehension
    if isinstance(res, ast.DictComp) and len(res.generators) == 1 and isinstance(res.generators[0].target, ast.Name):
        g = res.generators[0]
        ev, it, key, val, anchor = g.target.id, g.iter, res.key, res.value, res
        ren = lambda s: {f"{ev}.is_safe": "is_safe"}.get(s, s)
        f = G.And(gm.formula(rets[0], G.GuardEnv(rename=ren), skip_early=True), *[G.formula(i, G.GuardEnv(rename=ren)) for i in g.ifs])
    else:
        if not isinstance(rets[0].value, ast.Name):
            raise AnchorError("new_files: store not found")
        dn = rets[0].value.id
        st = [n for n in walk_no_nested(fn) if isinstance(n, ast.Assign) and isinstance(n.targets[0], ast.Subscript) and norm(n.targets[0].value) == dn]
        if len(st) != 1 or not gm.in_loop(st[0]) or not isinstance(gm.in_loop(st[0])[-1].target, ast.Name):
            raise AnchorError("new_files: store not found")
        loop = gm.in_loop(st[0])[-1]
        ev, it, key, val, anchor = loop.target.id, loop.iter, st[0].targets[0].slice, pv.resolve_alias(st[0].value), st[0]
        f = gm.formula(st[0], G.GuardEnv(rename=lambda s: {f"{ev}.is_safe": "is_safe"}.get(s, s)))
    c.check("C19.R5", G.equivalent(f, G.Or(G.Not(G.Atom("safe")), G.Atom("is_safe"))), repo.loc(m, anchor), "new_files/safe-filter", f"included under {G.show(f)}; expected ¬safe ∨ is_safe", key_text="safe")
    ok = norm(key) == f"{ev}.path" and norm(val) == f"({ev}.output, {ev}.reload)" and norm(it) == "self.entire_results.values()"
    c.check("C19.R5", ok, repo.loc(m, anchor), "new_files/entry", "entry is not path -> (output, reload) of every stored result", key_text="entry")


NORMALISERS = {"rstrip", "strip", "lstrip", "lower", "upper", "casefold", "expandtabs", "replace", "translate", "removesuffix", "removeprefix", "title", "capitalize", "swapcase"}


def _line_transforms(repo, m, cls, fn, expr, depth=0):
    """string-normalising calls a value passes through on its way from the texts, through locals, comprehensions and self.<helper>() return values"""
    out = []
    if depth > 3:
        return out
    pv = Provenance(fn)
    todo, seen = [expr], set()
    while todo:
        e = todo.pop()
        if id(e) in seen:
            continue
        seen.add(id(e))
        for x in ast.walk(e):
            if isinstance(x, ast.Name) and isinstance(x.ctx, ast.Load):
                for d in pv.rd.defs(x):
                    if d.value is not None and d.kind != "param":
                        todo.append(d.value)
            if isinstance(x, ast.Call):
                if isinstance(x.func, ast.Attribute) and x.func.attr in NORMALISERS:
                    out.append((x, fn))
                elif call_name(x) in ("re.sub", "re.subn"):
                    out.append((x, fn))
                if isinstance(x.func, ast.Attribute) and isinstance(x.func.value, ast.Name) and x.func.value.id in ("self", "cls") and cls is not None:
                    h = repo.class_attr(m, cls, x.func.attr)
                    if h and isinstance(h[2], ast.FunctionDef) and h[2] is not fn:
                        hf = h[2]
                        for r in walk_no_nested(hf):
                            if isinstance(r, ast.Return) and r.value is not None:
                                out.extend(_line_transforms(repo, h[0], cls, hf, r.value, depth + 1))
    return out


def r6(c):
    repo = c.repo
    c.rule("C19.R6", "the line diff that decides whether a file differs compares the texts as they are: in UnifiedFileDiffer._diff_text_file the two sequences handed to "
                     "difflib.unified_diff derive from old/new through splitlines() only — no per-line normalisation (strip/rstrip/lower/replace/re.sub ...), which would make "
                     "files that differ in what was normalised away count as unchanged (not shown, not uploaded, not reloaded)")
    DIFF = "annet.diff"
    m = repo.module(DIFF)
    cls = repo.cls(DIFF, "UnifiedFileDiffer")
    fn = repo.func(DIFF, "UnifiedFileDiffer._diff_text_file", canon=False)
    c.count("functions")
    ud = [x for x in calls_in(fn) if call_name(x).endswith("unified_diff")]
    if len(ud) != 1 or len(ud[0].args) < 2:
        raise AnchorError("_diff_text_file: difflib.unified_diff(old_lines, new_lines, ...) not found")
    for i, side in ((0, "old"), (1, "new")):
        tr = _line_transforms(repo, m, cls, fn, ud[0].args[i])
        if tr:
            x, f = tr[0]
            c.violated("C19.R6", repo.loc(m, x), f"_diff_text_file/{side}-lines", f"the {side} lines pass through `{norm(x)[:50]}` before being compared: contents that differ only in what this "
                       "removes give an empty diff, so the file is neither shown by `annet diff` nor uploaded by deploy although its bytes differ", key_text="normalised-lines")
        else:
            c.holds("C19.R6", repo.loc(m, ud[0]), f"_diff_text_file/{side}-lines", "splitlines() only")


def r7(c):
    repo = c.repo
    c.rule("C19.R7", "an Entire generator's declared priority is kept as declared: Entire.__init__ supplies the default prio only when none was declared (hasattr / `is None` test), "
                     "never through the truth value of prio — 0 is a priority, and would be promoted above every generator declaring 1..99")
    ENT = "annet.generators.entire"
    m = repo.module(ENT)
    fn = repo.func(ENT, "Entire.__init__", canon=False)
    c.count("functions")
    gm = GuardMap(fn)
    stores = [n for n in walk_no_nested(fn) if isinstance(n, ast.Assign) and norm(n.targets[0]) == "self.prio"]
    if not stores:
        c.holds("C19.R7", repo.loc(m, fn), "Entire.__init__/prio-default", "prio is not assigned in __init__ (class attribute decides)", trivial=True)
        return
    for st in stores:
        bad = None
        v = st.value
        for x in ast.walk(v):
            if isinstance(x, ast.BoolOp) and any(norm(o) == "self.prio" or (isinstance(o, ast.Call) and call_name(o) == "getattr" and "prio" in norm(o)) for o in x.values[:-1]):
                bad = f"`{norm(v)[:50]}` uses the truth value of self.prio"
            if isinstance(x, ast.IfExp) and norm(x.test) in ("self.prio", "not self.prio"):
                bad = f"`{norm(v)[:50]}` tests the truth value of self.prio"
        for t, pol in gm.of(st):
            for x in ast.walk(t):
                if norm(x) == "self.prio" and not isinstance(getattr(x, "_parent", None), (ast.Compare, ast.Call, ast.Attribute)):
                    bad = f"the default is assigned under `{'' if pol else 'not '}{norm(t)[:40]}` (truth value of self.prio)"
        c.check("C19.R7", bad is None, repo.loc(m, st), "Entire.__init__/prio-default", f"{bad}: a generator declaring prio = 0 gets the default instead and wins over generators with a higher "
                "declared priority for the same path", key_text="prio-truthiness")


def r8(c):
    repo = c.repo
    c.rule("C19.R8", "one spelling of a file's path everywhere: _run_entire_generator files its result under gen.path(device) as returned — the device's current files are fetched "
                     "and keyed by the same call (gen.split_downloaded_files / _get_files_to_download), so a path normalised or rewritten on one side only makes an unchanged "
                     "file look new (uploaded and reloaded on every deploy)")
    GEN = "annet.generators"
    m = repo.module(GEN)
    fn = repo.func(GEN, "_run_entire_generator")
    c.count("functions")
    pv = Provenance(fn)
    res = [x for x in calls_in(fn) if call_name(x) == "GeneratorEntireResult"]
    if len(res) != 1:
        raise AnchorError("_run_entire_generator: GeneratorEntireResult(...) not found")
    pe = kwarg(res[0], "path")
    if pe is None:
        raise AnchorError("_run_entire_generator: path= of the result not found")
    calls = pv.origin_calls(pe, through_calls=True)
    names = [call_name(x) for x in calls]
    ok = any(n_.endswith(".path") for n_ in names) and all(n_.endswith(".path") for n_ in names)
    # the result is filed whatever the generator produced: once the generator has run, nothing that depends on the generated text stands between it and the result
    # (an empty text is a legitimate content — the winning generator may say "this file is empty" — and must still take part in the prio contest)
    oe = kwarg(res[0], "output")
    params = {a.arg for a in fn.args.args}
    onames = {x.id for x in ast.walk(oe) if isinstance(x, ast.Name)} - params if oe is not None else set()
    if oe is not None and onames:
        import re as _re
        ftxt = G.show(GuardMap(fn).formula(res[0]))
        dep = sorted(n_ for n_ in onames if _re.search(r"(?<![\w.])" + _re.escape(n_) + r"(?![\w])", ftxt))
        c.check("C19.R8", not dep, repo.loc(m, res[0]), "_run_entire_generator/result-whatever-the-content", f"the result is filed only under {ftxt[:160]}: a generator whose output "
                f"makes that false (e.g. the empty text) is left out of the prio contest, so a lower-prio generator's content (or no file) is planned for its path",
                key_text="result-depends-on-output")
    c.check("C19.R8", ok, repo.loc(m, res[0]), "_run_entire_generator/path-as-returned", f"the result's path comes through {[n_ for n_ in names if not n_.endswith('.path')]}: it no longer "
            "equals the key under which the device's file was fetched", key_text="path-rewritten")
