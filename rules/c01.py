"""C01 -- deploying the patch makes the diff empty (convergence): structural necessary conditions."""
import ast

from sa import dsl, logictable
from sa.flow import GuardMap, Provenance
from sa import guards as G
from sa.repo import AnchorError, call_name, calls_in, dotted, norm, walk_no_nested, kwarg
from sa.util import arg_of, bind_args, calls_to, one, op_const
from sa.vendors import load_rule_texts, load_vendors, vendor_aliases

API = "annet.api"
PATCHING = "annet.annlib.patching"
COMMON = "annet.annlib.rulebook.common"
LOGICS = ["default", "ordered", "rewrite", "permanent", "ignore_changes", "undo_redo"]


def run(c):
    c.explanation = ("Necessary structural conditions of convergence, decided from the AST of the patch pipeline, by abstract "
                     "interpretation of the six common logic functions over all 16 bucket-emptiness valuations, and by grammar "
                     "analysis of every shipped patching rule row (all Mako branches).")
    c.decides = "pipeline order; decision tables of the common logics; block attachment in make_patch; reverse template vs key groups"
    c.does_not_decide = "that executing the emitted command sequence on a device reaches the target (runtime values)"
    c.assumptions = ["the rule-language specification in sa/dsl.py (checked against compile_row_regexp by C07.R1)"]
    r1_pipeline(c)
    r2_tables(c)
    r3_blocks(c)
    r4_reverse(c)
    r5_disorder(c)
    r6_reverse_form(c)
    r7_no_silent_deletion(c)
    r8_logic_pairing(c)
    from rules import c03
    c03.r7(c, rid="C01.R9")
    r10_all_rows_all_rules(c)
    # the patch types the text of the diff row: a row folded to lower case although its own rule is not %ignore_case is sent lower-cased, and the device then differs from `new`
    c03.r10(c, rid="C01.R11")


# --------------------------------------------------------------------------- R1
def r1_pipeline(c):
    repo = c.repo
    c.rule("C01.R1", "in api._diff_and_patch: make_pre receives the un-stripped result of make_diff(old,new,rb,[...]); "
                     "patch_from_pre receives that make_pre result and the same rb; patch_from_pre builds the Orderer from "
                     "rb['ordering'] and forwards pre, rb, hw to make_patch; the recursive make_patch gets the sub_pre of the "
                     "triple being processed and the ordering returned by get_order for that row")
    m = repo.module(API)
    fn = repo.func(API, "_diff_and_patch")
    c.count("functions")
    pv = Provenance(fn)
    md = one(calls_to(repo, m, fn, ["make_diff"]), "make_diff call in _diff_and_patch")
    mp = one(calls_to(repo, m, fn, ["make_pre"]), "make_pre call in _diff_and_patch")
    pp = one(calls_to(repo, m, fn, ["patch_from_pre"]), "patch_from_pre call in _diff_and_patch")
    c.count("call_sites", 3)
    # make_pre argument derives from make_diff, not via strip_unchanged
    a = mp.args[0] if mp.args else kwarg(mp, "diff")
    if a is None:
        raise AnchorError("C01.R1: make_pre argument not found")
    oc = pv.origin_calls(a, through_calls=True)
    names = [call_name(x).split(".")[-1] for x in oc]
    c.check("C01.R1", "make_diff" in names and "strip_unchanged" not in names, repo.loc(m, mp), "_diff_and_patch/make_pre(arg)",
            f"make_pre argument derives from {sorted(set(names))}: it must be the un-stripped make_diff result "
            "(logic functions read the UNCHANGED bucket)", key_text="make_pre-arg")
    # patch_from_pre first arg derives from make_pre
    pfp = repo.func(API, "patch_from_pre")
    b = bind_args(pp, pfp)
    ok = "pre" in b and any(call_name(x).split(".")[-1] == "make_pre" for x in pv.origin_calls(b["pre"], through_calls=False))
    c.check("C01.R1", ok, repo.loc(m, pp), "_diff_and_patch/patch_from_pre(pre)", "first argument of patch_from_pre is not the make_pre result",
            key_text="pfp-pre")
    # same rb
    rb_d = md.args[2] if len(md.args) > 2 else kwarg(md, "rb")
    rb_p = b.get("rb")
    same = rb_d is not None and rb_p is not None and norm(rb_d) == norm(rb_p) and \
        {id(d) for d in pv.rd.defs(rb_d)} == {id(d) for d in pv.rd.defs(rb_p)} if isinstance(rb_d, ast.Name) and isinstance(rb_p, ast.Name) else False
    c.check("C01.R1", same, repo.loc(m, pp), "_diff_and_patch/rb", "make_diff and patch_from_pre do not receive the same rulebook object",
            key_text="same-rb")
    hw = b.get("hw")
    c.check("C01.R1", hw is not None and norm(pv.resolve_alias(hw)) in ("device.hw",), repo.loc(m, pp), "_diff_and_patch/hw",
            "patch_from_pre does not receive the device's hw", key_text="hw")
    # patch_from_pre body
    c.count("functions")
    pvp = Provenance(pfp)
    mk = one(calls_to(repo, m, pfp, ["make_patch"]), "make_patch call in patch_from_pre")
    mpf = repo.func(PATCHING, "make_patch")
    bb = bind_args(mk, mpf)
    for p in ("pre", "rb", "hw", "add_comments"):
        ok = p in bb and isinstance(bb[p], ast.Name) and bb[p].id == p and pvp.derives_from_param(bb[p], p, through_calls=False)
        c.check("C01.R1", ok, repo.loc(m, mk), f"patch_from_pre/make_patch({p}=)", f"make_patch does not receive patch_from_pre's own `{p}`",
                key_text=f"fwd-{p}")
    orc = [x for x in calls_in(pfp) if call_name(x).split(".")[-1] == "Orderer"]
    ok = bool(orc) and orc[0].args and norm(orc[0].args[0]) == 'rb["ordering"]'.replace('"', "'") and "orderer" in bb and \
        any(x is orc[0] for x in pvp.origin_calls(bb["orderer"], through_calls=False))
    c.check("C01.R1", ok, repo.loc(m, mk), "patch_from_pre/Orderer", "the Orderer handed to make_patch is not built from rb['ordering']", key_text="orderer")
    # make_patch recursion
    pm = repo.module(PATCHING)
    c.count("functions")
    pvm = Provenance(mpf)
    rec = one([x for x in calls_in(mpf) if call_name(x) == "make_patch"], "recursive make_patch call")
    rb_ = bind_args(rec, mpf)
    # the loop that yields (direct, row, sub_pre)
    loop = None
    for st in walk_no_nested(mpf):
        if isinstance(st, ast.For) and isinstance(st.target, ast.Tuple) and len(st.target.elts) == 3 and any(n is rec for n in ast.walk(st)):
            loop = st
    if loop is None:
        raise AnchorError("C01.R1: loop `for (direct,row,sub_pre) in iterable` not found in make_patch")
    sub_name = loop.target.elts[2].id if isinstance(loop.target.elts[2], ast.Name) else None
    ok = "pre" in rb_ and isinstance(rb_["pre"], ast.Name) and rb_["pre"].id == sub_name
    c.check("C01.R1", ok, repo.loc(pm, rec), "make_patch/recursive(pre=)", f"recursive make_patch receives `{norm(rb_.get('pre', rec))}` instead of the triple's own sub-pre `{sub_name}`",
            key_text="rec-pre")
    # ordering from get_order of this row
    go = [x for x in calls_in(loop) if isinstance(x.func, ast.Attribute) and x.func.attr == "get_order"]
    ok = False
    if go and "rb" in rb_ and isinstance(rb_["rb"], ast.Dict) and rb_["rb"].values:
        val = rb_["rb"].values[0]
        key0 = rb_["rb"].keys[0]
        if isinstance(val, ast.Name) and isinstance(key0, ast.Constant) and key0.value == "ordering":
            for d in pvm.rd.defs(val):
                if d.kind == "unpack" and d.value is go[0] and d.index == (2,):
                    ok = True
        row_arg = go[0].args[0] if go[0].args else None
        ok = ok and isinstance(row_arg, ast.Name) and isinstance(loop.target.elts[1], ast.Name) and row_arg.id == loop.target.elts[1].id
    c.check("C01.R1", ok, repo.loc(pm, rec), "make_patch/recursive(rb=)", "children are not ordered with the 3rd result of orderer.get_order(<this row>, ...)",
            key_text="rec-ordering")
    rp = rb_.get("_root_pre")
    c.check("C01.R1", rp is not None and norm(pvm.resolve_alias(rp)) == "_root_pre or pre", repo.loc(pm, rec), "make_patch/recursive(_root_pre=)",
            "root pre not propagated to the recursive call", key_text="rec-root")


# --------------------------------------------------------------------------- R2
def r2_tables(c):
    repo = c.repo
    c.rule("C01.R2", "decision table of each common logic over the 16 emptiness valuations of ADDED/REMOVED/AFFECTED/MOVED: "
                     "(a) REMOVED alone => exactly one reverse command; (b) ADDED without AFFECTED => the added row is emitted; "
                     "(c) AFFECTED => the affected row is emitted with its children; (d) undo_redo with ADDED and REMOVED (no AFFECTED) "
                     "=> [reverse, added row] in that order; (e) ordered with MOVED => reverse strictly before the re-creation")
    m = repo.module(COMMON)
    n_yields = 0
    for name in LOGICS:
        fn = repo.func(COMMON, name)
        c.count("functions")
        n_yields += sum(1 for n in walk_no_nested(fn) if isinstance(n, (ast.Yield, ast.YieldFrom)))
        rows = logictable.table(repo, m, fn)
        c.count("valuations", len(rows))
        for val, free, em in rows:
            vn = logictable.vname(val, free)
            A, R, F, M = val["ADDED"], val["REMOVED"], val["AFFECTED"], val["MOVED"]
            kinds = [repr(e) for e in em]
            at = repo.loc(m, fn)

            def bad(clause, what):
                c.violated("C01.R2", at, f"{name}[{vn}]", f"clause ({clause}): {what}; emits {kinds or 'nothing'}", key_text=f"{clause}")
            ok = True
            if R and not (A or F or M):
                revs = [e for e in em if e.kind == "REV" and e.flag is False]
                if len(revs) != 1 or len(em) != 1:
                    bad("a", "a key present only in old must produce exactly one removal command")
                    ok = False
            if A and not F:
                if not any(e.kind == "ROW" and e.src == "ADDED" and e.flag is True for e in em):
                    bad("b", "an added row must be emitted")
                    ok = False
            if F:
                if not any(e.kind == "ROW" and e.src == "AFFECTED" and e.flag is True and e.children == "AFFECTED" for e in em):
                    bad("c", "an affected block must be entered with its own children")
                    ok = False
            if name == "undo_redo" and A and R and not F:
                seq = [(e.kind, e.src) for e in em]
                if seq != [("REV", None), ("ROW", "ADDED")]:
                    bad("d", "undo_redo must emit the removal, then the new row")
                    ok = False
            if name == "ordered" and M:
                idx_rev = [i for i, e in enumerate(em) if e.kind == "REV"]
                idx_row = [i for i, e in enumerate(em) if e.kind == "ROW"]
                if not idx_rev or not idx_row or min(idx_rev) > min(idx_row):
                    bad("e", "a moved ordered block must be removed before it is re-created")
                    ok = False
            if ok:
                c.holds("C01.R2", at, f"{name}[{vn}]", " ".join(kinds) or "no emission", trivial=not (A or R or F or M))
    c.floor("C01.R2", "yield statements", n_yields, 9)


# --------------------------------------------------------------------------- R3
def r3_blocks(c):
    repo = c.repo
    c.rule("C01.R3", "in make_patch: tree.add_block(row, children, ...) is taken exactly when direct and (children or parent); the "
                     "children are the recursive make_patch result of that item; tree.add('commit') only follows an item with force_commit")
    m = repo.module(PATCHING)
    fn = repo.func(PATCHING, "make_patch")
    gm = GuardMap(fn)
    rets_ = [n for n in walk_no_nested(fn) if isinstance(n, ast.Return) and isinstance(n.value, ast.Name)]
    tv = rets_[-1].value.id if rets_ else "tree"
    ab = [x for x in calls_in(fn) if isinstance(x.func, ast.Attribute) and x.func.attr == "add_block" and norm(x.func.value) == tv]
    ad = [x for x in calls_in(fn) if isinstance(x.func, ast.Attribute) and x.func.attr == "add" and isinstance(x.func.value, ast.Name) and x.func.value.id == tv]
    if len(ab) != 1 or not ad:
        raise AnchorError("C01.R3: tree.add_block / tree.add calls not found in make_patch")
    itemvar = "item"
    lp = gm.in_loop(ab[0])
    if lp and isinstance(lp[-1].target, ast.Name):
        itemvar = lp[-1].target.id

    pv3 = Provenance(fn)
    a1 = ab[0].args[1] if len(ab[0].args) > 1 else kwarg(ab[0], "subtree")
    chname = norm(a1) if a1 is not None else "children"

    def ren(s):
        s = s.replace('"', "'")
        for k in ("children", "parent", "direct", "force_commit"):
            if s == f"{itemvar}['{k}']" or s in (f"attrs.get('{k}', False)", f"attrs.get('{k}')", f"attrs['{k}']"):
                return k
        if s == chname:
            return "children"
        return s
    env = G.GuardEnv(rename=ren)
    spec = G.And(G.Atom("direct"), G.Or(G.Atom("children"), G.Atom("parent")))
    plain = [x for x in ad if not (x.args and isinstance(x.args[0], ast.Constant) and x.args[0].value == "commit")]
    commit = [x for x in ad if x.args and isinstance(x.args[0], ast.Constant) and x.args[0].value == "commit"]
    # the decision is stated relative to "this row is emitted at all": conditions that enclose both calls alike (the one-pass form of make_patch decides inside the
    # `direct is not None` / force-commit-skip context) are factored out; they may not mention the deciding fields themselves
    ctx = G.T
    if plain:
        ca, cb = gm.of(ab[0]), gm.of(plain[0])
        common = []
        for (t1, p1), (t2, p2) in zip(ca, cb):
            if t1 is t2 and p1 == p2:
                common.append((t1, p1))
            else:
                break
        parts = []
        for t_, pol in common:
            g_ = G.formula(t_, env)
            parts.append(g_ if pol else G.Not(g_))
        ctx = G.And(*parts) if parts else G.T
        if {"direct", "children", "parent"} & set(G.atoms(ctx)):
            ctx = G.T
    f = gm.formula(ab[0], env, alias=True)
    c.check("C01.R3", G.equivalent(f, G.And(ctx, spec)), repo.loc(m, ab[0]), "make_patch/add_block",
            f"add_block is taken under {G.show(f)}, expected direct ∧ (children ∨ parent): empty parent blocks or children of a block would be lost/misplaced",
            key_text="add_block-guard")
    if plain:
        f2 = gm.formula(plain[0], env, alias=True)
        c.check("C01.R3", G.equivalent(f2, G.And(ctx, G.Not(spec))), repo.loc(m, plain[0]), "make_patch/add", f"plain add taken under {G.show(f2)}, expected the complement of the add_block condition",
                key_text="add-guard")
    # children handed over
    c.check("C01.R3", a1 is not None and ren(norm(a1)) == "children", repo.loc(m, ab[0]), "make_patch/add_block(children)",
            "the subtree given to add_block is not the item's recursive patch", key_text="add_block-children")
    for x in commit:
        f3 = gm.formula(x, env)
        c.check("C01.R3", G.implies(f3, G.Atom("force_commit")), repo.loc(m, x), "make_patch/add(commit)",
                f"'commit' row added under {G.show(f3)} (must imply force_commit)", key_text="commit-guard")
    # the dict stores children = recursive result
    rec = [x for x in calls_in(fn) if call_name(x) == "make_patch"]
    ok = False
    for d in walk_no_nested(fn):
        if isinstance(d, ast.Dict):
            for k, v in zip(d.keys, d.values):
                if isinstance(k, ast.Constant) and k.value == "children" and rec and any(n is rec[0] for n in ast.walk(v)):
                    ok = True
    if not ok and isinstance(a1, ast.Name) and rec:
        # one-pass form: the local handed to add_block is defined by the recursive call (its other definition being the empty tree)
        ok = any(d.value is not None and any(n is rec[0] for n in ast.walk(d.value)) for d in pv3.rd.defs(a1))
    c.check("C01.R3", ok, repo.loc(m, fn), "make_patch/item.children", "item['children'] is not the recursive make_patch result", key_text="children-rec")


# --------------------------------------------------------------------------- R4
def reverse_never_formatted(repo, logic_name: str) -> bool:
    """exemption test: the %logic function never formats rule['reverse']"""
    modname, _, fname = logic_name.rpartition(".")
    for root in ("annet.rulebook.", "annet.annlib.rulebook."):
        mn = root + modname
        if mn in repo.modules and fname in repo.modules[mn].defs:
            m = repo.modules[mn]
            fn = m.defs[fname]
            # first: the decision table of the function itself -- no valuation may emit a REV
            try:
                rows = logictable.table(repo, m, fn)
                return not any(e.kind == "REV" for _, _, em in rows for e in em)
            except AnchorError:
                pass
            seen = set()

            def uses_reverse(f, mod, depth=0):
                if id(f) in seen or depth > 3:
                    return False
                seen.add(id(f))
                for n in walk_no_nested(f):
                    if isinstance(n, ast.Subscript) and isinstance(n.slice, ast.Constant) and n.slice.value == "reverse":
                        return True
                    if isinstance(n, ast.Call):
                        r = repo.resolve_call(mod, n)
                        if r and isinstance(r[2], ast.FunctionDef) and uses_reverse(r[2], r[0], depth + 1):
                            return True
                return False
            return not uses_reverse(fn, m)
    return False


def r4_reverse(c, rid="C01.R4"):
    repo = c.repo
    c.rule(rid, "every normal row of every shipped *.rul (all Mako branches): the removal template has exactly as many {} "
                "placeholders as the row's regex has capture groups, and contains no regex syntax outside placeholders "
                "(it would be sent to the device verbatim); exempt only if the row's %logic never formats rule['reverse']")
    vendors = load_vendors(repo)
    texts = [t for t in load_rule_texts(repo) if t.kind == "rul"]
    n_rows = 0
    for t in texts:
        prefix = vendors[t.vendor].reverse if t.vendor in vendors else None
        if prefix is None:
            raise AnchorError(f"{rid}: no vendor for {t.rel}")
        for r in t.all_rows():
            if r.type != "normal":
                continue
            n_rows += 1
            groups = dsl.spec_group_count(r.row)
            holes = dsl.spec_reverse_placeholders(r.row, prefix)
            toks = dsl.tokenize_row(r.row)
            at = f"{t.rel}:{r.line.no}"
            logic = r.params.get("logic")
            problems = []
            if groups != holes:
                problems.append(f"{groups} capture group(s) but {holes} placeholder(s) in the removal template")
            rx = [x.text for x in toks if x.cls in (dsl.T_REGEX,)]
            if rx:
                problems.append(f"regex syntax {rx} would appear verbatim in the removal command")
            if not problems:
                c.holds(rid, at, f"row:{r.row}", f"{groups} group(s) = {holes} placeholder(s)", trivial=(groups == 0))
                continue
            if logic and reverse_never_formatted(repo, logic):
                c.holds(rid, at, f"row:{r.row}", f"exempt: %logic={logic} never formats rule['reverse']")
                continue
            if r.params.get("rewrite") and False:
                pass
            c.violated(rid, at, f"{t.rel.split('/')[-1]}:{r.row}", "; ".join(problems), key_text="reverse-template")
    c.analysed["rul_files"] = len(texts)
    c.floor(rid, "normal .rul rows", n_rows, 780)
    if len(texts) < 13:
        raise AnchorError(f"{rid}: only {len(texts)} .rul files found (expected >= 13)")


# --------------------------------------------------------------------------- R5
def r5_disorder(c, rid="C01.R5"):
    """an added row inside an ordered block puts every following row 'in disorder' (they must be re-created
    after it, because a device appends new lines at the end of the block)"""
    repo = c.repo
    c.rule(rid, "base_diff: the branch that labels a row ADDED also raises the disorder flag read by the MOVED test, so that every following row of "
                     "the block is re-created after the added one (a device appends new rows at the end of a block; replacing a row in the middle of an "
                     "%ordered block otherwise leaves the tail in the old position)")
    m = repo.module(COMMON)
    fn = repo.func(COMMON, "base_diff")
    loop = None
    for st in fn.body:
        if isinstance(st, ast.For) and norm(st.iter) in ("enumerate(new)", "new"):
            loop = st
    if loop is None:
        raise AnchorError(f"{rid}: loop over new not found in base_diff")
    from sa import symexec
    # the disorder flag: a local set to True inside the loop and initialised False before it
    flags = {n.targets[0].id for n in walk_no_nested(loop) if isinstance(n, ast.Assign) and isinstance(n.targets[0], ast.Name) and isinstance(n.value, ast.Constant) and n.value.value is True}
    flags = {f for f in flags if any(isinstance(n, ast.Assign) and isinstance(n.targets[0], ast.Name) and n.targets[0].id == f and isinstance(n.value, ast.Constant)
                                     and n.value.value is False and not any(x is n for x in ast.walk(loop)) for n in walk_no_nested(fn))}
    if not flags:
        raise AnchorError(f"{rid}: no boolean disorder flag (False before the loop over new, True inside it) found in base_diff")
    flag = sorted(flags)[0]
    # which local carries the op of the item built in this iteration
    items = [x for x in calls_in(loop) if call_name(x) == "DiffItem"]
    opvar = None
    for it in items:
        e = kwarg(it, "op", 0)
        if isinstance(e, ast.Name):
            opvar = e.id
    if opvar is None:
        raise AnchorError(f"{rid}: ADDED assignment / MOVED branch not found in base_diff")
    n_added = n_moved = 0
    bad = None
    bad_moved = None
    for p_ in symexec.paths(loop.body):
        v = p_.env.get(opvar)
        if v is None:
            continue
        alts = [v.body, v.orelse] if isinstance(v, ast.IfExp) else [v]
        # a name chosen before the loop (`reordered_op = pops[-1] if moved_to_affected else Op.MOVED`, possibly as an if-statement): all its definitions
        more = []
        for a_ in alts:
            if isinstance(a_, ast.Name):
                for n_ in walk_no_nested(fn):
                    if isinstance(n_, ast.Assign) and len(n_.targets) == 1 and isinstance(n_.targets[0], ast.Name) and n_.targets[0].id == a_.id and not any(x is n_ for x in ast.walk(loop)):
                        more += [n_.value.body, n_.value.orelse] if isinstance(n_.value, ast.IfExp) else [n_.value]
        alts = alts + more
        raised = isinstance(p_.env.get(flag), ast.Constant) and p_.env[flag].value is True
        if any(op_const(a_) == "MOVED" for a_ in alts):
            n_moved += 1
            known_set = any(pol and isinstance(cnd, ast.Name) and cnd.id == flag for cnd, pol in p_.conds)      # the path is taken *because* the flag is already up
            if not raised and not known_set:
                bad_moved = p_
        if any(op_const(a_) == "ADDED" for a_ in alts):
            n_added += 1
            if not raised:
                bad = p_
    if not n_added or not n_moved:
        raise AnchorError(f"{rid}: ADDED assignment / MOVED branch not found in base_diff")
    at = repo.loc(m, loop)
    c.check(rid, bad is None, at, "base_diff/added-raises-disorder",
            f"the ADDED branch does not set `{flag} = True`: rows after a row replaced in place keep their op and are not re-created behind the new row",
            key_text="added-disorder")
    # the flag is sticky: a row found out of place puts every later row out of place too (their absolute index may coincide by accident: [a,b,c] -> [c,b,a] keeps b at index 1)
    c.check(rid, bad_moved is None, at, "base_diff/moved-raises-disorder",
            f"a row labelled MOVED because its index changed does not set `{flag} = True`: rows between two exchanged rows keep their index, stay UNCHANGED and are stripped, so "
            "the patch re-creates only part of the block and the order on the device differs from the target", key_text="moved-disorder")
    # the MOVED test reads the flag
    reads = any(isinstance(x, ast.Name) and x.id == flag for n in walk_no_nested(loop) if isinstance(n, (ast.If, ast.IfExp)) for x in ast.walk(n.test))
    c.check(rid, reads, at, "base_diff/disorder-read", f"`{flag}` is never read by the test that labels rows MOVED", key_text="disorder-read")
    # the flag is initialised False before the loop and never reset inside it
    resets = [n for n in walk_no_nested(loop) if isinstance(n, ast.Assign) and isinstance(n.targets[0], ast.Name) and n.targets[0].id == flag
              and isinstance(n.value, ast.Constant) and n.value.value is False]
    c.check(rid, not resets, repo.loc(m, resets[0] if resets else loop), "base_diff/disorder-monotone", f"`{flag}` is reset inside the loop", key_text="disorder-reset")


# --------------------------------------------------------------------------- R6
def r6_reverse_form(c):
    """the removal command of a rule is <negation word> + blank + row (and the plain row for a rule written in negated form)"""
    from rules import c07
    repo = c.repo
    c.rule("C01.R6", "rulebook.patching._make_reverse builds the removal template as <vendor negation word> + ' ' + row, and recognises a rule already written in negated form by "
                     "<negation word> + ' ' (with the blank): otherwise the removal of a rule whose first word merely begins with the negation letters (`notify ...` under `no`) is a "
                     "garbage command, the line stays on the device and the second diff is never empty (same sibling check as C07.R2)")
    pm = repo.module("annet.rulebook.patching")
    f1 = repo.func("annet.rulebook.patching", "_make_reverse")
    c07.reverse_site(c, pm, f1, f1, f1.args.args[1].arg, f1.args.args[0].arg, "patching._make_reverse", rid="C01.R6")


def r7_no_silent_deletion(c):
    """a logic function gets the diff of its key (buckets of items, each with the pre of its children); whatever it removes from that structure is never
    seen by patch_from_pre again -- the entry vanishes without a command"""
    from sa.effects import Effects
    from rules.c20 import registered_functions
    repo = c.repo
    c.rule("C01.R7", "no registered logic function (nor any helper it calls) deletes entries from the diff structure it is handed: `del`, .pop/.popitem/.clear/.remove on anything "
                     "reached from its diff parameter (a bucket, an item, the pre of an item's children). Buckets are re-bound only as a whole (`diff[Op.X] = ...`), which "
                     "the decision tables of C01.R2 evaluate")
    reg = registered_functions(repo)
    eff = Effects(repo, mode="paths", max_depth=6)
    c.floor("C01.R7", "registered logic functions", len(reg["logic"]), 20)
    DELETERS = ("pop", "popitem", "clear", "remove", "discard")
    seen = set()
    for name, m, fn in sorted(reg["logic"], key=lambda t: t[0]):
        c.count("logic_functions")
        ps = [a.arg for a in fn.args.args]
        if len(ps) < 3:
            continue
        dparam = ps[2]
        bad = []
        for s in eff.mutated_params(m, fn.name, fn).get(dparam, []):
            node = s.root[3] if s.root else s.node
            is_del = isinstance(node, ast.Delete) or (isinstance(node, ast.Call) and isinstance(node.func, ast.Attribute) and node.func.attr in DELETERS)
            if is_del:
                bad.append((s, node))
        if not bad:
            c.holds("C01.R7", repo.loc(m, fn), f"logic:{name}", "no deletion reachable from the diff parameter", trivial=True)
        for s, node in bad:
            rm = repo.module(s.root[0]) if s.root else s.mod
            k = (name, s.root[1] if s.root else s.fn_qual, norm(node)[:60])
            if k in seen:
                continue
            seen.add(k)
            c.violated("C01.R7", repo.loc(rm, node), f"logic:{name}", f"`{norm(node)[:70]}` (in {k[1]}{', reached via ' + '>'.join(s.via) if s.via else ''}) deletes from the diff handed to the logic: "
                       "whatever else is stored under the deleted entry (an ADDED row grouped under the same key as the REMOVED one, nested changes) is never emitted", key_text=f"delete:{k[1]}")


def r8_logic_pairing(c):
    """ordered_diff reports a reordering as MOVED and rewrite_diff folds a changed block into one entry; only the patch logic of the same name knows what to emit for
    that (common.ordered removes a moved block before re-creating it, common.rewrite re-creates the whole block).  The compiler must select the two together."""
    repo = c.repo
    c.rule("C01.R8", "in rulebook.patching._compile_patching the diff logic and the patch logic of an %ordered (resp. %rewrite) rule are selected under the same condition: "
                     "the store of the vendor's ordered diff and the store of ORDERED_PATCH_LOGIC (resp. REWRITE_DIFF_LOGIC and REWRITE_PATCH_LOGIC) have equivalent guards")
    modname = "annet.rulebook.patching"
    m = repo.module(modname)
    fn = repo.func(modname, "_compile_patching")
    c.count("functions")
    gm = GuardMap(fn)
    consts = {}
    for nm in ("ORDERED_PATCH_LOGIC", "REWRITE_PATCH_LOGIC", "REWRITE_DIFF_LOGIC", "MULTILINE_DIFF_LOGIC", "DEFAULT_PATCH_LOGIC"):
        v = m.toplevel_assign(nm)
        if isinstance(v, ast.Constant):
            consts[nm] = v.value
    if "ORDERED_PATCH_LOGIC" not in consts or "REWRITE_PATCH_LOGIC" not in consts or "REWRITE_DIFF_LOGIC" not in consts:
        raise AnchorError("rulebook.patching: logic name constants not found")

    def kind_of(v):
        t = norm(v)
        for nm, val in consts.items():
            if t == nm or (isinstance(v, ast.Constant) and v.value == val):
                return nm
        if isinstance(v, ast.Call) and isinstance(v.func, ast.Attribute) and v.func.attr == "diff" and v.args and isinstance(v.args[0], ast.Constant) and v.args[0].value is True:
            return "VENDOR_ORDERED_DIFF"
        return None
    stores = {}
    for n in walk_no_nested(fn):
        if isinstance(n, ast.Assign) and isinstance(n.targets[0], ast.Subscript) and isinstance(n.targets[0].slice, ast.Constant) and n.targets[0].slice.value in ("logic", "diff_logic") \
                and "params" in norm(n.targets[0].value):
            k = kind_of(n.value)
            if k:
                stores.setdefault(k, []).append(n)
    for dk, pk, what in (("VENDOR_ORDERED_DIFF", "ORDERED_PATCH_LOGIC", "ordered"), ("REWRITE_DIFF_LOGIC", "REWRITE_PATCH_LOGIC", "rewrite")):
        ds, ps_ = stores.get(dk, []), stores.get(pk, [])
        if not ds or not ps_:
            raise AnchorError(f"_compile_patching: selection of the {what} diff/patch logic not found")
        fd = G.Or(*[gm.formula(x, alias=True) for x in ds])
        fp = G.Or(*[gm.formula(x, alias=True) for x in ps_])
        c.check("C01.R8", G.equivalent(fd, fp), repo.loc(m, ps_[0]), f"_compile_patching/{what}-pair", f"the {what} diff logic is selected under {G.show(fd)} but the {what} patch logic under "
                f"{G.show(fp)}: a rule can get the {what} diff with another patch logic — its MOVED / rewritten entries are then re-typed in place (nothing moves, the next diff is "
                "not empty, the same commands are emitted on every run)", key_text=f"{what}-pair")


def r10_all_rows_all_rules(c):
    repo = c.repo
    c.rule("C01.R10", "nothing of the trees or of the rulebook is left out before the logics run: (a) annlib.rulebook.common.call_diff_logic produces diff items only by calling the "
                      "rows' diff logics — one exit, at the end, returning what the logic calls accumulated; no shortcut return, no DiffItem built by call_diff_logic itself (a "
                      "shortcut that answers for an 'unchanged' block drops the rows nested below it, which a %rewrite parent re-types and re-sends); (b) "
                      "patching._find_rules_matches collects *every* rule whose regexp matches the row (one append per match inside the loop over all rules, the list returned "
                      "after the loop; the only early exit is the ignore arm) — _select_match merges the children rules of all of them, a first-match return loses the children "
                      "rules of the later overlapping block rules (`interface */Tunnel.+/` before `interface *`)")
    cm = repo.module("annet.annlib.rulebook.common")
    fn = repo.func("annet.annlib.rulebook.common", "call_diff_logic")
    c.count("functions", 2)
    rets = [n for n in walk_no_nested(fn) if isinstance(n, ast.Return)]
    last = [st for st in fn.body if not isinstance(st, ast.Pass)][-1]
    early = [r for r in rets if r is not last]
    c.check("C01.R10", not early and isinstance(last, ast.Return), repo.loc(cm, early[0] if early else fn), "call_diff_logic/single-exit", f"`{norm(early[0])[:70] if early else ''}` answers before the rows "
            "were handed to their diff logics", key_text="early-return")
    built = [x for x in calls_in(fn) if call_name(x).split(".")[-1] == "DiffItem"]
    c.check("C01.R10", not built, repo.loc(cm, built[0] if built else fn), "call_diff_logic/items-from-logics-only", "call_diff_logic builds diff items itself instead of leaving it to the diff logic of the "
            "rows (children and op of such an item bypass base_diff / rewrite_diff)", key_text="own-items")
    pm = repo.module(PATCHING)
    fr = repo.func(PATCHING, "_find_rules_matches")
    gm = GuardMap(fr)
    apps = [x for x in calls_in(fr) if isinstance(x.func, ast.Attribute) and x.func.attr == "append" and gm.in_loop(x)]
    rets = [n for n in walk_no_nested(fr) if isinstance(n, ast.Return)]
    tail = [st for st in fr.body if not isinstance(st, ast.Pass)][-1]
    ok = len(apps) == 1 and isinstance(tail, ast.Return) and isinstance(tail.value, ast.Name) and norm(apps[0].func.value) == tail.value.id
    inloop = [r for r in rets if gm.in_loop(r)]
    # early exits inside the loop: only the ignore arm, answering "no match"
    bad = [r for r in inloop if not ((isinstance(r.value, (ast.List, ast.Tuple)) and not r.value.elts) and any("ignore" in a for a in G.atoms(gm.formula(r, G.GuardEnv()))))]
    c.check("C01.R10", ok and not bad, repo.loc(pm, bad[0] if bad else fr), "_find_rules_matches/collects-every-match", "the matches of a row are not all collected (first match returned, or the "
            "list built otherwise): the children rules of further matching block rules are lost, rows only they know are never diffed", key_text="first-match")
