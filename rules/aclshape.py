"""Shared shape analysis of annlib.patching.apply_acl / apply_acl_diff / match_row_to_acl (used by C02, C06, C10)."""
import ast

from sa import guards as G
from sa.flow import GuardMap, Provenance
from sa.repo import AnchorError, call_name, calls_in, norm, walk_no_nested
from sa.util import bind_args

PATCHING = "annet.annlib.patching"


def _q(s):
    return s.replace('"', "'")


def ren_acl(s: str) -> str:
    s = _q(s)
    table = {
        "match['is_reverse']": "is_reverse",
        "all(match['attrs']['cant_delete'])": "all_cant_delete",
        "op == Op.REMOVED": "op_removed",
        "Op.REMOVED == op": "op_removed",
    }
    return table.get(s, s)


class ApplyAcl:
    """facts about apply_acl located once"""

    def __init__(self, repo):
        self.repo = repo
        self.mod = repo.module(PATCHING)
        self.fn = repo.func(PATCHING, "apply_acl")
        self.gm = GuardMap(self.fn)
        self.pv = Provenance(self.fn)
        self.env = G.GuardEnv(rename=ren_acl)
        loops = [st for st in self.fn.body if isinstance(st, ast.For)]
        self.loop = None
        for st in loops:
            it = st.iter
            if isinstance(it, ast.Call) and isinstance(it.func, ast.Attribute) and it.func.attr == "items" \
                    and isinstance(it.func.value, ast.Name) and it.func.value.id == "config":
                self.loop = st
        if self.loop is None:
            raise AnchorError("apply_acl: top-level loop `for (row, children) in config.items()` not found")
        t = self.loop.target
        if not (isinstance(t, ast.Tuple) and len(t.elts) == 2 and all(isinstance(e, ast.Name) for e in t.elts)):
            raise AnchorError("apply_acl: loop target is not (row, children)")
        self.row, self.children = t.elts[0].id, t.elts[1].id
        # the result container
        rets = [n for n in walk_no_nested(self.fn) if isinstance(n, ast.Return)]
        final = self.fn.body[-1]
        if not (isinstance(final, ast.Return) and isinstance(final.value, ast.Name)):
            raise AnchorError("apply_acl: final `return <name>` not found")
        self.result = final.value.id
        self.returns = rets
        self.final = final
        # stores into the result
        self.stores = []
        for n in walk_no_nested(self.fn):
            if isinstance(n, ast.Assign):
                for tg in n.targets:
                    if isinstance(tg, ast.Subscript) and isinstance(tg.value, ast.Name) and tg.value.id == self.result:
                        self.stores.append((n, tg))
            elif isinstance(n, ast.Call) and isinstance(n.func, ast.Attribute) and isinstance(n.func.value, ast.Name) \
                    and n.func.value.id == self.result and n.func.attr in ("update", "setdefault", "__setitem__", "move_to_end", "pop", "popitem", "clear"):
                self.stores.append((n, None))
        self.match_call = [c for c in calls_in(self.fn) if call_name(c).split(".")[-1] == "match_row_to_acl"]
        if len(self.match_call) != 1:
            raise AnchorError("apply_acl: expected one match_row_to_acl call")
        self.match_call = self.match_call[0]
        # names bound from the match call: (match, children_rules)
        self.match_name = self.cr_name = None
        for n in walk_no_nested(self.fn):
            if isinstance(n, ast.Assign) and n.value is self.match_call and isinstance(n.targets[0], ast.Tuple) and len(n.targets[0].elts) == 2:
                a, b = n.targets[0].elts
                if isinstance(a, ast.Name) and isinstance(b, ast.Name):
                    self.match_name, self.cr_name = a.id, b.id
        if not self.match_name:
            raise AnchorError("apply_acl: `(match, children_rules) = match_row_to_acl(...)` not found")
        self.rec_calls = [c for c in calls_in(self.fn) if call_name(c) == "apply_acl"]
        self.raises = [n for n in walk_no_nested(self.fn) if isinstance(n, ast.Raise)]

    def formula(self, node):
        return self.gm.formula(node, self.env)
