"""C10 -- generators are confined to their ACL, own lines exclusively, and merge by union (structural clauses)."""
import ast

from sa import guards as G
from sa.flow import GuardMap, Provenance
from sa.repo import ordk, AnchorError, call_name, calls_in, dotted, norm, walk_no_nested, kwarg
from sa.util import bind_args
from rules.aclshape import ApplyAcl, PATCHING

GENS = "annet.generators"
RESULT = "annet.generators.result"


def run(c):
    c.explanation = ("Containment enforcement and error surfacing in _run_partial_generator, exclusivity plumbing and the per-generator AND in match_row_to_acl, "
                     "union fold of partial results, ACL tagging/normalisation per generator; plus abstract-row containment of the shipped generators (shared with C14.R2).")
    c.decides = ("fatal ACL on generator output (every depth) and conversion to GeneratorError; exclusivity flag plumbing and counting; union fold without filter; every "
                 "ACL line tagged with its generator and dedented per generator; shipped generators' yields within their own ACL")
    c.does_not_decide = "behaviour of arbitrary user generator programs; equality of the merged tree with the union of yielded paths"
    r1(c)
    r2(c)
    r3(c)
    r4(c)
    r5(c)
    r6(c)


def r1(c):
    repo = c.repo
    c.rule("C10.R1", "in _run_partial_generator, when run_args.use_acl, the config placed in the result is the value of apply_acl(config=<parsed output>, rules=<compiled from "
                     "gen.acl(device)>, fatal_acl=True, ...); the `except AclError` handler ends in `raise GeneratorError` on all paths; strictness reaches every depth (C06.R2)")
    m = repo.module(GENS)
    fn = repo.func(GENS, "_run_partial_generator")
    c.count("functions")
    gm = GuardMap(fn)
    pv = Provenance(fn)
    res = [x for x in calls_in(fn) if call_name(x) == "GeneratorPartialResult"]
    if len(res) != 1:
        raise AnchorError("_run_partial_generator: GeneratorPartialResult(...) not found")
    cfg = kwarg(res[0], "config")
    acl_calls = [x for x in calls_in(fn) if call_name(x).split(".")[-1] == "apply_acl"]
    strict = [x for x in acl_calls if isinstance(kwarg(x, "fatal_acl", 2), ast.Constant) and kwarg(x, "fatal_acl", 2).value is True]
    ok = len(strict) == 1
    c.check("C10.R1", ok, repo.loc(m, fn), "_run_partial_generator/strict-acl-call", f"{len(strict)} apply_acl(..., fatal_acl=True) calls (expected one): generator output is not checked strictly against its ACL",
            key_text="strict-call")
    if not ok:
        return
    sc = strict[0]
    f = gm.formula(sc, G.GuardEnv(), skip_early=True)
    c.check("C10.R1", G.equivalent(f, G.Atom("run_args.use_acl")), repo.loc(m, sc), "_run_partial_generator/strict-acl-guard", f"the strict ACL check runs under {G.show(f)}; expected exactly run_args.use_acl",
            key_text="strict-guard")
    # config flows: parse_to_tree -> apply_acl -> result
    a_cfg = kwarg(sc, "config", 0)
    ok = a_cfg is not None and any(call_name(x).endswith("parse_to_tree") for x in pv.origin_calls(a_cfg, through_calls=False))
    c.check("C10.R1", ok, repo.loc(m, sc), "_run_partial_generator/acl-input", "the tree checked against the ACL is not the parsed generator output", key_text="acl-input")
    ok = cfg is not None and any(x is sc for x in pv.origin_calls(cfg, through_calls=False))
    c.check("C10.R1", ok, repo.loc(m, res[0]), "_run_partial_generator/result-config", "the result's config is not the ACL-checked tree", key_text="result-config")
    # rules from gen.acl(device)
    a_rules = kwarg(sc, "rules", 1)
    oc = pv.origin_calls(a_rules, through_calls=True) if a_rules is not None else []
    ok = any(call_name(x) == "compile_acl_text" for x in oc) and any(norm(x.func) == "gen.acl" for x in oc)
    c.check("C10.R1", ok, repo.loc(m, sc), "_run_partial_generator/own-acl", "the rules used are not compiled from this generator's own gen.acl(device)", key_text="own-acl")
    # except AclError -> raise GeneratorError
    tries = [n for n in walk_no_nested(fn) if isinstance(n, ast.Try) and any(x is sc for x in ast.walk(n))]
    ok = False
    if tries:
        t = tries[0]
        for h in t.handlers:
            if h.type is not None and "AclError" in norm(h.type):
                last = h.body[-1] if h.body else None
                ok = isinstance(last, ast.Raise) and last.exc is not None and "GeneratorError" in norm(last.exc)
    c.check("C10.R1", ok, repo.loc(m, tries[0] if tries else fn), "_run_partial_generator/AclError->GeneratorError",
            "an AclError from the strict check is not converted into GeneratorError on every path (swallowed or logged only): the uncovered line would be silently dropped",
            key_text="error-conversion")
    # strictness must hold at every depth: apply_acl forwards fatal_acl to its recursive call
    A = ApplyAcl(repo)
    for rc in A.rec_calls:
        b = bind_args(rc, A.fn)
        e = b.get("fatal_acl")
        ok2 = isinstance(e, ast.Name) and e.id == "fatal_acl" and all(d.kind == "param" for d in A.pv.rd.defs(e))
        c.check("C10.R1", ok2, repo.loc(A.mod, rc), "apply_acl/recursive(fatal_acl=)", f"apply_acl passes fatal_acl={norm(e) if e is not None else 'its default (False)'} to its recursive call: "
                "an uncovered line yielded inside a covered block is dropped silently instead of failing the generator", key_text="fatal-depth")
    # no later rebinding of config that bypasses the check
    later = []
    if isinstance(cfg, ast.Name):
        for d in pv.rd.defs(cfg):
            if d.stmt is not None and ordk(d.stmt) > ordk(sc) and d.value is not None and not any(x is sc for x in pv.origin_calls(d.value, through_calls=False)):
                later.append(d.stmt)
    c.check("C10.R1", not later, repo.loc(m, later[0] if later else fn), "_run_partial_generator/no-rebind", "the result's config is rebound after the ACL check from something that did not pass it",
            key_text="rebind")


def r2(c):
    repo = c.repo
    c.rule("C10.R2", "exclusivity: _old_new_per_device passes exclusive = not args.no_acl_exclusive when filtering new and safe_new; old_new converts AclNotExclusiveError "
                     "into GeneratorError; in match_row_to_acl, under `exclusive`, the deletable flag of a generator is the AND over the flags of all its matching rules and the "
                     "error is raised iff more than one generator can delete the row")
    g = repo.module("annet.gen")
    fn = repo.func("annet.gen", "_old_new_per_device")
    c.count("functions", 3)
    calls = [x for x in calls_in(fn) if call_name(x).split(".")[-1] == "apply_acl" and x.args and norm(x.args[0]) in ("new", "safe_new")
             and len(x.args) > 1 and norm(x.args[1]) in ("acl_rules", "acl_safe_rules")]
    c.floor("C10.R2", "apply_acl(new|safe_new, <generator acl>) calls", len(calls), 2)
    for x in calls:
        e = kwarg(x, "exclusive", 3)
        ev = Provenance(fn).resolve_alias(e) if e is not None else None
        ok = e is not None and norm(ev).replace(" ", "") == "notctx.args.no_acl_exclusive"
        c.check("C10.R2", ok, repo.loc(g, x), f"_old_new_per_device/apply_acl({norm(x.args[0])})/exclusive", f"exclusive={norm(e) if e is not None else 'default False'}: "
                "two generators owning one deletable line would not be reported", key_text="exclusive-flag")
    on = repo.func("annet.gen", "old_new")
    ok = False
    for n in walk_no_nested(on):
        if isinstance(n, ast.ExceptHandler) and n.type is not None and "AclNotExclusiveError" in norm(n.type):
            last = n.body[-1] if n.body else None
            ok = isinstance(last, ast.Raise) and last.exc is not None and "GeneratorError" in norm(last.exc)
    c.check("C10.R2", ok, repo.loc(g, on), "old_new/AclNotExclusiveError->GeneratorError", "the exclusivity conflict is not surfaced as GeneratorError", key_text="excl-conversion")
    pm = repo.module(PATCHING)
    mr = repo.func(PATCHING, "match_row_to_acl")
    gm = GuardMap(mr)
    raises = [n for n in walk_no_nested(mr) if isinstance(n, ast.Raise) and n.exc is not None and "AclNotExclusiveError" in norm(n.exc)]
    if len(raises) != 1:
        c.violated("C10.R2", repo.loc(pm, mr), "match_row_to_acl/raise", "no (single) raise of AclNotExclusiveError", key_text="no-raise")
        return
    f = gm.formula(raises[0], G.GuardEnv())
    at = G.atoms(f)
    ok = G.implies(f, G.Atom("exclusive")) and G.implies(f, G.Atom("matches")) and any("1 < len(" in a for a in at)
    c.check("C10.R2", ok, repo.loc(pm, raises[0]), "match_row_to_acl/raise-guard", f"conflict raised under {G.show(f)}; expected matches ∧ exclusive ∧ more than one deletable generator", key_text="raise-guard")
    # AND accumulation per generator name
    and_ok = False
    for n in walk_no_nested(mr):
        if isinstance(n, ast.AugAssign) and isinstance(n.op, ast.BitAnd) and isinstance(n.target, ast.Subscript):
            and_ok = True
        if isinstance(n, ast.Assign) and isinstance(n.targets[0], ast.Subscript) and isinstance(n.value, (ast.BoolOp, ast.BinOp)):
            v = n.value
            if (isinstance(v, ast.BoolOp) and isinstance(v.op, ast.And)) or (isinstance(v, ast.BinOp) and isinstance(v.op, ast.BitAnd)):
                if norm(n.targets[0]) in norm(v):
                    and_ok = True
        if isinstance(n, ast.Call) and call_name(n) in ("all", "min") and gm.stmt(n) is not None and "flag" in norm(n):
            and_ok = True
    # the filter: generators whose combined flag is false
    filt_ok = any(isinstance(n, (ast.DictComp, ast.ListComp, ast.SetComp)) and n.generators[0].ifs and isinstance(n.generators[0].ifs[0], ast.UnaryOp)
                  for n in walk_no_nested(mr))
    # an overwrite of the per-name flag (dict.update(zip(names, flags)) / plain store) makes the last matching rule decide
    overwrite = [n for n in walk_no_nested(mr) if isinstance(n, ast.Call) and isinstance(n.func, ast.Attribute) and n.func.attr == "update" and any("zip" in norm(a) for a in n.args)]
    c.check("C10.R2", and_ok and filt_ok and not overwrite, repo.loc(pm, overwrite[0] if overwrite else mr), "match_row_to_acl/per-generator-AND",
            "the per-generator cant_delete flag is not the conjunction over all of the generator's matching rules (a later/less specific matching rule overwrites it): "
            "a generator with one deletable and one cant_delete rule on the row is miscounted", key_text="and-accumulation")
    # names and flags are zipped from the same match
    z = [x for x in calls_in(mr) if call_name(x) == "zip"]
    ok = bool(z) and len(z[0].args) == 2
    if ok:
        pv = Provenance(mr)
        srcs = [norm(pv.resolve_alias(a)).replace('"', "'") for a in z[0].args]
        ok = srcs[0].endswith("['attrs']['generator_names']") and srcs[1].endswith("['attrs']['cant_delete']") and srcs[0].split("['attrs']")[0] == srcs[1].split("['attrs']")[0]
    c.check("C10.R2", ok, repo.loc(pm, z[0] if z else mr), "match_row_to_acl/names-flags-aligned", "generator names and cant_delete flags are not taken pairwise from the same matching rule", key_text="zip")


def _leaf_values(pv, e, depth=0):
    """the expressions a value may be, following local assignments and both arms of conditional expressions"""
    if depth > 8:
        return {norm(e)}
    if isinstance(e, ast.IfExp):
        return _leaf_values(pv, e.body, depth + 1) | _leaf_values(pv, e.orelse, depth + 1)
    if isinstance(e, ast.Name):
        ds = pv.rd.defs(e)
        if ds and all(d.kind == "assign" and d.value is not None for d in ds):
            out = set()
            for d in ds:
                out |= _leaf_values(pv, d.value, depth + 1)
            return out
    return {norm(e)}


def _keeps_key(stmts):
    """the arm stores merged[key] or extends the value already stored there (either way the key stays in the result)"""
    for s in stmts:
        if isinstance(s, (ast.Assign, ast.AugAssign)) and norm((s.targets[0] if isinstance(s, ast.Assign) else s.target)) == "merged[key]":
            return True
        if isinstance(s, ast.Expr) and isinstance(s.value, ast.Call) and isinstance(s.value.func, ast.Attribute) and norm(s.value.func.value) == "merged[key]" \
                and s.value.func.attr in ("extend", "update", "append"):
            return True
    return False


def r3(c):
    repo = c.repo
    c.rule("C10.R3", "union fold: RunGeneratorResult.config_tree folds every partial result with merge_dicts (no filter); run_partial_generators adds every non-empty result; "
                     "merge_dicts assigns every key of every argument (drops nothing)")
    rm = repo.module(RESULT)
    fn = repo.func(RESULT, "RunGeneratorResult.config_tree")
    c.count("functions", 3)
    loops = [st for st in fn.body if isinstance(st, ast.For)]
    cgm = GuardMap(fn)
    md = [x for x in calls_in(fn) if call_name(x) == "merge_dicts"]
    ok = len(loops) == 1 and norm(loops[0].iter) == "self.partial_results.values()" and not [n for n in walk_no_nested(loops[0]) if isinstance(n, (ast.Continue, ast.Break, ast.Return))]
    pv = Provenance(fn)
    ret = [n for n in walk_no_nested(fn) if isinstance(n, ast.Return)][-1]
    if ok and len(md) == 1 and isinstance(ret.value, ast.Name):
        acc = ret.value.id
        st = cgm.stmt(md[0])
        # tree = merge_dicts(tree, <this result's config>) on every iteration
        ok = cgm.formula(md[0]) == G.T and cgm.in_loop(md[0]) == [loops[0]] and isinstance(st, ast.Assign) and norm(st.targets[0]) == acc and st.value is md[0] and norm(md[0].args[0]) == acc
        if ok and isinstance(loops[0].target, ast.Name):
            ev = loops[0].target.id
            srcs = _leaf_values(pv, md[0].args[1]) if len(md[0].args) == 2 else set()
            ok = bool(srcs) and srcs <= {f"{ev}.config", f"{ev}.safe_config"}
    else:
        ok = False
    c.check("C10.R3", ok, repo.loc(rm, fn), "config_tree/fold", "the desired config is not the merge_dicts fold over every partial result", key_text="fold")
    gm_ = repo.module(GENS)
    rp = repo.func(GENS, "run_partial_generators")
    gm = GuardMap(rp)
    ap = [x for x in calls_in(rp) if norm(x.func) == "ret.add_partial"]
    ok = len(ap) == 1
    if ok:
        f = gm.formula(ap[0], G.GuardEnv())
        ok = G.equivalent(f, G.Atom("result")) or f == G.T
    c.check("C10.R3", ok, repo.loc(gm_, ap[0] if ap else rp), "run_partial_generators/add_partial", f"a generator result is added only under {G.show(gm.formula(ap[0])) if ap else '?'}; expected: every non-empty result",
            key_text="add-partial")
    lm = repo.module("annet.annlib.lib")
    md = repo.func("annet.annlib.lib", "merge_dicts")
    loops = [n for n in walk_no_nested(md) if isinstance(n, ast.For) and "items()" in norm(n.iter)]
    ok = bool(loops)
    if ok:
        body = loops[0].body
        # the if/elif/else chain assigns merged[key] in every arm
        chain = body[0] if body and isinstance(body[0], ast.If) else None
        arms = 0
        assigned = 0
        n = chain
        while isinstance(n, ast.If):
            arms += 1
            assigned += _keeps_key(n.body)
            if n.orelse and isinstance(n.orelse[0], ast.If) and len(n.orelse) == 1:
                n = n.orelse[0]
            else:
                arms += 1
                assigned += _keeps_key(n.orelse)
                break
        ok = chain is not None and arms == assigned and not [x for x in walk_no_nested(loops[0]) if isinstance(x, (ast.Continue, ast.Break))]
        outer = [x for x in walk_no_nested(md) if isinstance(x, ast.For) and norm(x.iter) == "args"]
        ok = ok and bool(outer)
    c.check("C10.R3", ok, repo.loc(lm, md), "merge_dicts/assigns-every-key", "merge_dicts may drop a key of one of its arguments", key_text="merge-dicts")
    # list values are concatenated item for item: parallel lists (generator_names / cant_delete of a merged ACL rule) must stay aligned
    md_raw = repo.func("annet.annlib.lib", "merge_dicts", canon=False)
    list_arms = [b for n in ast.walk(md_raw) if isinstance(n, ast.If) and "isinstance" in norm(n.test) and "list" in norm(n.test) for b in n.body]
    if not list_arms:
        raise AnchorError("merge_dicts: the arm uniting list values not found")
    flt = [n for b in list_arms for n in ast.walk(b) if isinstance(n, (ast.ListComp, ast.GeneratorExp, ast.SetComp)) and any(g.ifs for g in n.generators)] + \
          [n for b in list_arms for n in ast.walk(b) if isinstance(n, ast.Call) and call_name(n) in ("set", "frozenset", "dict.fromkeys", "uniq", "filter") and n.args]
    c.check("C10.R3", not flt, repo.loc(lm, flt[0] if flt else md), "merge_dicts/lists-item-for-item", f"`{norm(flt[0])[:60] if flt else ''}` drops items while uniting list values: lists that are "
            "parallel by position (generator names and their cant_delete flags) get different lengths, so the exclusivity check pairs names with the wrong flags", key_text="merge-dicts-filter")
    # multi-line yields keep their relative indentation (it is block nesting): common margin removed, rows not stripped one by one
    bm = repo.module("annet.generators.base")
    ss = repo.func("annet.generators.base", "_split_and_strip", canon=False)
    ded = [x for x in calls_in(ss) if call_name(x).endswith("dedent")]
    per_row = [n for n in ast.walk(ss) if isinstance(n, (ast.ListComp, ast.GeneratorExp)) and isinstance(n.elt, ast.Call) and isinstance(n.elt.func, ast.Attribute)
               and n.elt.func.attr in ("strip", "lstrip")] + \
              [n for n in ast.walk(ss) if isinstance(n, ast.Call) and call_name(n) == "map" and n.args and norm(n.args[0]) in ("str.strip", "str.lstrip")]
    c.check("C10.R3", bool(ded) and not per_row, repo.loc(bm, per_row[0] if per_row else ss), "_split_and_strip/relative-indent", "a multi-line yield is not dedented as a whole (or its rows are "
            "stripped one by one): the lines lose the nesting they were written with and land at the enclosing block's level — outside the block path they were yielded in", key_text="dedent")


def r4(c, rid="C10.R4"):
    repo = c.repo
    c.rule(rid, "_combine_acl_text tags every non-blank ACL line of every result with %generator_names=<that result's name>, and normalises (dedents) each generator's "
                     "ACL text on its own before concatenation (generators indent their ACL literals differently)")
    rm = repo.module(RESULT)
    fn = repo.func(RESULT, "_combine_acl_text")
    c.count("functions")
    gm = GuardMap(fn)
    outer = [st for st in fn.body if isinstance(st, ast.For)]
    if not outer:
        raise AnchorError("_combine_acl_text: loop over results not found")
    o = outer[0]
    gvar = o.target.id if isinstance(o.target, ast.Name) else None
    tag = [n for n in walk_no_nested(fn) if isinstance(n, (ast.JoinedStr, ast.BinOp, ast.Constant)) and "%generator_names=" in norm(n)]
    ok = bool(tag)
    nonblank = None
    if ok:
        t = tag[0]
        holder = gm.stmt(t)
        uses_name = any(isinstance(x, ast.Attribute) and x.attr == "name" and isinstance(x.value, ast.Name) and x.value.id == gvar for x in ast.walk(holder))
        sites = [holder]
        if isinstance(holder, ast.Assign) and isinstance(holder.targets[0], ast.Name) and not isinstance(holder.targets[0], ast.Subscript) and len(gm.in_loop(holder)) < 2:
            # the tag is prepared once per result and attached to each line further down
            tv = holder.targets[0].id
            sites = [gm.stmt(x) for x in walk_no_nested(o) if isinstance(x, ast.Name) and x.id == tv and isinstance(x.ctx, ast.Load)]
            ok = gm.in_loop(holder) == [o] and gm.formula(holder) == G.T
        inner = [l for s_ in sites for l in gm.in_loop(s_)[1:2]]
        lv = inner[0].target.id if inner and isinstance(inner[0].target, ast.Name) else None
        nonblank = G.And(G.Atom("nonempty"), G.Not(G.Atom("blank")))
        env = G.GuardEnv(rename=lambda a_: {lv: "nonempty", f"{lv}.isspace()": "blank", f"{lv}.strip()": "nonblank2", f"len({lv}) > 0": "nonempty"}.get(a_, a_))
        ok = ok and uses_name and bool(sites) and lv is not None
        for s_ in sites:
            loops = gm.in_loop(s_)
            f = gm.formula(s_, env)
            ok = ok and len(loops) >= 2 and loops[0] is o and (G.equivalent(f, nonblank) or G.equivalent(f, G.Atom("nonblank2")))
    c.check(rid, ok, repo.loc(rm, tag[0] if tag else fn), "_combine_acl_text/tag-every-line", "not every non-blank ACL line is tagged with the name of the result it came from", key_text="tag")
    # dedent per generator: a dedent call inside the outer loop whose argument derives from acl_getter(gr)
    dd = [x for x in calls_in(fn) if call_name(x).endswith("dedent")]
    inside = [x for x in dd if any(y is x for y in ast.walk(o)) and any(isinstance(z, ast.Call) and norm(z.func) == "acl_getter" for z in ast.walk(x))]
    c.check(rid, bool(inside), repo.loc(rm, dd[0] if dd else fn), "_combine_acl_text/dedent-per-generator",
            "generators' ACL texts are not dedented one by one before being joined: with different base indentation one generator's top-level rules become children of "
            "another's last block, so the combined ACL covers lines no generator owns", key_text="dedent")
    skips = [n for n in walk_no_nested(o) if isinstance(n, (ast.Break, ast.Return))]
    if nonblank is not None:
        # `continue` is fine only for a blank line
        skips += [n for n in walk_no_nested(o) if isinstance(n, ast.Continue) and not (len(gm.in_loop(n)) >= 2 and not G.satisfiable(G.And(gm.formula(n, env), nonblank)))]
    else:
        skips += [n for n in walk_no_nested(o) if isinstance(n, ast.Continue)]
    c.check(rid, not skips, repo.loc(rm, skips[0] if skips else o), "_combine_acl_text/no-skip", "some results or lines are skipped", key_text="skip")


def r5(c):
    c.rule("C10.R5", "shipped generators stay inside their own ACL: every abstract row a run_<vendor> can emit is matched level by level against the acl_<vendor> literal of the "
                     "same class (rule C14.R2 applied to every PartialGenerator subclass under annet/rpl_generators and annet_generators)")
    try:
        from rules import c14
    except ImportError:
        c.undecided("C10.R5", "-", "abstract-row engine", "abstract-row containment (E9) not built yet")
        return
    c14.r2_containment(c, rid="C10.R5", include_examples=True)


def r6(c):
    """the block context managers of TreeGenerator decide under which block path a generator's lines are filed"""
    repo = c.repo
    BASE = "annet.generators.base"
    c.rule("C10.R6", "TreeGenerator's context managers: each generator-based context manager yields exactly once on every path; block() pushes the block row before and pops it after "
                     "its yield; block_if / multiblock_if open their block(s) exactly when the condition holds — whether passed in or defaulted — and the default condition "
                     "excludes exactly the absent-value markers (block_if: None and '' among the tokens; multiblock_if: None among the blocks), not every falsy token")
    m = repo.module(BASE)
    cls = repo.cls(BASE, "TreeGenerator")
    cms = []
    for st in cls.body:
        if isinstance(st, ast.FunctionDef) and any("contextmanager" in norm(d) for d in st.decorator_list) and any(isinstance(x, ast.Yield) for x in walk_no_nested(st)):
            cms.append(repo.func(BASE, f"TreeGenerator.{st.name}", canon=False))
    c.floor("C10.R6", "context managers", len(cms), 4)
    for fn in cms:
        c.count("functions")
        gm = GuardMap(fn)
        ys = [n for n in walk_no_nested(fn) if isinstance(n, ast.Yield)]
        fs = [gm.formula(y) for y in ys]
        once = all(not G.satisfiable(G.And(fs[i], fs[j])) for i in range(len(fs)) for j in range(i + 1, len(fs)))
        ok = once and G.equivalent(G.Or(*fs), G.T) and not any(gm.in_loop(y) for y in ys)
        c.check("C10.R6", ok, repo.loc(m, fn), f"TreeGenerator.{fn.name}/one-yield", f"yields under {[G.show(f) for f in fs]}: not exactly one yield on every path (contextlib raises "
                "'generator didn't yield' / 'didn't stop', or the body runs outside the block)", key_text="one-yield")
    byname = {f.name: f for f in cms}
    # block(): push ... yield ... pop
    blk = byname.get("block")
    if blk is None:
        raise AnchorError("TreeGenerator.block not found")
    y = [n for n in walk_no_nested(blk) if isinstance(n, ast.Yield)][0]
    pushes = [x for x in calls_in(blk) if isinstance(x.func, ast.Attribute) and x.func.attr == "append" and norm(x.func.value) in ("self._block_path", "self._indents")]
    pops = [x for x in calls_in(blk) if isinstance(x.func, ast.Attribute) and x.func.attr == "pop" and norm(x.func.value) in ("self._block_path", "self._indents")]
    emits = [x for x in calls_in(blk) if norm(x.func) == "self._append_text"]
    ok = {norm(x.func.value) for x in pushes} == {"self._block_path", "self._indents"} == {norm(x.func.value) for x in pops} and len(emits) == 1 \
        and all(ordk(x) < ordk(y) for x in pushes + emits) and all(ordk(x) > ordk(y) for x in pops) \
        and ordk(emits[0]) < ordk([x for x in pushes if norm(x.func.value) == "self._indents"][0])
    c.check("C10.R6", ok, repo.loc(m, blk), "TreeGenerator.block/push-pop", "block() does not emit its row, push path and indent before the body and pop both after it", key_text="push-pop")
    for name, seq, markers in (("block_if", "tokens", ("None", "''")), ("multiblock_if", "blocks", ("None",))):
        fn = byname.get(name)
        if fn is None:
            raise AnchorError(f"TreeGenerator.{name} not found")
        gm = GuardMap(fn)
        seqname = fn.args.vararg.arg if fn.args.vararg else seq
        cond = [a.arg for a in fn.args.kwonlyargs]
        if len(cond) != 1:
            raise AnchorError(f"TreeGenerator.{name}: the condition keyword not found")
        cv = cond[0]
        defaults = [n for n in walk_no_nested(fn) if isinstance(n, ast.Assign) and norm(n.targets[0]) == cv]
        if len(defaults) != 1:
            raise AnchorError(f"TreeGenerator.{name}: the default of `{cv}` not found")
        ren = lambda s_: s_.replace('"', "'")
        f = G.formula(defaults[0].value, G.GuardEnv(rename=ren))
        spec = G.And(*[G.Not(G.Atom(f"{mk} in {seqname}")) for mk in markers])
        c.check("C10.R6", G.equivalent(f, spec), repo.loc(m, defaults[0]), f"TreeGenerator.{name}/default-condition", f"the default condition is {G.show(f)}; expected {G.show(spec)}: a falsy but "
                "valid token (0, 0.0, False) would silently drop the block and file the body's lines one level up", key_text="default-condition")
        g = gm.formula(defaults[0])
        c.check("C10.R6", len(G.atoms(g)) == 1 and "Default" in list(G.atoms(g))[0] and G.satisfiable(g), repo.loc(m, defaults[0]), f"TreeGenerator.{name}/default-only-when-absent",
                f"`{cv}` is overwritten under {G.show(g)}; expected only when it was not passed", key_text="default-guard")
        opens = [n for n in walk_no_nested(fn) if isinstance(n, ast.With) and any(isinstance(x, ast.Call) and norm(x.func) == "self.block" for it in n.items for x in ast.walk(it.context_expr))]
        if len(opens) != 1:
            raise AnchorError(f"TreeGenerator.{name}: `with self.block(...)` not found")
        og = gm.formula(opens[0])
        want = G.Atom(cv) if name == "block_if" else G.And(G.Atom(cv), G.Atom(seqname))
        c.check("C10.R6", G.equivalent(og, want), repo.loc(m, opens[0]), f"TreeGenerator.{name}/opens-iff-condition", f"the block is opened under {G.show(og)}; expected {G.show(want)}: with "
                "an explicitly passed condition the blocks are not opened and the body's lines are filed under the enclosing block", key_text="opens-iff")
