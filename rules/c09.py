"""C09 -- the command stream sent at deploy is exactly the patch that was shown (structural clauses)."""
import ast

from sa import guards as G
from sa.flow import GuardMap, Provenance, Typestate
from sa.repo import ordk, AnchorError, call_name, calls_in, dotted, norm, walk_no_nested, kwarg
from sa.util import bind_args, calls_to
from sa.vendors import load_rule_texts, load_vendors
from rules.c18 import resolve_rulebook_function

API = "annet.api"
DEPLOY = "annet.deploy"
PATCHING = "annet.annlib.patching"
COMMON = "annet.annlib.rulebook.common"
TAB = "annet.annlib.tabparser"


def run(c):
    c.explanation = ("Guard algebra over every apply-logic function, positional/keyword binding of do_commit/do_finalize along the whole call chain, loop shape of "
                     "apply_deploy_rulebook, and class-hierarchy resolution of patch/cmd_paths for every vendor's formatter.")
    c.decides = ("commit commands guarded by do_commit in every apply logic; do_commit/do_finalize bound to the right parameters from --dont-commit down to the apply logic; one "
                 "Command per path, in order, grouped only adjacently; patch/cmd_paths defined together; block exits only in patches; multiplicity preserved; default timeouts agree")
    c.does_not_decide = "lines(formatter.patch(pt)) == cmd_paths(pt) on all trees"
    r1(c)
    r2(c)
    r3(c)
    r4(c)
    r5(c)
    r6(c)
    r7(c)
    r8(c)
    from rules import c07
    c07.r5(c, rid="C09.R9")
    r10(c)


def apply_logics(repo):
    out = [("common.apply", repo.module(COMMON), repo.func(COMMON, "apply"))]
    for t in load_rule_texts(repo):
        if t.kind != "deploy":
            continue
        for r in t.all_rows():
            if "apply_logic" in r.params:
                res = resolve_rulebook_function(repo, r.params["apply_logic"])
                if res and not any(x[2] is res[2] for x in out):
                    out.append((r.params["apply_logic"], res[0], res[2]))
    return out


def r1(c):
    repo = c.repo
    c.rule("C09.R1", "in every apply-logic function (common.apply and every %apply_logic of the deploy texts) each Command whose text starts with `commit` is added only on "
                     "paths whose condition implies do_commit")
    fns = apply_logics(repo)
    c.floor("C09.R1", "apply-logic functions", len(fns), 2)
    sites = 0
    for name, m, fn in fns:
        c.count("functions")
        gm = GuardMap(fn)
        pn = [a.arg for a in fn.args.args]
        if "do_commit" not in pn:
            c.violated("C09.R1", repo.loc(m, fn), f"{name}/signature", "apply logic has no do_commit parameter", key_text="sig")
            continue
        for call in calls_in(fn):
            if call_name(call).split(".")[-1] != "Command" or not call.args:
                continue
            a0 = call.args[0]
            extra = G.T
            if isinstance(a0, ast.Name):
                # the text chosen beforehand (`word = "commit" if do_commit else "abort"`): the commit text reaches the call only through its own definition
                from sa.flow import ReachingDefs
                rd_ = ReachingDefs(fn)
                for d in rd_.defs(a0):
                    if d.kind == "assign" and isinstance(d.value, ast.Constant) and isinstance(d.value.value, str) and d.value.value.strip().startswith("commit") and d.stmt is not None:
                        a0 = d.value
                        extra = gm.formula(d.stmt)
            if not (isinstance(a0, ast.Constant) and isinstance(a0.value, str) and a0.value.strip().startswith("commit")):
                continue
            sites += 1
            f = G.And(gm.formula(call), extra) if extra != G.T else gm.formula(call)
            c.check("C09.R1", G.implies(f, G.Atom("do_commit")), repo.loc(m, call), f"{name}/Command({a0.value!r})",
                    f"`{a0.value}` is sent under {G.show(f)}, which does not imply do_commit: with --dont-commit the configuration would still be committed", key_text="unguarded-commit")
    c.floor("C09.R1", "commit sites", sites, 8)


def forward(c, rid, m, caller, call, callee, pairs, where):
    """each (param of callee) must be bound at `call` to the caller's own variable of the given name"""
    pv = Provenance(caller)
    b = bind_args(call, callee)
    for p, want in pairs:
        e = b.get(p)
        ok = isinstance(e, ast.Name) and e.id == want and pv.derives_from_param(e, want, False)
        got = norm(e) if e is not None else "its default"
        c.check(rid, ok, c.repo.loc(m, call), f"{where}({p}=)", f"parameter `{p}` of {callee.name} receives `{got}` instead of the caller's `{want}`" +
                (" (positional arguments no longer line up with the signature)" if e is not None and isinstance(e, ast.Name) and e.id != want else ""), key_text=f"bind-{p}")


def r2(c):
    repo = c.repo
    c.rule("C09.R2", "do_commit plumbing: CliDeployerJob.parse_result passes `not args.dont_commit` to both _diff_and_patch and apply_deploy_rulebook; _diff_and_patch -> "
                     "patch_from_pre -> make_patch (incl. the recursive call) and deploy.apply_deploy_rulebook -> make_apply_commands -> apply_logic bind do_commit / do_finalize to "
                     "the parameters of those names (positional and keyword binding checked against the callee's signature)")
    am = repo.module(API)
    pr = repo.func(API, "CliDeployerJob.parse_result")
    c.count("functions", 6)
    d1 = [x for x in calls_in(pr) if call_name(x) == "_diff_and_patch"]
    d2 = [x for x in calls_in(pr) if isinstance(x.func, ast.Attribute) and x.func.attr == "apply_deploy_rulebook"]
    if len(d1) != 1 or len(d2) != 1:
        raise AnchorError("CliDeployerJob.parse_result: _diff_and_patch / apply_deploy_rulebook calls not found")
    dap = repo.func(API, "_diff_and_patch")
    e1 = bind_args(d1[0], dap).get("do_commit")
    e2 = kwarg(d2[0], "do_commit", 3)
    pvr = Provenance(pr)
    e1 = pvr.resolve_alias(e1) if e1 is not None else None
    e2 = pvr.resolve_alias(e2) if e2 is not None else None
    t1, t2 = (norm(e1) if e1 is not None else None), (norm(e2) if e2 is not None else None)
    ok = t1 is not None and t1 == t2 and t1.replace(" ", "") in ("notself.args.dont_commit", "notargs.dont_commit")
    c.check("C09.R2", ok, repo.loc(am, d2[0]), "parse_result/do_commit", f"patch is built with do_commit={t1} but the deploy wrapper with do_commit={t2}; both must be `not args.dont_commit`",
            key_text="same-flag")
    pfp = repo.func(API, "patch_from_pre")
    call = [x for x in calls_in(dap) if call_name(x) == "patch_from_pre"][0]
    forward(c, "C09.R2", am, dap, call, pfp, [("do_commit", "do_commit"), ("add_comments", "add_comments")], "_diff_and_patch/patch_from_pre")
    mp = repo.func(PATCHING, "make_patch")
    call = [x for x in calls_in(pfp) if call_name(x).endswith("make_patch")][0]
    forward(c, "C09.R2", am, pfp, call, mp, [("do_commit", "do_commit")], "patch_from_pre/make_patch")
    pm = repo.module(PATCHING)
    call = [x for x in calls_in(mp) if call_name(x) == "make_patch"][0]
    forward(c, "C09.R2", pm, mp, call, mp, [("do_commit", "do_commit"), ("hw", "hw"), ("add_comments", "add_comments")], "make_patch/recursive")
    dm = repo.module(DEPLOY)
    adr = repo.func(DEPLOY, "apply_deploy_rulebook")
    mac = repo.func(DEPLOY, "make_apply_commands")
    calls = [x for x in calls_in(adr) if call_name(x) == "make_apply_commands"]
    if len(calls) != 1:
        raise AnchorError("apply_deploy_rulebook: make_apply_commands call not found")
    forward(c, "C09.R2", dm, adr, calls[0], mac, [("do_commit", "do_commit"), ("do_finalize", "do_finalize"), ("hw", "hw")], "apply_deploy_rulebook/make_apply_commands")
    al = [x for x in calls_in(mac) if call_name(x) == "apply_logic"]
    if len(al) != 1:
        raise AnchorError("make_apply_commands: apply_logic call not found")
    pv = Provenance(mac)
    for p in ("do_commit", "do_finalize"):
        e = kwarg(al[0], p)
        ok = isinstance(e, ast.Name) and e.id == p and pv.derives_from_param(e, p, False)
        c.check("C09.R2", ok, repo.loc(dm, al[0]), f"make_apply_commands/apply_logic({p}=)", f"apply_logic receives {p}={norm(e) if e is not None else 'nothing'}", key_text=f"al-{p}")
    ok = bool(al[0].args) and norm(al[0].args[0]) == "hw"
    c.check("C09.R2", ok, repo.loc(dm, al[0]), "make_apply_commands/apply_logic(hw)", "apply_logic does not receive hw first", key_text="al-hw")
    # the driver interface and the module function agree on parameter order (drivers delegate positionally/by keyword)
    drv = repo.func(DEPLOY, "DeployDriver.apply_deploy_rulebook")
    a = [x.arg for x in drv.args.args if x.arg != "self"]
    b = [x.arg for x in adr.args.args]
    c.check("C09.R2", a == b, repo.loc(dm, adr), "apply_deploy_rulebook/signature-agreement", f"driver interface {a} vs module function {b}: a driver delegating positionally would swap flags", key_text="sig-agree")


def r3(c):
    repo = c.repo
    c.rule("C09.R3", "in make_patch an entry whose rule has force_commit is not collected when do_commit is false")
    m = repo.module(PATCHING)
    fn = repo.func(PATCHING, "make_patch")
    gm = GuardMap(fn)
    app = [x for x in calls_in(fn) if isinstance(x.func, ast.Attribute) and x.func.attr == "append" and norm(x.func.value) == "patch"]
    if not app:
        # one-pass form: rows are handed to the tree where they are produced; every such hand-over is an emission point
        app = [x for x in calls_in(fn) if isinstance(x.func, ast.Attribute) and x.func.attr in ("add", "add_block") and isinstance(x.func.value, ast.Name)
               and gm.in_loop(x) and not (x.args and isinstance(x.args[0], ast.Constant))]
    if not app or (len(app) != 1 and not all(x.func.attr in ("add", "add_block") for x in app)):
        raise AnchorError("make_patch: patch.append not found")

    def ren(s):
        s = s.replace('"', "'")
        return {"attrs.get('force_commit', False)": "force_commit", "attrs['force_commit']": "force_commit"}.get(s, s)
    ok = True
    for a_ in app:
        f = gm.formula(a_, G.GuardEnv(rename=ren), alias=True)
        ok = ok and G.implies(f, G.Not(G.And(G.Not(G.Atom("do_commit")), G.Atom("force_commit"))))
    c.check("C09.R3", ok, repo.loc(m, app[0]), "make_patch/force_commit-skipped", f"entries are collected under {G.show(f)}: a force_commit entry (and its `commit`) is still emitted when do_commit is false",
            key_text="force-commit")


def r4(c):
    repo = c.repo
    c.rule("C09.R4", "annet.deploy.apply_deploy_rulebook: the first loop iterates cmd_paths.items() and appends exactly one (Command(cmd_path[-1], **params), before, after) per "
                     "path with level = len(cmd_path) - 1 (no continue/break/filter); the second stage groups only *adjacent* commands with equal wrapper "
                     "(itertools.groupby on the list in order) and emits before, then every command of the group in order, then after")
    m = repo.module(DEPLOY)
    fn = repo.func(DEPLOY, "apply_deploy_rulebook")
    c.count("functions")
    gm = GuardMap(fn)
    pv = Provenance(fn)
    loops = [st for st in fn.body if isinstance(st, ast.For)]
    if len(loops) < 2:
        raise AnchorError("apply_deploy_rulebook: two top-level loops not found")
    l1 = loops[0]
    ok = norm(l1.iter) == "cmd_paths.items()" and not [n for n in walk_no_nested(l1) if isinstance(n, (ast.Continue, ast.Break, ast.Return))]
    c.check("C09.R4", ok, repo.loc(m, l1), "apply_deploy_rulebook/loop1", "the loop over cmd_paths.items() skips or stops at some command paths", key_text="l1-skip")
    app = [x for x in calls_in(l1) if isinstance(x.func, ast.Attribute) and x.func.attr == "append"]
    ok = len(app) == 1 and gm.formula(app[0]) == G.T
    c.check("C09.R4", ok, repo.loc(m, l1), "apply_deploy_rulebook/one-per-path", "not exactly one entry is appended per command path", key_text="l1-append")
    pathvar = l1.target.elts[0].id if isinstance(l1.target, ast.Tuple) else None
    cmds = [x for x in calls_in(l1) if call_name(x) == "Command"]
    ok = len(cmds) == 1 and cmds[0].args and norm(cmds[0].args[0]) == f"{pathvar}[-1]"
    c.check("C09.R4", ok, repo.loc(m, l1), "apply_deploy_rulebook/Command(path[-1])", "the Command text is not the last element of the command path", key_text="cmd-text")
    lev = [n for n in walk_no_nested(l1) if isinstance(n, ast.Assign) and norm(n.targets[0]).endswith(".level")]
    ok = len(lev) == 1 and norm(lev[0].value).replace(" ", "") == f"len({pathvar})-1"
    c.check("C09.R4", ok, repo.loc(m, l1), "apply_deploy_rulebook/level", "the nesting depth of a command is not len(path) - 1", key_text="level")
    # the collected record: a 3-tuple, or a record class built positionally / by keyword (field order from the class body)
    rec = app[0].args[0] if app and app[0].args else None
    rec_fields = None           # field name -> position, for attribute access on a record
    if isinstance(rec, ast.Call) and not isinstance(rec.func, ast.Attribute):
        r_ = repo.resolve_call(m, rec)
        if r_ and isinstance(r_[2], ast.ClassDef):
            names = [st.target.id for st in r_[2].body if isinstance(st, ast.AnnAssign) and isinstance(st.target, ast.Name)]
            if len(names) == 3:
                rec_fields = {n_: i for i, n_ in enumerate(names)}
                vals = list(rec.args) + [None] * (3 - len(rec.args))
                for k in rec.keywords:
                    if k.arg in rec_fields:
                        vals[rec_fields[k.arg]] = k.value
                if all(v_ is not None for v_ in vals):
                    rec = ast.Tuple(elts=vals, ctx=ast.Load())
    if app and isinstance(rec, ast.Tuple) and len(rec.elts) == 3:
        e = rec.elts
        mac = [x for x in calls_in(l1) if call_name(x) == "make_apply_commands"]
        okb = bool(mac) and all(isinstance(x, ast.Name) and any(d.kind == "unpack" and d.value is mac[0] for d in pv.rd.defs(x)) for x in e[1:])
        c.check("C09.R4", okb, repo.loc(m, app[0]), "apply_deploy_rulebook/wrapper-source", "before/after of an entry do not come from make_apply_commands for that path's rule", key_text="wrapper")
    # the rule deciding a command's parameters and wrapper is the one matched for this very path (all of it) and context
    ctxvar = l1.target.elts[1].id if isinstance(l1.target, ast.Tuple) and len(l1.target.elts) == 2 and isinstance(l1.target.elts[1], ast.Name) else None
    users = [x for x in calls_in(l1) if call_name(x) in ("make_cmd_params", "make_apply_commands") and x.args]
    if not users:
        raise AnchorError("apply_deploy_rulebook: make_cmd_params / make_apply_commands calls not found")
    for u in users:
        v = pv.resolve_alias(u.args[0])
        how = norm(v)[:60]
        ok = False
        if isinstance(v, ast.Call) and call_name(v).split(".")[-1] == "match_deploy_rule":
            ok = len(v.args) >= 3 and norm(v.args[1]) == pathvar and norm(v.args[2]) == ctxvar and gm.in_loop(v) and gm.in_loop(v)[-1] is l1 and gm.formula(v) == G.T
        elif isinstance(v, ast.Subscript) and isinstance(v.value, ast.Name):
            # a memo: complete only if its key holds the whole path and the context
            names = {x.id for x in ast.walk(pv.resolve_alias(v.slice)) if isinstance(x, ast.Name)}
            whole = any(isinstance(x, ast.Name) and x.id == pathvar and not isinstance(getattr(x, "_parent", None), ast.Subscript) for x in ast.walk(pv.resolve_alias(v.slice)))
            ok = whole and ctxvar in names
            how = f"memo {norm(v)[:40]} keyed by {norm(pv.resolve_alias(v.slice))[:60]}"
        c.check("C09.R4", ok, repo.loc(m, u), f"apply_deploy_rulebook/{call_name(u)}(rule)", f"the rule handed to {call_name(u)} is `{how}`, not match_deploy_rule(rules, {pathvar}, {ctxvar}) of this "
                "iteration: rules are nested and matched along the whole block path, so the same command text under another block gets another rule's timeout, dialogs and wrapper",
                key_text="rule-of-path")
    # second stage
    l2 = loops[1]
    it = l2.iter
    ok = isinstance(it, ast.Call) and call_name(it) in ("itertools.groupby", "groupby") and it.args and isinstance(it.args[0], ast.Name) and \
        any(x is app[0] or True for x in [1]) and norm(it.args[0]) == norm(app[0].func.value) if app else False
    c.check("C09.R4", ok, repo.loc(m, l2), "apply_deploy_rulebook/adjacent-grouping",
            f"commands are grouped by `{norm(it)[:70]}`; only adjacent grouping of the ordered list (itertools.groupby) keeps the shown order — collecting by wrapper key reorders "
            "commands across wrapper changes (A-B-A)", key_text="grouping")
    between = fn.body[fn.body.index(l1) + 1:fn.body.index(l2)] if l1 in fn.body and l2 in fn.body else []
    bad = [st for st in between if any(isinstance(x, ast.Call) and (call_name(x) in ("sorted",) or (isinstance(x.func, ast.Attribute) and x.func.attr in ("sort", "reverse")))
                                       for x in ast.walk(st) if not isinstance(st, ast.FunctionDef))]
    c.check("C09.R4", not bad, repo.loc(m, bad[0] if bad else l2), "apply_deploy_rulebook/no-resort", "the collected entries are re-sorted before being emitted", key_text="resort")
    # order inside a group: before, cmds, after
    inner = [st for st in l2.body if isinstance(st, ast.For)]

    def component(e_):
        """which component (0, 1, 2) of a group's first record an expression denotes: a name unpacked from <group>[0], or <group>[0].<field> of a record class"""
        v_ = e_
        if isinstance(v_, ast.Name):
            for d in pv.rd.defs(v_):
                if d.kind == "unpack" and d.index and len(d.index) == 1 and isinstance(d.value, ast.Subscript) and norm(d.value.slice) == "0":
                    return d.index[0]
            v_ = pv.resolve_alias(v_)
        if isinstance(v_, ast.Attribute) and rec_fields and v_.attr in rec_fields:
            base = pv.resolve_alias(v_.value)
            if isinstance(base, ast.Subscript) and norm(base.slice) == "0":
                return rec_fields[v_.attr]
        if isinstance(v_, ast.Subscript) and isinstance(v_.slice, ast.Constant) and isinstance(v_.value, ast.Subscript) and norm(v_.value.slice) == "0":
            return v_.slice.value
        return None
    seq = [norm(st.iter) for st in inner]
    comps = [component(st.iter) for st in inner]
    ok = len(inner) == 3 and comps[0] == 1 and comps[2] == 2 and comps[1] is None and all(any(isinstance(x, ast.Call) and isinstance(x.func, ast.Attribute) and x.func.attr == "add_cmd"
                                                                                   for x in ast.walk(st)) for st in inner)
    ok = ok and not [n for st in inner for n in walk_no_nested(st) if isinstance(n, (ast.Continue, ast.Break))]
    c.check("C09.R4", ok, repo.loc(m, l2), "apply_deploy_rulebook/group-order", f"a group is not emitted as before, commands, after (found loops over {seq})", key_text="group-order")


def formatter_classes(repo):
    vendors = load_vendors(repo)
    tm = repo.module(TAB)
    out = {}
    for vn, v in vendors.items():
        r = repo.resolve(v.mod, v.formatter)
        if not r or not isinstance(r[2], ast.ClassDef):
            raise AnchorError(f"vendor {vn}: formatter class {v.formatter} not resolved")
        out.setdefault(r[2].name, (r[0], r[2], []))[2].append(vn)
    return out


def r5(c):
    repo = c.repo
    c.rule("C09.R5", "for every vendor's formatter class: either patch and cmd_paths both resolve to CommonFormatter's (both consume self.blocks_and_context / self._blocks with "
                     "is_patch=True), or the resolved patch is defined in terms of self.cmd_paths(patch); a class overriding one without the other is reported")
    fc = formatter_classes(repo)
    c.floor("C09.R5", "formatter classes", len(fc), 12)
    for name, (m, cls, vns) in sorted(fc.items()):
        p = repo.class_attr(m, cls, "patch")
        q = repo.class_attr(m, cls, "cmd_paths")
        if not p or not q:
            raise AnchorError(f"{name}: patch/cmd_paths not resolvable")
        pc, qc = p[1].name, q[1].name
        if pc == "CommonFormatter" and qc == "CommonFormatter":
            c.holds("C09.R5", repo.loc(m, cls), f"{name}({','.join(vns)})", "both inherited from CommonFormatter", trivial=name != "CommonFormatter")
            continue
        uses = any(isinstance(x, ast.Call) and norm(x.func) == "self.cmd_paths" for x in ast.walk(p[2]))
        c.check("C09.R5", uses, repo.loc(p[0], p[2]), f"{name}({','.join(vns)})", f"patch resolves to {pc}.patch and cmd_paths to {qc}.cmd_paths, but patch is not defined through self.cmd_paths: "
                "the shown patch and the sent stream are computed by unrelated code", key_text="unpaired")
    base = repo.cls(TAB, "CommonFormatter")
    tm = repo.module(TAB)
    for meth in ("patch", "cmd_paths"):
        fn = repo.func(TAB, f"CommonFormatter.{meth}")
        calls = [x for x in calls_in(fn) if norm(x.func) in ("self._blocks", "self.blocks_and_context")]
        ok = len(calls) == 1 and (kwarg(calls[0], "is_patch", 1) is not None and isinstance(kwarg(calls[0], "is_patch", 1), ast.Constant) and kwarg(calls[0], "is_patch", 1).value is True)
        c.check("C09.R5", ok, repo.loc(tm, fn), f"CommonFormatter.{meth}/stream", f"{meth} does not consume the block stream with is_patch=True", key_text=f"stream-{meth}")


def r6(c):
    repo = c.repo
    c.rule("C09.R6", "BlockExitFormatter.blocks_and_context emits the exit statement only when is_patch and only right after the BlockEnd that returns to the entry level; every "
                     "override of block_exit either yields its own word or reaches super().block_exit(context)")
    tm = repo.module(TAB)
    fn = repo.func(TAB, "BlockExitFormatter.blocks_and_context")
    c.count("functions")
    gm = GuardMap(fn)
    ex = [x for x in calls_in(fn) if norm(x.func) == "self.block_exit"]
    if len(ex) != 1:
        raise AnchorError("BlockExitFormatter.blocks_and_context: self.block_exit call not found")

    loops = [l for l in gm.in_loop(ex[0]) if isinstance(l, ast.For)]
    augs = [n for n in walk_no_nested(fn) if isinstance(n, ast.AugAssign) and isinstance(n.target, ast.Name)]
    if not loops or not isinstance(loops[0].target, ast.Tuple) or not isinstance(loops[0].target.elts[0], ast.Name) or len({n.target.id for n in augs}) != 1:
        raise AnchorError("BlockExitFormatter.blocks_and_context: row loop / running block level not found")
    E, B = loops[0].target.elts[0].id, augs[0].target.id

    init0 = [n for n in walk_no_nested(fn) if isinstance(n, ast.Assign) and norm(n.targets[0]) == B]
    INIT = norm(Provenance(fn).resolve_alias(init0[0].value)) if len(init0) == 1 else "context.level"

    def ren(s):
        return {f"{E} is BlockEnd": "is_end", f"BlockEnd is {E}": "is_end", f"{E} is BlockBegin": "is_begin", f"BlockBegin is {E}": "is_begin",
                f"{B} == {INIT}": "at_level", f"{INIT} == {B}": "at_level"}.get(s, s)
    env = G.GuardEnv(rename=ren)
    # a row is never both markers
    axiom = G.Not(G.And(G.Atom("is_begin"), G.Atom("is_end")))
    f = gm.formula(ex[0], env, alias=True)
    spec = G.And(G.Atom("is_end"), G.Atom("at_level"), G.Atom("is_patch"))
    c.check("C09.R6", G.equivalent(G.And(f, axiom), G.And(spec, axiom)), repo.loc(tm, ex[0]), "BlockExitFormatter/exit-guard", f"block exit emitted under {G.show(f)}; expected BlockEnd ∧ back at entry level ∧ is_patch", key_text="exit-guard")
    inc = [n for n in augs if isinstance(n.op, ast.Add) and norm(n.value) == "1"]
    dec = [n for n in augs if isinstance(n.op, ast.Sub) and norm(n.value) == "1"]
    ok = len(inc) == 1 and len(dec) == 1 and len(augs) == 2 and G.equivalent(G.And(gm.formula(inc[0], env, alias=True), axiom), G.And(G.Atom("is_begin"), axiom)) and \
        G.equivalent(G.And(gm.formula(dec[0], env, alias=True), axiom), G.And(G.Atom("is_end"), axiom))
    init = [n for n in walk_no_nested(fn) if isinstance(n, ast.Assign) and norm(n.targets[0]) == B]
    # the level starts at the value it is later compared with (the entry level: context.level, or 0 for a relative count)
    ok = ok and len(init) == 1 and norm(Provenance(fn).resolve_alias(init[0].value)) == INIT and INIT in ("context.level", "0")
    c.check("C09.R6", ok, repo.loc(tm, fn), "BlockExitFormatter/level-tracking", "the running block level does not start at context.level and move +1 on BlockBegin / -1 on BlockEnd", key_text="level-tracking")
    for q, d in tm.defs.items():
        if isinstance(d, ast.FunctionDef) and q.endswith(".block_exit") and not q.startswith("BlockExitFormatter."):
            # the default arm -- the path on which none of the override's own tests of the row texts holds -- delegates to super().block_exit(context)
            from sa import symexec
            dc = repo.canon(tm, d)
            hist_ok = True
            n_default = 0
            for p_ in symexec.paths(dc.body):
                tests = [(t, pol) for t, pol in p_.conds]
                fml = G.And(*[(G.formula(t) if pol else G.Not(G.formula(t))) for t, pol in tests])
                rowatoms = [a_ for a_ in G.atoms(fml) if "startswith" in a_ or "endswith" in a_ or " == " in a_]
                allfalse = G.And(fml, *[G.Not(G.Atom(a_)) for a_ in rowatoms])
                if not G.satisfiable(allfalse):
                    continue
                n_default += 1
                delegated = any(k == "call" and isinstance(o.func, ast.Attribute) and o.func.attr == "block_exit" and isinstance(o.func.value, ast.Call) and call_name(o.func.value) == "super"
                                for k, o, _s in p_.events) or any(k == "yield" and any(isinstance(x, ast.Call) and isinstance(x.func, ast.Attribute) and x.func.attr == "block_exit"
                                                                                       and isinstance(x.func.value, ast.Call) and call_name(x.func.value) == "super" for x in ast.walk(o))
                                                                  for k, o, _s in p_.events)
                if not delegated:
                    hist_ok = False
            hist_ok = hist_ok and n_default >= 1
            c.check("C09.R6", hist_ok, repo.loc(tm, d), f"{q}/falls-back-to-super", "the default arm of the override (no test of the row matched) does not delegate to super().block_exit(context): ordinary blocks lose their exit word",
                    key_text="super")


def r7(c):
    repo = c.repo
    c.rule("C09.R7", "the default timeout constants agree: rulebook.deploying.DEFAULT_TIMEOUT, the `timeout` default of the deploy scheme and the fallback of deploy.make_cmd_params")
    dm = repo.module("annet.rulebook.deploying")
    v = dm.toplevel_assign("DEFAULT_TIMEOUT")
    a = v.value if isinstance(v, ast.Constant) else None
    fn = repo.func("annet.rulebook.deploying", "compile_deploying_text")
    b = None
    for call in calls_in(fn):
        sc = kwarg(call, "params_scheme", 1)
        if isinstance(sc, ast.Dict):
            for k, val in zip(sc.keys, sc.values):
                if isinstance(k, ast.Constant) and k.value == "timeout" and isinstance(val, ast.Dict):
                    for kk, vv in zip(val.keys, val.values):
                        if isinstance(kk, ast.Constant) and kk.value == "default":
                            b = vv.value if isinstance(vv, ast.Constant) else (a if isinstance(vv, ast.Name) and vv.id == "DEFAULT_TIMEOUT" else None)
    mc = repo.func(DEPLOY, "make_cmd_params")
    cc = None
    # the fallback: the returned dict whose timeout does not come from the rule (whichever arm of the `if rule` it sits in)
    rp = mc.args.args[0].arg if mc.args.args else "rule"
    for ret_ in [n for n in walk_no_nested(mc) if isinstance(n, ast.Return) and isinstance(n.value, ast.Dict)]:
        for k, val in zip(ret_.value.keys, ret_.value.values):
            if isinstance(k, ast.Constant) and k.value == "timeout" and not any(isinstance(x, ast.Name) and x.id == rp for x in ast.walk(val)):
                cc = val.value if isinstance(val, ast.Constant) else (a if "DEFAULT_TIMEOUT" in norm(val) else None)
    # the rule arm: the timeout a matching deploy rule carries reaches the command unchanged (an access path into the rule, at most `.get(k, default)`, `float(...)`
    # or `path or default` around it — the scheme validates a float >= 1, so these are the identity); any other operation on the way (int(), round(), arithmetic,
    # min/max) makes the value sent differ from the value the rule states for some legal `%timeout`
    def pure_path(e):
        if isinstance(e, ast.Name):
            if e.id == rp:
                return True
            defs = [n.value for n in walk_no_nested(mc) if isinstance(n, ast.Assign) and len(n.targets) == 1 and isinstance(n.targets[0], ast.Name) and n.targets[0].id == e.id]
            return len(defs) == 1 and pure_path(defs[0])
        if isinstance(e, ast.Subscript):
            return pure_path(e.value)
        if isinstance(e, ast.Attribute):
            return pure_path(e.value)
        if isinstance(e, ast.Call) and isinstance(e.func, ast.Attribute) and e.func.attr == "get" and not e.keywords:
            return pure_path(e.func.value)
        if isinstance(e, ast.Call) and isinstance(e.func, ast.Name) and e.func.id == "float" and len(e.args) == 1 and not e.keywords:
            return pure_path(e.args[0])
        if isinstance(e, ast.BoolOp) and isinstance(e.op, ast.Or):
            return pure_path(e.values[0])
        if isinstance(e, ast.IfExp):
            return all(pure_path(x) or isinstance(x, ast.Constant) or "DEFAULT_TIMEOUT" in norm(x) for x in (e.body, e.orelse))
        return False
    n_rule_arm = 0
    for ret_ in [n for n in walk_no_nested(mc) if isinstance(n, ast.Return) and isinstance(n.value, ast.Dict)]:
        for k, val in zip(ret_.value.keys, ret_.value.values):
            if isinstance(k, ast.Constant) and k.value == "timeout" and any(isinstance(x, ast.Name) and x.id == rp for x in ast.walk(val)):
                n_rule_arm += 1
                c.check("C09.R7", pure_path(val), repo.loc(repo.module(DEPLOY), val), "rule-timeout-unchanged",
                        f"the timeout of the matching deploy rule reaches the command as `{norm(val)[:80]}`: the value is transformed on the way, so a legal `%timeout` (any float >= 1) "
                        "is sent as a different number than the rule states", key_text="rule-timeout")
    c.count("tables", 3)
    ok = a is not None and a == b == cc
    c.check("C09.R7", ok, repo.loc(repo.module(DEPLOY), mc), "default-timeouts", f"DEFAULT_TIMEOUT={a}, scheme default={b}, make_cmd_params fallback={cc}: a command without a matching rule gets a different timeout "
            "depending on the path taken", key_text="timeouts")


def r8(c):
    repo = c.repo
    c.rule("C09.R8", "multiplicity is preserved: for every formatter whose patch is not itself defined through cmd_paths, the accumulator cmd_paths writes in its loop over the block "
                     "stream is list-like (or keyed with a per-occurrence component), not a mapping keyed by the command path — patch() renders a sequence and prints repeats")
    fc = formatter_classes(repo)
    done = set()
    for name, (m, cls, vns) in sorted(fc.items()):
        p = repo.class_attr(m, cls, "patch")
        q = repo.class_attr(m, cls, "cmd_paths")
        uses = any(isinstance(x, ast.Call) and norm(x.func) == "self.cmd_paths" for x in ast.walk(p[2]))
        if uses:
            c.holds("C09.R8", repo.loc(m, cls), f"{name}", "patch is rendered from cmd_paths: both sides agree by construction", trivial=True)
            continue
        fn = q[2]
        if id(fn) in done:
            c.holds("C09.R8", repo.loc(m, cls), f"{name}", f"inherits {q[1].name}.cmd_paths (reported once)", trivial=True)
            continue
        done.add(id(fn))
        rets = [n for n in walk_no_nested(fn) if isinstance(n, ast.Return) and isinstance(n.value, ast.Name)]
        if not rets:
            raise AnchorError(f"{q[1].name}.cmd_paths: accumulator not found")
        acc = rets[-1].value.id
        init = [n for n in walk_no_nested(fn) if isinstance(n, ast.Assign) and isinstance(n.targets[0], ast.Name) and n.targets[0].id == acc]
        kind = call_name(init[0].value) if init and isinstance(init[0].value, ast.Call) else norm(init[0].value) if init else "?"
        stores = [n for n in walk_no_nested(fn) if isinstance(n, ast.Assign) and isinstance(n.targets[0], ast.Subscript) and norm(n.targets[0].value) == acc]
        mapping = kind in ("odict", "OrderedDict", "dict", "{}", "collections.OrderedDict")
        users = [vn for nm, (_, _, vs) in fc.items() for vn in vs if repo.class_attr(fc[nm][0], fc[nm][1], "cmd_paths")[2] is fn]
        if mapping and stores:
            c.violated("C09.R8", repo.loc(q[0], stores[0]), f"{q[1].name}.cmd_paths", f"`{norm(stores[0])}` stores into a `{kind}` keyed by the command path: two identical sibling commands "
                       f"collapse into one in the deploy stream while patch() prints both (vendors: {', '.join(sorted(users))})", key_text="path-keyed-mapping")
        else:
            c.holds("C09.R8", repo.loc(q[0], fn), f"{q[1].name}.cmd_paths", f"accumulator kind {kind}")


def r10(c):
    repo = c.repo
    c.rule("C09.R10", "a command carries every dialog answer of its rule: deploy.make_cmd_params turns each entry of the rule's dialogs into one Question (a loop / comprehension "
                      "over <handler>._dialogs.items() without filter, skip or break) and rb_question_to_question answers with a Question or raises — it never returns None / "
                      "falls off its end; a dialog that is dropped silently leaves the device waiting at a prompt the rule knew the answer to")
    m = repo.module(DEPLOY)
    fn = repo.func(DEPLOY, "make_cmd_params")
    c.count("functions", 2)
    gm = GuardMap(fn)
    apps = [x for x in calls_in(fn) if isinstance(x.func, ast.Attribute) and x.func.attr == "append" and gm.in_loop(x)]
    loops = [l for x in apps for l in gm.in_loop(x) if isinstance(l, ast.For) and "_dialogs" in norm(l.iter)]
    if not apps or not loops:
        raise AnchorError("make_cmd_params: the loop turning the rule's dialogs into questions not found")
    lp = loops[-1]
    in_lp = [x for x in apps if any(l is lp for l in gm.in_loop(x))]
    rule_p = fn.args.args[0].arg if fn.args.args else "rule"
    ok = len(in_lp) == 1
    if ok:
        f = gm.formula(in_lp[0], G.GuardEnv())
        extra = [a for a in G.atoms(f) if a.replace(" ", "") not in (rule_p, f"bool({rule_p})", f"{rule_p}isnotNone")]
        ok = not extra and not [n for n in walk_no_nested(lp) if isinstance(n, (ast.Continue, ast.Break))]
    c.check("C09.R10", ok, repo.loc(m, lp), "make_cmd_params/every-dialog", "not every dialog of the matched rule becomes a question of the command (an entry is filtered out or skipped)", key_text="dialog-skipped")
    q = repo.func(DEPLOY, "rb_question_to_question")
    rets = [n for n in walk_no_nested(q) if isinstance(n, ast.Return)]
    bad = [r for r in rets if r.value is None or (isinstance(r.value, ast.Constant) and r.value.value is None)]
    from sa.flow import always_abrupt
    falls = always_abrupt(q.body) is None
    c.check("C09.R10", not bad and not falls and bool(rets), repo.loc(m, bad[0] if bad else q), "rb_question_to_question/answers-or-raises", "rb_question_to_question can answer None (or fall off its end): "
            "the dialog is silently left out of the command's questions", key_text="question-none")
