"""C07 -- rule patterns mean what the rule language says, in every rulebook kind (structural clauses)."""
import ast
import re

try:
    import re._parser as sre_parse  # py3.11+
    import re._constants as sre_c
except ImportError:  # pragma: no cover
    import sre_parse
    import sre_constants as sre_c

from sa import dsl, guards as G
from sa.flow import GuardMap, Provenance
from sa.pytexts import accumulate_paths, returned_texts
from sa.repo import ordk, AnchorError, call_name, calls_in, dotted, norm, walk_no_nested, kwarg
from sa.vendors import load_rule_texts, load_vendors
from rules import c01

SYNTAX = "annet.annlib.rbparser.syntax"


def run(c):
    c.explanation = ("The rule compiler's macro fragments are compared, as regular languages (re._parser ASTs), with the rule-language specification; "
                     "the three reverse-form siblings are folded symbolically; every shipped/embedded rule row is linted against the grammar; "
                     "%param names are checked against the scheme of the compiler that reads the file kind.")
    c.decides = "macro fragment languages; reverse-form siblings; grammar of every shipped rule row; %params known; match_deploy_rule descends path-wise"
    c.does_not_decide = "compile(p).match(r) == ref_match(p, r) for all patterns and rows (needs a regex engine run on generated inputs)"
    c.assumptions = ["Python's re module implements the regex fragments as documented"]
    r1(c)
    r2(c)
    r3(c)
    r4(c)
    r5(c)
    r6(c)
    r7(c)


# ------------------------------------------------------------------ regex helpers
def flat(rx: str):
    """flattened primitive sequence of a regex: groups removed (marked), repeats kept"""
    def walk(p):
        out = []
        for op, av in p:
            name = str(op)
            if op is sre_c.SUBPATTERN:
                out.append(("GROUP", av[0] is not None))
                out.extend(walk(av[3]))
                out.append(("END",))
            elif op in (sre_c.MAX_REPEAT, sre_c.MIN_REPEAT):
                lo, hi, sub = av
                out.append((name, lo, "inf" if hi == sre_c.MAXREPEAT else hi, tuple(walk(sub))))
            elif op is sre_c.IN:
                out.append(("IN", tuple(sorted(str(x) for x in av))))
            elif op is sre_c.BRANCH:
                out.append(("BRANCH", tuple(tuple(walk(b)) for b in av[1])))
            elif op is sre_c.LITERAL:
                out.append(("LIT", chr(av)))
            elif op is sre_c.AT:
                out.append(("AT", str(av)))
            elif op is sre_c.ANY:
                out.append(("ANY",))
            elif op is sre_c.CATEGORY:
                out.append(("CAT", str(av)))
            elif op in (sre_c.ASSERT, sre_c.ASSERT_NOT):
                out.append((name, av[0], tuple(walk(av[1]))))
            elif op is sre_c.GROUPREF:
                out.append(("REF", av))
            else:
                out.append((name, str(av)))
        return out
    return walk(sre_parse.parse(rx))


def lits(rx: str):
    s = set()

    def walk(seq):
        for t in seq:
            if t[0] == "LIT":
                s.add(t[1])
            for x in t[1:]:
                if isinstance(x, tuple):
                    if x and isinstance(x[0], tuple):
                        walk(x)
                    for y in x:
                        if isinstance(y, tuple) and y and isinstance(y[0], tuple):
                            walk(y)
    walk(flat(rx))
    return s


def is_nonspace_plus(seq) -> bool:
    """[^\\s]+ or \\S+ , greedy"""
    if len(seq) != 1 or seq[0][0] != "MAX_REPEAT":
        return False
    _, lo, hi, sub = seq[0]
    if lo != 1 or hi != "inf" or len(sub) != 1:
        return False
    s = sub[0]
    if s[0] == "IN":
        items = set(s[1])
        return items in ({"(NEGATE, None)", "(CATEGORY, CATEGORY_SPACE)"}, {"(CATEGORY, CATEGORY_NOT_SPACE)"})
    return False


def is_any_plus(seq) -> bool:
    return len(seq) == 1 and seq[0][0] == "MAX_REPEAT" and seq[0][1] == 1 and seq[0][2] == "inf" and seq[0][3] == (("ANY",),)


def is_word_plus(seq) -> bool:
    if len(seq) != 1 or seq[0][0] != "MAX_REPEAT" or seq[0][1] != 1 or seq[0][2] != "inf":
        return False
    sub = seq[0][3]
    return len(sub) == 1 and sub[0][0] == "IN" and set(sub[0][1]) == {"(CATEGORY, CATEGORY_WORD)"}


def strip_group(seq, capturing=True):
    """if seq is exactly one (capturing) group, return its body"""
    if len(seq) >= 2 and seq[0][0] == "GROUP" and seq[-1] == ("END",):
        depth = 0
        for i, t in enumerate(seq):
            if t[0] == "GROUP":
                depth += 1
            elif t == ("END",):
                depth -= 1
                if depth == 0 and i != len(seq) - 1:
                    return None
        return seq[1:-1]
    return None


def template(repl: str):
    """replacement template of re.sub -> text with back-references as \x01N"""
    out = ""
    i = 0
    while i < len(repl):
        ch = repl[i]
        if ch == "\\" and i + 1 < len(repl):
            nx = repl[i + 1]
            if nx.isdigit():
                out += "\x01" + nx
            elif nx == "\\":
                out += "\\"
            elif nx == "g":
                j = repl.index(">", i)
                out += "\x01" + repl[i + 3:j]
                i = j - 1
            else:
                out += "\\" + nx
            i += 2
            continue
        out += ch
        i += 1
    return out


def const(e):
    return e.value if isinstance(e, ast.Constant) and isinstance(e.value, str) else None


def macro_body(repo):
    """compile_row_regexp, or the same-module helper its macro body was extracted into"""
    m = repo.module(SYNTAX)
    entry = repo.func(SYNTAX, "compile_row_regexp", canon=False)

    def n_subs(f):
        return sum(1 for x in calls_in(f) if call_name(x) == "re.sub")
    if n_subs(entry) >= 5:
        return entry
    cands = []
    for x in calls_in(entry):
        r = repo.resolve_call(m, x)
        if r and isinstance(r[2], ast.FunctionDef) and r[0] is m:
            cands.append(r[2])
            for y in calls_in(r[2]):
                r2 = repo.resolve_call(m, y)
                if r2 and isinstance(r2[2], ast.FunctionDef) and r2[0] is m:
                    cands.append(r2[2])
    cands = [f for f in cands if n_subs(f) >= 5]
    chosen = cands[0] if cands else entry
    # the function that holds the macro substitutions, in canonical form of its own (module-level pattern constants substituted, no outer memo wrapped around it)
    return repo.canon(m, chosen) if getattr(chosen, "_canon_of", None) is None and getattr(chosen, "_named_of", None) is None else repo.canon(m, getattr(chosen, "_named_of", chosen))


# ------------------------------------------------------------------ R1
def r1(c):
    repo = c.repo
    c.rule("C07.R1", "compile_row_regexp's macro fragments, as regular languages: standalone `*` -> a capturing group of one-or-more non-blank characters; `*/X/` -> a "
                     "capturing group around X; a trailing `~` -> a capturing group of one-or-more of anything; default suffix -> blank-or-end boundary; blank runs -> \\s+; "
                     "(?i) removed and turned into IGNORECASE; user parentheses non-capturing when `*` is present; <name> -> named \\w+ group; the suffix applies exactly "
                     "when the row ends with neither `~` nor `...` and has no `~/`")
    m = repo.module(SYNTAX)
    # the macro body may have been extracted into a helper of the same module (macro_body follows resolved calls, depth <= 2); analyse that function on its own
    entry = repo.func(SYNTAX, "compile_row_regexp")
    raw = macro_body(repo)
    fn = repo.canon(m, raw) if getattr(raw, "_canon_of", None) is None else raw
    c.count("functions")
    gm = GuardMap(fn)
    # the working variable: the local the re.sub results are assigned to (the row text being rewritten)
    wv = {}
    for n_ in walk_no_nested(fn):
        if isinstance(n_, ast.Assign) and isinstance(n_.targets[0], ast.Name) and isinstance(n_.value, ast.Call) and call_name(n_.value) == "re.sub":
            wv[n_.targets[0].id] = wv.get(n_.targets[0].id, 0) + 1
    W = max(wv, key=wv.get) if wv else "row"
    subs = []
    for call in calls_in(fn):
        if call_name(call) == "re.sub" and len(call.args) >= 3:
            p, r = const(call.args[0]), const(call.args[1])
            if p is None or r is None:
                raise AnchorError("compile_row_regexp: re.sub with non-constant pattern/replacement")
            subs.append((call, p, r))
    c.floor("C07.R1", "re.sub macros", len(subs), 5)
    found = {}
    for call, p, r in subs:
        L = lits(p)
        t = template(r)
        at = repo.loc(m, call)
        if "*" in L and "/" in L:
            found["star_re"] = call
            fp = flat(p)
            # \*/(\S+)/ : literal *, /, group(nonspace+), /
            ok_p = fp[:2] == [("LIT", "*"), ("LIT", "/")] and fp[-1] == ("LIT", "/") and strip_group(fp[2:-1]) is not None and is_nonspace_plus(strip_group(fp[2:-1]))
            ok_r = t == "(\x011)"
            c.check("C07.R1", ok_p and ok_r, at, "compile_row_regexp/*/re/", f"`*/X/` macro is {p!r} -> {r!r}; expected: one blank-free regex between the slashes becomes a capturing group around it",
                    key_text="star_re")
        elif "*" in L:
            found["star"] = call
            fp = flat(p)
            ok_p = len(fp) >= 2 and fp[-1] == ("LIT", "*") and any(x[0] in ("BRANCH", "AT", "IN", "CAT", "GROUP") for x in fp[:-1]) and \
                ("AT_BEGINNING" in repr(fp[:-1]) and "CATEGORY_SPACE" in repr(fp[:-1]))
            body = None
            if t.startswith("\x011(") and t.endswith(")"):
                try:
                    body = flat(t[3:-1])
                except re.error:
                    body = None
            ok_r = body is not None and is_nonspace_plus(body)
            c.check("C07.R1", ok_p and ok_r, at, "compile_row_regexp/*", f"`*` macro is {p!r} -> {r!r}; expected: a star at the start of a word becomes a capturing group of exactly one word ([^\\s]+)",
                    key_text="star")
        elif "(" in L:
            found["paren"] = call
            ok = t in ("(?:\x011",)
            f = gm.formula(call, G.GuardEnv(rename=lambda s: s.replace('"', "'")))
            ok = ok and G.implies(f, G.Atom(f"'*' in {W}"))
            c.check("C07.R1", ok, at, "compile_row_regexp/parens", f"user parentheses macro {p!r} -> {r!r} under {G.show(f)}; expected '(' -> '(?:' only when the row has a `*`", key_text="paren")
        elif "<" in L and ">" in L:
            found["named"] = call
            mm = re.fullmatch(r"\(\?P<\x011>(.*)\)", t)
            ok = bool(mm) and is_word_plus(flat(mm.group(1)))
            c.check("C07.R1", ok, at, "compile_row_regexp/<name>", f"<name> macro {p!r} -> {r!r}; expected a named group of \\w+", key_text="named")
        elif "~" in L and "/" in L:
            found["tilde_re"] = call
            c.check("C07.R1", t == "\x011", at, "compile_row_regexp/~/re/", f"~/X/ macro replacement is {r!r}; expected the bare regex X", key_text="tilde_re")
        elif flat(p) == flat(r"\s+"):
            found["ws"] = call
            ok = t == "\\s+"
            c.check("C07.R1", ok, at, "compile_row_regexp/blank-runs", f"blank-run macro replacement is {r!r}; expected \\s+", key_text="ws")
            c.check("C07.R1", gm.formula(call) == G.T, at, "compile_row_regexp/blank-runs/unconditional", "blank runs are not always normalised", key_text="ws-guard")
    missing = [k for k in ("star_re", "star", "paren", "named", "tilde_re", "ws") if k not in found]
    if missing:
        raise AnchorError(f"compile_row_regexp: macros not located: {missing} (function restructured)")
    # order: */re/ must be expanded before the plain star
    c.check("C07.R1", ordk(found["star_re"]) < ordk(found["star"]) and ordk(found["paren"]) < ordk(found["star_re"]), repo.loc(m, found["star"]),
            "compile_row_regexp/order", "macro order changed: user parens must be neutralised first, then `*/re/`, then plain `*`", key_text="order")

    def ren(s):
        s = s.replace('"', "'")
        return {f"{W}.endswith('~')": "ends_tilde", f"{W}.endswith('...')": "ends_dots", f"'~/' in {W}": "has_tilde_re"}.get(s, s)
    env = G.GuardEnv(rename=ren)
    # trailing ~
    tail = suffix = dots = None
    for n in walk_no_nested(fn):
        if isinstance(n, ast.Assign) and isinstance(n.targets[0], ast.Name) and n.targets[0].id == W and isinstance(n.value, ast.BinOp) \
                and isinstance(n.value.left, ast.Subscript) and const(n.value.right) is not None:
            tail = n
        elif isinstance(n, ast.AugAssign) and isinstance(n.target, ast.Name) and n.target.id == W and const(n.value) is not None:
            suffix = n
        elif isinstance(n, ast.Assign) and isinstance(n.targets[0], ast.Name) and n.targets[0].id == W and isinstance(n.value, ast.BinOp) and isinstance(n.value.op, ast.Add) \
                and isinstance(n.value.left, ast.Name) and n.value.left.id == W and const(n.value.right) is not None:
            suffix = n          # `row = row + "<suffix>"`, the same statement as `row += "<suffix>"`
        elif isinstance(n, ast.Assign) and isinstance(n.targets[0], ast.Name) and n.targets[0].id == W and isinstance(n.value, ast.Subscript) and norm(n.value) == f"{W}[:-3]":
            dots = n
    if tail is None or suffix is None or dots is None:
        raise AnchorError("compile_row_regexp: trailing-~ / ... / suffix statements not located")
    body = strip_group(flat(const(tail.value.right)))
    ok = body is not None and is_any_plus(body) and norm(tail.value.left) == f"{W}[:-1]" and G.equivalent(gm.formula(tail, env), G.Atom("ends_tilde"))
    c.check("C07.R1", ok, repo.loc(m, tail), "compile_row_regexp/trailing~", f"trailing `~` becomes {const(tail.value.right)!r} under {G.show(gm.formula(tail, env))}; expected a capturing group of one-or-more of anything",
            key_text="tilde")
    c.check("C07.R1", G.equivalent(gm.formula(dots, env), G.And(G.Not(G.Atom("ends_tilde")), G.Atom("ends_dots"))), repo.loc(m, dots), "compile_row_regexp/...",
            "`...` is not stripped exactly when the row ends with it", key_text="dots")
    sx = const(suffix.value) if isinstance(suffix, ast.AugAssign) else const(suffix.value.right)
    fs = flat(sx)
    okb = False
    want = {(("IN", ("(CATEGORY, CATEGORY_SPACE)",)),), (("AT", "AT_END"),)}
    inner = fs
    if len(fs) == 1 and fs[0][0] == "ASSERT" and fs[0][1] == 1:
        inner = list(fs[0][2])
    if len(inner) == 3 and inner[0][0] == "GROUP" and inner[0][1] is False and inner[-1] == ("END",):
        inner = inner[1:-1]
    if len(inner) == 1 and inner[0][0] == "BRANCH":
        okb = set(inner[0][1]) == want
    c.check("C07.R1", okb, repo.loc(m, suffix), "compile_row_regexp/suffix", f"default suffix is {sx!r}; expected a blank-or-end boundary such as (?:\\s|$): without it `foo` matches `foobar`",
            key_text="suffix")
    spec = G.And(G.Not(G.Atom("ends_tilde")), G.Not(G.Atom("ends_dots")), G.Not(G.Atom("has_tilde_re")))
    c.check("C07.R1", G.equivalent(gm.formula(suffix, env), spec), repo.loc(m, suffix), "compile_row_regexp/suffix/guard",
            f"boundary suffix appended under {G.show(gm.formula(suffix, env))}; expected ¬ends(~) ∧ ¬ends(...) ∧ ¬has(~/)", key_text="suffix-guard")
    # (?i)
    ic = [n for n in walk_no_nested(fn) if isinstance(n, ast.AugAssign) and isinstance(n.op, ast.BitOr) and "IGNORECASE" in norm(n.value)]
    rp = [x for x in calls_in(fn) if isinstance(x.func, ast.Attribute) and x.func.attr == "replace" and x.args and const(x.args[0]) == "(?i)" and const(x.args[1]) == ""]
    ok = bool(ic) and bool(rp) and G.equivalent(gm.formula(ic[0], G.GuardEnv(rename=lambda s: s.replace('"', "'"))), G.Atom(f"'(?i)' in {W}"))
    c.check("C07.R1", ok, repo.loc(m, ic[0] if ic else fn), "compile_row_regexp/(?i)", "(?i) is not removed from the text and turned into re.IGNORECASE", key_text="flag-i")
    comp = [x for x in calls_in(fn) if call_name(x) == "re.compile"]
    ok = bool(comp) and any(isinstance(k.value, ast.Name) and k.value.id == "flags" for k in comp[0].keywords) or (comp and len(comp[0].args) > 1 and norm(comp[0].args[1]) == "flags")
    c.check("C07.R1", ok, repo.loc(m, comp[0] if comp else fn), "compile_row_regexp/flags", "the accumulated flags do not reach re.compile", key_text="flags")
    # cache key covers flags: functools cache on the entry point with both parameters, or a hand-written memo keyed by all of them
    decos = [norm(d) for d in entry.decorator_list]
    params = [a.arg for a in entry.args.args]
    mod_names = {t.id for st in m.tree.body if isinstance(st, (ast.Assign, ast.AnnAssign))
                 for t in ([st.target] if isinstance(st, ast.AnnAssign) else st.targets) if isinstance(t, ast.Name)}
    memo_keys = []
    for n in walk_no_nested(entry):
        if isinstance(n, ast.Subscript) and isinstance(n.value, ast.Name) and n.value.id in mod_names:
            memo_keys.append((n, n.slice))
        elif isinstance(n, ast.Call) and isinstance(n.func, ast.Attribute) and isinstance(n.func.value, ast.Name) and n.func.value.id in mod_names \
                and n.func.attr in ("get", "setdefault", "pop") and n.args:
            memo_keys.append((n, n.args[0]))
        elif isinstance(n, ast.Compare) and len(n.ops) == 1 and isinstance(n.ops[0], (ast.In, ast.NotIn)) and isinstance(n.comparators[0], ast.Name) \
                and n.comparators[0].id in mod_names:
            memo_keys.append((n, n.left))
    if not memo_keys:
        ok = any("lru_cache" in d or d.endswith("cache") for d in decos) or True
        c.holds("C07.R1", repo.loc(m, entry), "compile_row_regexp/cache-key", "no hand-written memo; functools caches key on all arguments (row, flags)")
    else:
        pv = Provenance(entry)
        bad = []
        for node, key in memo_keys:
            names = {nn.arg for kk, nn in pv.origins(key, through_calls=True) if kk == "param"}
            if not set(params) <= names:
                bad.append((node, sorted(set(params) - names)))
        c.check("C07.R1", not bad, repo.loc(m, bad[0][0] if bad else entry), "compile_row_regexp/cache-key",
                f"memo access `{norm(bad[0][0])[:60] if bad else ''}` is keyed without {bad[0][1] if bad else ''}: the same row compiled with and without IGNORECASE "
                "(%ignore_case, (?i)) returns whichever was compiled first", key_text="cache-key")


# ------------------------------------------------------------------ R2
P_MARK, R_MARK = "§", "¤"


def fold(e, env):
    """symbolic constant folding of string expressions over markers"""
    if isinstance(e, ast.Constant) and isinstance(e.value, str):
        return e.value
    if isinstance(e, ast.Name) and e.id in env:
        return env[e.id]
    if isinstance(e, (ast.Subscript, ast.Attribute)) and norm(e) in env:
        return env[norm(e)]
    if isinstance(e, ast.BinOp) and isinstance(e.op, ast.Add):
        a, b = fold(e.left, env), fold(e.right, env)
        return a + b if a is not None and b is not None else None
    if isinstance(e, ast.BinOp) and isinstance(e.op, ast.Mod):
        f = fold(e.left, env)
        args = e.right.elts if isinstance(e.right, ast.Tuple) else [e.right]
        vals = [fold(a, env) for a in args]
        if f is None or any(v is None for v in vals) or f.count("%s") != len(vals):
            return None
        for v in vals:
            f = f.replace("%s", v, 1)
        return f
    if isinstance(e, ast.JoinedStr):
        out = ""
        for v in e.values:
            if isinstance(v, ast.Constant):
                out += str(v.value)
            elif isinstance(v, ast.FormattedValue):
                x = fold(v.value, env)
                if x is None:
                    return None
                out += x
        return out
    if isinstance(e, ast.Call) and isinstance(e.func, ast.Attribute) and e.func.attr == "format":
        f = fold(e.func.value, env)
        vals = [fold(a, env) for a in e.args]
        if f is None or any(v is None for v in vals) or f.count("{}") != len(vals):
            return None
        for v in vals:
            f = f.replace("{}", v, 1)
        return f
    return None


def reverse_site(c, m, node, scope, prefix_name, row_expr_txt, construct, rid="C07.R2"):
    """check one reverse-form site: test startswith(P+' '), strip arm removes exactly P+' ' (or ^P\\s+), prepend arm builds 'P ROW'"""
    repo = c.repo
    env = {prefix_name: P_MARK}
    tests = []
    for n in ast.walk(scope):
        if isinstance(n, (ast.If, ast.IfExp)):
            for cl in ast.walk(n.test):
                if isinstance(cl, ast.Call) and isinstance(cl.func, ast.Attribute) and cl.func.attr == "startswith" and cl.args:
                    tests.append((n, cl))
    if len(tests) != 1:
        raise AnchorError(f"{construct}: startswith test of the reverse form not located ({len(tests)} candidates)")
    node, cl = tests[0]
    arg = fold(cl.args[0], env)
    recv = norm(cl.func.value)
    c.check(rid, arg == P_MARK + " ", repo.loc(m, cl), f"{construct}/negated-test",
            f"a row counts as negated when it startswith({norm(cl.args[0])}); expected <prefix> + ' ' — without the blank a first word that merely begins with the prefix letters "
            "(e.g. `notify ...` under prefix `no`) is taken for a negated rule", key_text="test")
    env[recv] = R_MARK
    negated = any(isinstance(x, ast.UnaryOp) and isinstance(x.op, ast.Not) and any(y is cl for y in ast.walk(x)) for x in ast.walk(node.test))
    if isinstance(node, ast.If):
        a_true, a_false = node.body, node.orelse
        if not a_false:
            # `if c: return X` followed by the other arm: the rest of the enclosing block is the else arm
            par = getattr(node, "_parent", None)
            for lst in (getattr(par, "body", None), getattr(par, "orelse", None)):
                if isinstance(lst, list) and node in lst:
                    a_false = lst[lst.index(node) + 1:]
    else:
        a_true, a_false = [node.body], [node.orelse]
    strip_arm, prep_arm = (a_false, a_true) if negated else (a_true, a_false)

    def arm_exprs(arm):
        out = []
        for st in arm:
            for n in ast.walk(st):
                if isinstance(n, (ast.Subscript, ast.BinOp, ast.Call, ast.JoinedStr)):
                    out.append(n)
        return out
    # strip arm: row[len(P + " "):]  or re.sub("^P\s+", "", row)
    ok_strip = False
    for n in arm_exprs(strip_arm):
        if isinstance(n, ast.Subscript) and isinstance(n.slice, ast.Slice) and n.slice.lower is not None and n.slice.upper is None:
            lo = n.slice.lower
            if isinstance(lo, ast.Call) and call_name(lo) == "len" and fold(lo.args[0], env) == P_MARK + " ":
                ok_strip = True
        if isinstance(n, ast.Call) and isinstance(n.func, ast.Attribute) and n.func.attr == "removeprefix" and len(n.args) == 1 and fold(n.args[0], env) == P_MARK + " ":
            ok_strip = True
        if isinstance(n, ast.Call) and call_name(n) == "re.sub" and len(n.args) >= 3:
            pat = fold(n.args[0], env)
            if pat in ("^" + P_MARK + "\\s+", "^" + P_MARK + " ") and fold(n.args[1], env) == "":
                ok_strip = True
    c.check(rid, ok_strip, repo.loc(m, node), f"{construct}/strip-arm", "the negated form is not turned back into the plain rule by removing exactly <prefix> + blank",
            key_text="strip")
    ok_prep = False
    for n in arm_exprs(prep_arm):
        v = fold(n, env)
        if v == P_MARK + " " + R_MARK:
            ok_prep = True
    c.check(rid, ok_prep, repo.loc(m, node), f"{construct}/prepend-arm", "the plain form is not negated as <prefix> + ' ' + row", key_text="prepend")


def ordering_reverse_site(c, rid):
    repo = c.repo
    om = repo.module("annet.annlib.rbparser.ordering")
    f3 = repo.func("annet.annlib.rbparser.ordering", "_compile_ordering")
    # the reverse form may be computed inline or by a helper of the module that takes (row, prefix)
    helper = None
    for n in ast.walk(f3):
        if isinstance(n, ast.Dict):
            for k, v in zip(n.keys, n.values):
                if isinstance(k, ast.Constant) and k.value == "reverse_regexp":
                    for x in ast.walk(v):
                        if isinstance(x, ast.Call) and isinstance(x.func, ast.Name) and isinstance(om.defs.get(x.func.id), ast.FunctionDef) and x.func.id != f3.name:
                            h = repo.func("annet.annlib.rbparser.ordering", x.func.id)
                            hp = [a.arg for a in h.args.args]
                            pi = [i for i, a in enumerate(x.args) if norm(a) == f3.args.args[1].arg]
                            ri = [i for i, a in enumerate(x.args) if i not in pi]
                            if len(pi) == 1 and len(ri) == 1 and len(hp) == 2:
                                helper = (h, hp[pi[0]], hp[ri[0]])
    if helper and not any(isinstance(x, ast.Call) and isinstance(x.func, ast.Attribute) and x.func.attr == "startswith" for x in ast.walk(f3)):
        reverse_site(c, om, helper[0], helper[0], helper[1], helper[2], "ordering.reverse_regexp", rid=rid)
    else:
        reverse_site(c, om, f3, f3, f3.args.args[1].arg, "attrs['row']", "ordering.reverse_regexp", rid=rid)


def r2(c):
    repo = c.repo
    c.rule("C07.R2", "the three reverse-form siblings (rulebook.patching._make_reverse, rbparser.acl._make_reverse, the reverse_regexp of ordering._compile_ordering) each "
                     "have both arms — strip `prefix + ' '` when the row starts with it, else prepend it — so that negating twice is the identity; the patching variant "
                     "maps `*`/`*/re/` and a trailing `~` to {} with the same placeholder extent as compile_row_regexp's `*/re/` macro and deletes inner `~/re/`")
    pm = repo.module("annet.rulebook.patching")
    f1 = repo.func("annet.rulebook.patching", "_make_reverse")
    reverse_site(c, pm, f1, f1, f1.args.args[1].arg, f1.args.args[0].arg, "patching._make_reverse")
    am = repo.module("annet.annlib.rbparser.acl")
    f2 = repo.func("annet.annlib.rbparser.acl", "_make_reverse")
    reverse_site(c, am, f2, f2, f2.args.args[1].arg, f2.args.args[0].arg, "acl._make_reverse")
    ordering_reverse_site(c, "C07.R2")
    c.count("functions", 3)
    # placeholder extent agreement
    star_macro = None
    for call in calls_in(macro_body(repo)):
        if call_name(call) == "re.sub" and const(call.args[0]) and "*" in lits(const(call.args[0])) and "/" in lits(const(call.args[0])):
            star_macro = const(call.args[0])
    subs = [(x, const(x.args[0]), const(x.args[1])) for x in calls_in(f1) if call_name(x) == "re.sub" and len(x.args) >= 3]
    star_rev = [s for s in subs if s[1] and "*" in lits(s[1])]
    tilde_rev = [s for s in subs if s[1] and "~" in lits(s[1])]
    if not star_rev or not tilde_rev or star_macro is None:
        raise AnchorError("patching._make_reverse: placeholder substitutions not located")

    def prim(rx):
        out = []
        for t in flat(rx):
            if t[0] in ("GROUP",) or t == ("END",):
                continue
            if t[0] in ("MAX_REPEAT", "MIN_REPEAT") and t[1] == 0 and t[2] == 1:
                # optional group: splice its body
                out.extend(x for x in t[3] if x[0] != "GROUP" and x != ("END",))
                continue
            out.append(t)
        return out
    a, b = prim(star_macro), prim(star_rev[0][1])
    c.check("C07.R2", a == b and star_rev[0][2] == "{}", repo.loc(pm, star_rev[0][0]), "patching._make_reverse/placeholder-extent",
            f"placeholder pattern {star_rev[0][1]!r} (-> {star_rev[0][2]!r}) delimits `*/re/` differently from the matcher's {star_macro!r}: the removal template keeps part of the regex text",
            key_text="extent")
    tr = tilde_rev[0]
    greedy = all(t[0] != "MIN_REPEAT" for t in flat(tr[1]))
    c.check("C07.R2", tr[2] == "" and greedy, repo.loc(pm, tr[0]), "patching._make_reverse/inner-tilde", f"inner `~/re/` pattern {tr[1]!r} -> {tr[2]!r}; expected greedy deletion", key_text="inner-tilde")
    t_assign = [n for n in walk_no_nested(f1) if isinstance(n, ast.Assign) and isinstance(n.value, ast.BinOp) and const(n.value.right) == "{}" and norm(n.value.left).endswith("[:-1]")]
    gm = GuardMap(f1)
    ok = bool(t_assign) and G.atoms(gm.formula(t_assign[0])) and all("~" in a and "-1" in a for a in G.atoms(gm.formula(t_assign[0])))
    c.check("C07.R2", bool(ok), repo.loc(pm, t_assign[0] if t_assign else f1), "patching._make_reverse/trailing-tilde", "a trailing `~` is not turned into one {} placeholder", key_text="trailing-tilde")


# ------------------------------------------------------------------ R3
def lint_row(row: str, kind: str):
    """problems of one row under the rule grammar (specification)"""
    probs = []
    toks = dsl.tokenize_row(row)
    for t in toks:
        if t.cls == dsl.T_GLUED_STAR:
            probs.append(("glued-star", f"`{t.text}`: a `*` glued to other characters is not a placeholder but a regex star on the previous character"))
        elif t.cls == dsl.T_GLUED_TILDE:
            probs.append(("glued-tilde", f"`{t.text}`: `~` is only meaningful as the last token, as a trailing word~, or as ~/re/"))
        if t.regex is not None and t.cls in (dsl.T_STAR_RE, dsl.T_TILDE_RE):
            err = dsl.regex_parses(t.regex)
            if err:
                probs.append(("bad-regex", f"`{t.text}`: {err}"))
    for i, t in enumerate(toks):
        if t.cls == dsl.T_TILDE and i != len(toks) - 1:
            probs.append(("tilde-not-last", "`~` before the end of the row"))
    err = dsl.row_regex_error(row)
    if err and not any(k == "bad-regex" for k, _ in probs):
        probs.append(("bad-regex", f"the row's regex does not compile: {err}"))
    return probs


def embedded_texts(repo):
    """(rel, lineno, kind, guards-text, text) for implicit literals and acl_*/ref_* returns of shipped generators"""
    out = []
    im = repo.module("annet.implicit")
    fn = repo.func("annet.implicit", "_implicit_tree")
    seen = set()
    for p in accumulate_paths(fn, "text"):
        for node, t in p.parts:
            if id(node) in seen:
                continue
            seen.add(id(node))
            out.append((im.rel, node.lineno, "implicit", "", t))
    for m in repo.modules.values():
        if not (m.name.startswith("annet.rpl_generators") or m.name.startswith("annet_generators")):
            continue
        for q, d in m.defs.items():
            if isinstance(d, ast.FunctionDef) and "." in q and (d.name.startswith("acl_") or d.name.startswith("ref_") or d.name in ("acl", "acl_safe")):
                for node, t, conds in returned_texts(d):
                    if t is not None:
                        out.append((m.rel, node.lineno, "acl" if not d.name.startswith("ref_") else "ref", q, t))
    return out


def r3(c, rid="C07.R3"):
    repo = c.repo
    c.rule(rid, "grammar lint of every rule text (*.rul, *.order, *.deploy, implicit._implicit_tree literals, acl_*/ref_* literals of shipped generators): "
                "every /re/ parses; `~` only last / trailing word~ / ~/re/; a `*` glued to other characters outside /.../ is not a placeholder; Mako %if/%endif balanced")
    n_files = n_lines = 0
    for t in load_rule_texts(repo):
        n_files += 1
        for no, msg in t.mako_problems:
            c.violated(rid, f"{t.rel}:{no}", f"{t.rel.split('/')[-1]}:mako", msg, key_text=msg)
        for r in t.all_rows():
            if r.type == "context":
                continue
            if t.kind == "deploy" and r.row.startswith(("dialog:", "ignore:")):
                continue
            n_lines += 1
            probs = lint_row(r.row, t.kind)
            if probs:
                for key, msg in probs:
                    c.violated(rid, f"{t.rel}:{r.line.no}", f"{t.rel.split('/')[-1]}:{r.row}", msg, key_text=key)
            else:
                c.holds(rid, f"{t.rel}:{r.line.no}", f"row:{r.row}", trivial=all(x.cls == dsl.T_WORD for x in dsl.tokenize_row(r.row)))
    c.analysed["text_files"] = n_files
    c.floor(rid, "rule rows in text files", n_lines, 1400)
    if n_files < 34:
        raise AnchorError(f"{rid}: only {n_files} rule text files (expected >= 34)")
    emb = embedded_texts(repo)
    n_emb = 0
    for rel, lineno, kind, q, text in emb:
        lines, probs = dsl.read_lines(text, mako=False)
        rows, _ = dsl.build_tree(lines)
        n_emb += 1
        for r in dsl.walk_rows(rows):
            if r.type == "context":
                continue
            pr = lint_row(r.row, kind)
            at = f"{rel}:{lineno + r.line.no - 1}"
            if pr:
                for key, msg in pr:
                    c.violated(rid, at, f"{rel.split('/')[-1]}:{q or kind}:{r.row}", msg, key_text=key)
            else:
                c.holds(rid, at, f"{kind}-row:{r.row}", trivial=all(x.cls == dsl.T_WORD for x in dsl.tokenize_row(r.row)))
    c.floor(rid, "embedded literals", n_emb, 25)


# ------------------------------------------------------------------ R4
def _scheme_keys(repo, mod, fn, v, depth=0):
    """the parameter names of a scheme: a dict literal, a local holding one, or the result of a same-module builder (literal + `scheme[<name>] = ...` stores, the name a
    constant or the variable of a loop over a literal tuple)"""
    if isinstance(v, ast.Dict):
        return {k.value for k in v.keys if isinstance(k, ast.Constant)}
    if isinstance(v, ast.Name):
        keys = set()
        hit = False
        for n in walk_no_nested(fn):
            if isinstance(n, ast.Assign) and len(n.targets) == 1 and norm(n.targets[0]) == v.id:
                k2 = _scheme_keys(repo, mod, fn, n.value, depth + 1) if not isinstance(n.value, ast.Name) else None
                if k2 is not None:
                    keys |= k2
                    hit = True
            if isinstance(n, ast.Assign) and isinstance(n.targets[0], ast.Subscript) and norm(n.targets[0].value) == v.id:
                sl = n.targets[0].slice
                if isinstance(sl, ast.Constant):
                    keys.add(sl.value)
                elif isinstance(sl, ast.Name):
                    loop = next((w for w in walk_no_nested(fn) if isinstance(w, ast.For) and isinstance(w.target, ast.Name) and w.target.id == sl.id and any(y is n for y in ast.walk(w))), None)
                    if loop is not None and isinstance(loop.iter, (ast.Tuple, ast.List)) and all(isinstance(e, ast.Constant) for e in loop.iter.elts):
                        keys |= {e.value for e in loop.iter.elts}
                    else:
                        return None         # a key that is not known statically: refuse rather than guess
        return keys if hit else None
    if isinstance(v, ast.Call) and depth < 3:
        r = repo.resolve_call(mod, v)
        if r and isinstance(r[2], ast.FunctionDef):
            h = repo.func(r[0].name, r[1])
            rets = [n for n in walk_no_nested(h) if isinstance(n, ast.Return) and n.value is not None]
            if len(rets) == 1:
                return _scheme_keys(repo, r[0], h, rets[0].value, depth + 1)
    return None


def schemes(repo):
    out = {}
    for kind, (modname, fname) in {"rul": ("annet.rulebook.patching", "compile_patching_text"), "order": ("annet.annlib.rbparser.ordering", "compile_ordering_text"),
                                   "deploy": ("annet.rulebook.deploying", "compile_deploying_text")}.items():
        fn = repo.func(modname, fname)
        keys = None
        for call in calls_in(fn):
            v = kwarg(call, "params_scheme", 1)
            if v is not None:
                keys = _scheme_keys(repo, repo.module(modname), fn, v) or keys
        if keys is None:
            raise AnchorError(f"{fname}: params_scheme literal not found")
        out[kind] = keys
    d = repo.module("annet.annlib.rbparser.acl").toplevel_assign("_PARAMS_SCHEME")
    out["acl"] = {k.value for k in d.keys if isinstance(k, ast.Constant)}
    return out


def r4(c):
    repo = c.repo
    c.rule("C07.R4", "every %name used in a rule text belongs to the parameter scheme of the compiler that reads that file kind (unknown names are silently ignored by _fill_and_validate)")
    sc = schemes(repo)
    c.count("tables", len(sc))
    n = 0
    for t in load_rule_texts(repo):
        for r in t.all_rows():
            if r.type == "context":
                continue
            for p in r.params:
                n += 1
                ok = p in sc[t.kind]
                c.check("C07.R4", ok, f"{t.rel}:{r.line.no}", f"{t.rel.split('/')[-1]}:%{p}@{r.row}", f"`%{p}` is not a parameter of the {t.kind} scheme {sorted(sc[t.kind])}: it is silently ignored",
                        key_text="unknown-param")
    for rel, lineno, kind, q, text in embedded_texts(repo):
        if kind != "acl":
            continue
        lines, _ = dsl.read_lines(text, mako=False)
        for ln in lines:
            row, params = dsl.split_params(ln.text)
            for p in params:
                n += 1
                c.check("C07.R4", p in sc["acl"], f"{rel}:{lineno + ln.no - 1}", f"{q}:%{p}@{row}", f"`%{p}` is not an ACL parameter", key_text="unknown-param")
    c.floor("C07.R4", "%params", n, 260)


# ------------------------------------------------------------------ R5
def r5(c, rid="C07.R5"):
    repo = c.repo
    c.rule(rid, "match_deploy_rule returns a rule only when depth == len(cmd_path) - 1; otherwise the search continues in that rule's children; the fallback is the "
                     "default rule with DEFAULT_TIMEOUT")
    m = repo.module("annet.rulebook.deploying")
    entry = fn = repo.func("annet.rulebook.deploying", "match_deploy_rule")
    c.count("functions")
    want0 = G.linear_relation(ast.parse("depth == len(cmd_path) - 1", mode="eval").body)

    def has_depth_test(f_):
        return any(isinstance(x, ast.Compare) and G.linear_relation(x) == want0 for x in ast.walk(f_))
    split = None
    if not has_depth_test(fn):
        # the per-level search may live in a helper that answers (rule | None, rules of the next level): `(found, rules) = helper(rules, ...)`; `if found is not None: return found`
        for x in calls_in(fn):
            r_ = repo.resolve_call(m, x)
            if r_ and isinstance(r_[2], ast.FunctionDef) and r_[0] is m and has_depth_test(r_[2]):
                st_ = GuardMap(fn).stmt(x)
                if isinstance(st_, ast.Assign) and isinstance(st_.targets[0], ast.Tuple) and len(st_.targets[0].elts) == 2 and all(isinstance(e_, ast.Name) for e_ in st_.targets[0].elts):
                    split = (st_.targets[0].elts[0].id, st_.targets[0].elts[1].id, x, repo.func("annet.rulebook.deploying", r_[1]))
        if split is None:
            raise AnchorError("match_deploy_rule: the depth test `depth == len(cmd_path) - 1` not found (neither here nor in a per-level helper)")
        FOUND, NEXT, hcall, fn = split
        # the entry hands the helper's answer on: returns the found rule when there is one, searches the next element in the rules the helper answered
        egm = GuardMap(entry)
        erets = [n for n in walk_no_nested(entry) if isinstance(n, ast.Return) and isinstance(n.value, ast.Name) and n.value.id == FOUND]
        okp = len(erets) == 1 and NEXT == norm(hcall.args[0]) if hcall.args else False
        if okp:
            fe = egm.formula(erets[0], G.GuardEnv(rename=lambda s_: "FOUND_" if s_.replace(" ", "") == f"{FOUND}isnotNone" else "NOFOUND_" if s_.replace(" ", "") == f"{FOUND}isNone" else s_))
            okp = G.equivalent(fe, G.Atom("FOUND_")) or G.equivalent(fe, G.Not(G.Atom("NOFOUND_"))) or G.equivalent(fe, G.Atom(FOUND))
        c.check(rid, bool(okp), repo.loc(m, hcall), "match_deploy_rule/per-level-helper", "the answer of the per-level helper is not handed on as (rule found -> returned; otherwise the next "
                "element is searched in the rules it answered)", key_text="split-pass")
    gm = GuardMap(fn)
    rets = [n for n in walk_no_nested(fn) if isinstance(n, ast.Return)]
    if split:
        inner = [r for r in rets if isinstance(r.value, ast.Tuple) and len(r.value.elts) == 2 and isinstance(r.value.elts[0], ast.Name)]
    else:
        inner = [r for r in rets if isinstance(r.value, ast.Name)]
    ok = len(inner) == 1
    if ok:
        f = gm.formula(inner[0], alias=True)
        # depth == len(cmd_path) - 1, in any linear spelling
        want = G.linear_relation(ast.parse("depth == len(cmd_path) - 1", mode="eval").body)
        depth_atoms = []
        for t, pol in gm.of(inner[0]):
            for x in ast.walk(t):
                if isinstance(x, ast.Compare) and G.linear_relation(x) == want:
                    depth_atoms.append(x)
        ok = bool(depth_atoms) and any(G.implies(f, G.formula(x, G.GuardEnv())) for x in depth_atoms)
        ok = ok and any(".match(row)" in a for a in G.atoms(f))
    c.check(rid, ok, repo.loc(m, inner[0] if inner else fn), "match_deploy_rule/return-depth", "a rule is returned other than for the last element of the command path after matching every level", key_text="depth")
    if split:
        # the rules of the next level: the name returned as second element by the helper's fall-through return
        tails = [r for r in rets if isinstance(r.value, ast.Tuple) and len(r.value.elts) == 2 and isinstance(r.value.elts[1], ast.Name) and not isinstance(r.value.elts[0], ast.Name)]
        nxt = tails[-1].value.elts[1].id if tails else None
        desc = [n for n in walk_no_nested(fn) if isinstance(n, ast.Assign) and nxt and norm(n.targets[0]) == nxt and "children" in norm(n.value)]
    else:
        desc = [n for n in walk_no_nested(fn) if isinstance(n, ast.Assign) and norm(n.targets[0]) == "rules" and "children" in norm(n.value)]
    c.check(rid, bool(desc), repo.loc(m, fn), "match_deploy_rule/descend", "the search does not descend into the matched rule's children", key_text="descend")
    if desc and ok:
        # the descent is unconditional for a rule matched above the last element: what follows a childless match is the default rule, not the siblings of the match
        fd = gm.formula(desc[0], alias=True)
        fr = gm.formula(inner[0], alias=True)
        depth_f = [G.formula(x, G.GuardEnv()) for x in depth_atoms]
        # fd must be: (conditions of the return, except the depth test) and not depth test
        base = G.And(*[g for g in (fr[1:] if fr[0] == "and" else [fr]) if g not in depth_f])
        want_desc = G.And(base, G.Not(depth_f[0])) if depth_f else base
        c.check(rid, G.equivalent(fd, want_desc), repo.loc(m, desc[0]), "match_deploy_rule/descend-guard", f"the search descends under {G.show(fd)}; expected: whenever the rule matched "
                "above the last element of the path — with an extra condition (e.g. only when the rule has children) commands inside a block matched by a childless rule are "
                "matched against that rule's siblings instead of getting the defaults", key_text="descend-guard")
    rets = [n for n in walk_no_nested(entry) if isinstance(n, ast.Return)]
    dflt = [r for r in rets if isinstance(r.value, ast.Dict)]
    ok = bool(dflt) and "DEFAULT_TIMEOUT" in norm(dflt[0].value) and dflt[0] is [st for st in entry.body if not isinstance(st, ast.Pass)][-1]
    c.check(rid, ok, repo.loc(m, fn), "match_deploy_rule/default", "the fallback is not the default rule with DEFAULT_TIMEOUT", key_text="default")


# ------------------------------------------------------------------ R6
def r6(c, rid="C07.R6"):
    """the words of a rule end where its %parameters begin: both are decided in syntax._parse_raw_rule, once by a regex (which parameters), once by a cut (which words)"""
    repo = c.repo
    c.rule(rid, "syntax._parse_raw_rule: the parameters are recognised by the rule language's parameter pattern (blank, `%`, a name, an optional `=value` without blanks; "
                     "compared as regex syntax trees with the specification in sa/dsl.py) and the row text is cut at a delimiter at least as wide as that pattern's lead-in "
                     "(the literal `%`, or a regex beginning like the parameter pattern): a narrower delimiter (one particular blank before `%`) leaves `%name` inside the row of "
                     "a rule whose parameters are separated by a tab or a line continuation; and the cut happens only "
                     "where a parameter was recognised (under the truth of the recognised parameters or of the match that found them): a `%` that introduces no parameter "
                     "(`neighbor fe80::1%Et1 ~`) belongs to the row")
    m = repo.module(SYNTAX)
    fn = repo.func(SYNTAX, "_parse_raw_rule")
    c.count("functions")
    pv = Provenance(fn)
    raw = fn.args.args[0].arg
    fa = [x for x in calls_in(fn) if call_name(x) in ("re.findall", "re.finditer") and x.args and const(pv.resolve_alias(x.args[0]))]
    if len(fa) != 1:
        raise AnchorError("_parse_raw_rule: parameter pattern not found")
    pat = const(pv.resolve_alias(fa[0].args[0]))
    c.check(rid, flat(pat) == flat(dsl.PARAM_RE.pattern), repo.loc(m, fa[0]), "_parse_raw_rule/param-pattern",
            f"parameter pattern {pat!r} differs from the rule language's {dsl.PARAM_RE.pattern!r}", key_text="param-pattern")
    lead = flat(pat)[:2]
    # the cut: stores into the raw-rule variable whose value slices / partitions / splits it
    cuts = []
    for n in walk_no_nested(fn):
        if isinstance(n, ast.Assign) and norm(n.targets[0]) == raw:
            for x in ast.walk(n.value):
                if isinstance(x, ast.Call) and isinstance(x.func, ast.Attribute) and x.func.attr in ("partition", "split", "index", "find", "rpartition") and x.args and norm(x.func.value) == raw:
                    cuts.append((x, const(pv.resolve_alias(x.args[0])), "literal"))
                elif isinstance(x, ast.Call) and call_name(x) in ("re.split", "re.search", "re.match") and x.args:
                    cuts.append((x, const(pv.resolve_alias(x.args[0])), "regex"))
                elif isinstance(x, ast.Name) and x.id != raw and isinstance(x.ctx, ast.Load):
                    v = pv.resolve_alias(x)
                    if isinstance(v, ast.Call) and isinstance(v.func, ast.Attribute) and v.func.attr in ("index", "find") and v.args and norm(v.func.value) == raw:
                        cuts.append((v, const(pv.resolve_alias(v.args[0])), "literal"))
                    elif isinstance(v, ast.Call) and call_name(v) in ("re.search", "re.match") and v.args:
                        cuts.append((v, const(pv.resolve_alias(v.args[0])), "regex"))
    cuts = [k for k in cuts if k[1] is not None]
    if not cuts:
        raise AnchorError("_parse_raw_rule: the cut of the row before its parameters not found")
    for node, d, kind in cuts:
        if kind == "literal":
            ok = d == "%"
        else:
            ok = flat(d)[:2] == lead or flat(d) == flat("%")
        c.check(rid, ok, repo.loc(m, node), "_parse_raw_rule/row-cut", f"the row is cut at {d!r} ({kind}) while parameters are recognised after any blank (`\\s%`): a parameter written after a tab or a "
                "continuation line is parsed as a parameter AND stays in the row text, so the rule's regexp demands the literal text `%name` and matches nothing", key_text="row-cut")
    # the row handed on is single-spaced: reverse forms are built by prefix slicing (`row[len(prefix + " "):]`) and word templates, which only line up on single blanks
    rets = [n for n in walk_no_nested(fn) if isinstance(n, ast.Return) and n.value is not None]
    okn = False
    for r_ in rets:
        e0 = r_.value.elts[0] if isinstance(r_.value, ast.Tuple) and r_.value.elts else r_.value
        v_ = pv.resolve_alias(e0)
        if isinstance(v_, ast.Call) and call_name(v_) == "re.sub" and len(v_.args) >= 3 and const(v_.args[0]) is not None and flat(const(v_.args[0])) == flat(r"\s+") and const(v_.args[1]) == " ":
            okn = True
        if isinstance(v_, ast.Call) and isinstance(v_.func, ast.Attribute) and v_.func.attr == "join" and const(v_.func.value) == " " and v_.args \
                and isinstance(v_.args[0], ast.Call) and isinstance(v_.args[0].func, ast.Attribute) and v_.args[0].func.attr == "split" and not v_.args[0].args:
            okn = True
    c.check(rid, okn, repo.loc(m, rets[-1] if rets else fn), "_parse_raw_rule/row-single-spaced", "the row is handed on without collapsing runs of blanks / tabs to one space: the direct regexp still "
            "matches (blank runs become \\s+), but every reverse form (patching template, ACL and ordering reverse regexps) is built by slicing `prefix + ' '` off the row and no "
            "longer lines up for a rule written with a tab or two blanks", key_text="row-not-normalised")
    # the cut is applied only where a parameter was recognised
    gm = GuardMap(fn)
    found = set()
    for n in walk_no_nested(fn):
        if isinstance(n, ast.Assign) and isinstance(n.targets[0], ast.Name):
            v = n.value
            if any(isinstance(x, ast.Call) and call_name(x) in ("re.findall", "re.finditer", "re.search", "re.match", "re.split") for x in ast.walk(v)):
                found.add(n.targets[0].id)
        if isinstance(n, ast.For) and any(isinstance(x, ast.Call) and call_name(x) in ("re.findall", "re.finditer") for x in ast.walk(n.iter)):
            # the loop form of the same table: names filled from the matches
            for x in ast.walk(n):
                if isinstance(x, ast.Assign) and isinstance(x.targets[0], ast.Subscript) and isinstance(x.targets[0].value, ast.Name):
                    found.add(x.targets[0].value.id)
                if isinstance(x, ast.Call) and isinstance(x.func, ast.Attribute) and x.func.attr in ("append", "add", "update", "setdefault") and isinstance(x.func.value, ast.Name):
                    found.add(x.func.value.id)
    for n in walk_no_nested(fn):
        if isinstance(n, ast.Assign) and norm(n.targets[0]) == raw and any(isinstance(x, ast.Slice) for x in ast.walk(n.value)):
            conds = gm.of(n)
            guarded = any(pol and any(isinstance(x, ast.Name) and x.id in found for x in ast.walk(t)) for t, pol in conds)
            by_regex = any(isinstance(x, ast.Call) and call_name(x) in ("re.search", "re.match", "re.split") for x in ast.walk(n.value)) or any(
                isinstance(x, ast.Name) and x.id in found and isinstance(pv.resolve_alias(x), ast.Call) and call_name(pv.resolve_alias(x)) in ("re.search", "re.match") for x in ast.walk(n.value))
            c.check(rid, guarded or by_regex, repo.loc(m, n), "_parse_raw_rule/cut-only-with-params", f"`{norm(n)}` cuts the row at the first `%` although no parameter was recognised there "
                    "(the cut is not under the truth of the recognised parameters): a row with a literal `%` (link-local `fe80::1%Et1`, `%` in a description) loses its tail, "
                    "the rule then covers other lines than the one written", key_text="cut-unguarded")



# ------------------------------------------------------------------ R7
CASE_CHANGERS = ("lower", "upper", "casefold", "title", "capitalize", "swapcase", "strip", "lstrip", "rstrip", "replace", "translate", "expandtabs")


def r7(c):
    """all rulebook kinds share one compiler only if they hand it the rule's words as written"""
    repo = c.repo
    c.rule("C07.R7", "every compiler of a rulebook kind (patching._attrs_to_regexp, ordering._compile_ordering, acl._compile_acl, deploying, implicit.compile_tree) hands "
                     "compile_row_regexp the row text of the parsed rule as it is — attrs['row'], or its negated form built by the reverse-form helper — without case or "
                     "whitespace rewriting, and does not overwrite attrs['row']: regex escapes such as \\S / \\D and the literal words copied into the removal template are "
                     "case-sensitive even when the match itself is not (%ignore_case is a flag, not a rewrite)")
    n = 0
    for m, q, fn in repo.all_functions(canon=True):
        if not m.name.startswith("annet"):
            continue
        calls = [x for x in calls_in(fn) if call_name(x).split(".")[-1] == "compile_row_regexp" and x.args and repo.enclosing_func(x) in (fn, getattr(fn, "_canon_of", None), None)]
        if not calls or q == "compile_row_regexp":
            continue
        pv = Provenance(fn)
        stores = [st for st in walk_no_nested(fn) if isinstance(st, (ast.Assign, ast.AugAssign)) and any(
            isinstance(t, ast.Subscript) and isinstance(t.slice, ast.Constant) and t.slice.value == "row" for t in (st.targets if isinstance(st, ast.Assign) else [st.target]))]
        for x in calls:
            n += 1
            arg = x.args[0]
            bad = None
            seen_ = set()
            todo = [arg]
            while todo:
                e = todo.pop()
                if id(e) in seen_:
                    continue
                seen_.add(id(e))
                for y in ast.walk(e):
                    if isinstance(y, ast.Call) and isinstance(y.func, ast.Attribute) and y.func.attr in CASE_CHANGERS:
                        bad = y
                    if isinstance(y, ast.Name):
                        for d in pv.rd.defs(y):
                            if d.value is not None and d.kind in ("assign", "aug"):
                                todo.append(d.value)
            if stores and bad is None:
                bad = stores[0]
            c.check("C07.R7", bad is None, repo.loc(m, x), f"{m.name.split('.', 1)[-1]}:{q}/row-as-written", f"the row handed to compile_row_regexp is rewritten by `{norm(bad)[:60] if bad is not None else ''}`: "
                    "upper-case regex escapes (\\S, \\D, \\W) change their meaning and the removal command is built from the rewritten words", key_text="row-rewritten")
    c.floor("C07.R7", "compile_row_regexp call sites", n, 6)
