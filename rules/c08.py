"""C08 -- ordering follows the ordering rulebook and only permutes lines (structural clauses)."""
import ast

from sa import dsl, logictable, guards as G
from sa.flow import GuardMap, Provenance
from sa.repo import AnchorError, call_name, calls_in, dotted, norm, walk_no_nested, kwarg
from sa.vendors import load_rule_texts

PATCHING = "annet.annlib.patching"
COMMON = "annet.annlib.rulebook.common"


def run(c):
    c.explanation = ("Shape of the two orderers (PatchTree.sort/make_patch and Orderer.order_config/get_order) decided on the AST with reaching definitions and guard "
                     "algebra; removal-before-re-creation from the decision tables of undo_redo/ordered; duplicate-row lint of the shipped .order texts.")
    c.decides = "sorting only permutes (no filter, stable, recursive); sort-key locality and sign convention in both orderers; removal before re-creation; get_order branch table; no duplicate sibling ordering rows"
    c.does_not_decide = "ref_rank(c1) < ref_rank(c2) => c1 before c2 on all inputs; idempotence on values"
    r1(c)
    r2(c)
    r3(c)
    r4(c)
    r5(c)
    r6(c)
    r7(c)


def r1(c):
    repo = c.repo
    c.rule("C08.R1", "permutation only: PatchTree.sort sorts self.itms in place with the stable list.sort keyed by sort_key and sorts every child; make_patch adds one tree "
                     "item per collected entry and sorts before returning; Orderer.order_config appends one record per config item unconditionally, orders children with a "
                     "child Orderer built from the rules get_order returned for that row, and builds its result from sorted(...) without a filter")
    m = repo.module(PATCHING)
    fn = repo.func(PATCHING, "PatchTree.sort")
    c.count("functions", 3)
    sorts = [x for x in calls_in(fn) if isinstance(x.func, ast.Attribute) and x.func.attr == "sort" and norm(x.func.value) == "self.itms"]
    ok = len(sorts) == 1 and any(k.arg == "key" and "sort_key" in norm(k.value) for k in sorts[0].keywords) and not any(k.arg == "reverse" for k in sorts[0].keywords)
    c.check("C08.R1", ok, repo.loc(m, fn), "PatchTree.sort/in-place-stable", "items are not sorted in place with list.sort(key=sort_key) (stable, nothing added or dropped)", key_text="sort")
    reassign = [n for n in walk_no_nested(fn) if isinstance(n, ast.Assign) and norm(n.targets[0]) == "self.itms"]
    c.check("C08.R1", not reassign, repo.loc(m, reassign[0] if reassign else fn), "PatchTree.sort/no-rebuild", f"`{norm(reassign[0])[:60] if reassign else ''}` rebuilds the item list while sorting (may drop/duplicate commands)", key_text="rebuild")
    gm = GuardMap(fn)
    rec = [x for x in calls_in(fn) if isinstance(x.func, ast.Attribute) and x.func.attr == "sort" and not x.args and not x.keywords and x not in sorts]
    ok = len(rec) == 1
    if ok:
        # every item's child (when there is one) is sorted: the loop walks self.itms, possibly through a list of the non-empty children
        f = gm.formula(rec[0])
        lp = gm.in_loop(rec[0])
        ok = bool(lp) and isinstance(lp[-1], ast.For)
        if ok:
            bases, filters = Provenance(fn).iteration_bases(lp[-1].iter)
            ok = bases == {"self.itms"} and all("child" in norm(t) for t in filters) and all("child" in a for a in G.atoms(f))
            recv = rec[0].func.value
            tgt = lp[-1].target.id if isinstance(lp[-1].target, ast.Name) else None
            ok = ok and (norm(recv) == f"{tgt}.child" or (norm(recv) == tgt and filters != [] or norm(recv) == tgt and "child" in norm(lp[-1].iter) or
                                                              (norm(recv) == tgt and any("child" in norm(d.value) for d in Provenance(fn).rd.defs(lp[-1].iter) if d.value is not None) if isinstance(lp[-1].iter, ast.Name) else False)))
    c.check("C08.R1", ok, repo.loc(m, fn), "PatchTree.sort/recursive", "children blocks are not all sorted recursively", key_text="recursive")
    # make_patch: tree.sort() before return, one item per entry
    mp = repo.func(PATCHING, "make_patch")
    gm2 = GuardMap(mp)
    rets = [n for n in walk_no_nested(mp) if isinstance(n, ast.Return)]
    tv = norm(rets[0].value) if rets and rets[0].value is not None else "tree"
    ts = [x for x in calls_in(mp) if norm(x) == f"{tv}.sort()"]
    ok = len(rets) == 1 and len(ts) == 1 and gm2.formula(ts[0]) == G.T and isinstance(rets[0].value, ast.Name)
    c.check("C08.R1", ok, repo.loc(m, mp), "make_patch/sorted-before-return", "the patch tree is not (unconditionally) sorted before it is returned", key_text="mp-sort")
    loop = [st for st in mp.body if isinstance(st, ast.For) and norm(st.iter) == "patch"]
    ok = len(loop) == 1 and not [n for n in walk_no_nested(loop[0]) if isinstance(n, (ast.Continue, ast.Break, ast.Return))]
    if not loop and not any(isinstance(x.func, ast.Attribute) and x.func.attr == "append" and norm(x.func.value) == "patch" for x in calls_in(mp)):
        # one-pass form (no intermediate list): there is no second loop that could skip a collected entry; what is emitted per produced row is decided by C01.R3 / C09.R3
        ok = True
    c.check("C08.R1", ok, repo.loc(m, mp), "make_patch/one-item-per-entry", "the loop that turns collected entries into tree items skips entries", key_text="mp-loop")
    # order_config
    oc = repo.func(PATCHING, "Orderer.order_config")
    gm3 = GuardMap(oc)
    if _reversed_sorted(oc):
        fl = _reversed_sorted(oc)[0]
        c.violated("C08.R1", repo.loc(m, fl), "order_config/result", f"the result is assembled from `{norm(fl)[:60]}`, a reversed sorted sequence, not from one stable sort of the records "
                   "(rows of equal order change places)", key_text="oc-result")
        return
    rc = ranked_config(repo, m, oc)
    loop, app = rc["loop"], rc["append"]
    ok = gm3.formula(app) == gm3.formula(loop) and not [n for n in walk_no_nested(loop) if isinstance(n, (ast.Continue, ast.Break, ast.Return))]
    c.check("C08.R1", ok, repo.loc(m, loop), "order_config/one-record-per-row", "a config row may be skipped (or recorded twice) while ordering", key_text="oc-append")
    rowv, chv = loop.target.elts[0].id, loop.target.elts[1].id
    c.check("C08.R1", rc["row"] is not None and norm(rc["row"]) == rowv, repo.loc(m, app), "order_config/record.row", "recorded row is not the config row", key_text="oc-row")
    # children ordered by a child orderer built from the rules get_order returned for this very row
    ch = rc["children"]
    ok = isinstance(ch, ast.Call) and isinstance(ch.func, ast.Attribute) and ch.func.attr == "order_config" and len(ch.args) == 1 and norm(ch.args[0]) == chv \
        and isinstance(ch.func.value, ast.Call) and call_name(ch.func.value) == "Orderer" and ch.func.value.args and _n(ch.func.value.args[0]) == rc["go"][2] \
        and rc["go_call"].args and norm(rc["go_call"].args[0]) == rowv
    c.check("C08.R1", bool(ok), repo.loc(m, loop), "order_config/children", "children are not ordered by a child Orderer built from the rules get_order returned for this row", key_text="oc-children")
    ok = rc["projection_ok"] and not rc["filters"] and not rc["reverse"]
    c.check("C08.R1", ok, repo.loc(m, rc["sort"]), "order_config/result", "the result is not built from the sorted records without a filter as (row, children) pairs", key_text="oc-result")
    ret = [n for n in walk_no_nested(oc) if isinstance(n, ast.Return)][-1]
    early = [n for n in walk_no_nested(oc) if isinstance(n, ast.Return) and n is not ret]
    for n in early:
        f = gm3.formula(n)
        txt = norm(n.value) if n.value is not None else ""
        ok = txt in ("config", "odict()") and all(("config" in a or "vendor" in a) for a in G.atoms(f))
        c.check("C08.R1", ok, repo.loc(m, n), f"order_config/early-return:{txt}", f"early `return {txt}` under {G.show(f)} may drop rows", key_text=f"early-{txt}")


def _n(e):
    return norm(e).replace('"', "'")


def _is_neg_of(e, txt):
    return isinstance(e, ast.UnaryOp) and isinstance(e.op, ast.USub) and _n(e.operand) == txt


def sign_convention_ok(first, conds, order_txt, direct_txt):
    """`first` (first component of a sort key, symbolically evaluated) is order when direct and -order otherwise, either as a conditional
    expression or because the path it was computed on decides the flag"""
    if first is None:
        return False
    if isinstance(first, ast.IfExp):
        t, neg = first.test, False
        while isinstance(t, ast.UnaryOp) and isinstance(t.op, ast.Not):
            t, neg = t.operand, not neg
        if _n(t) != direct_txt:
            return False
        a, b = (first.orelse, first.body) if neg else (first.body, first.orelse)
        return _n(a) == order_txt and _is_neg_of(b, order_txt)
    env = G.GuardEnv(rename=lambda s_: "direct" if s_.replace('"', "'") == direct_txt else s_)
    f = G.And(*[(G.formula(t, env) if pol else G.Not(G.formula(t, env))) for t, pol in conds])
    if G.implies(f, G.Atom("direct")) and G.satisfiable(f):
        return _n(first) == order_txt
    if G.implies(f, G.Not(G.Atom("direct"))) and G.satisfiable(f):
        return _is_neg_of(first, order_txt)
    return False


def apply_key(repo, m, keyf, record):
    """the value a sort-key callable gives for `record` (a Dict/Tuple literal over the loop's variables): lambda, operator.itemgetter/attrgetter, or a module-level function"""
    from sa import symexec
    if isinstance(keyf, ast.Lambda) and keyf.args.args:
        return symexec.simplify(symexec.subst(keyf.body, {keyf.args.args[0].arg: record}))
    if isinstance(keyf, ast.Call) and call_name(keyf).split(".")[-1] == "itemgetter" and len(keyf.args) == 1:
        return symexec.simplify(ast.Subscript(value=symexec._clone(record), slice=keyf.args[0], ctx=ast.Load()))
    if isinstance(keyf, ast.Name):
        r = repo.resolve(m, keyf.id)
        if r and isinstance(r[2], ast.FunctionDef):
            kf = repo.canon(r[0], r[2])
            ps = symexec.paths(kf.body, {kf.args.args[0].arg: record} if kf.args.args else {})
            vals = [(p_.conds, p_.returned) for p_ in ps if p_.returned is not None]
            if len(vals) == 1:
                return vals[0][1]
            if len(vals) == 2 and len(vals[0][0]) == 1 and len(vals[1][0]) == 1 and norm(vals[0][0][0][0]) == norm(vals[1][0][0][0]):
                # two paths split on one test: a conditional value
                (c0, v0), (c1, v1) = vals
                a, b = (v0, v1) if c0[0][1] else (v1, v0)
                if isinstance(a, ast.Tuple) and isinstance(b, ast.Tuple) and len(a.elts) == len(b.elts):
                    return ast.Tuple(elts=[(x if norm(x) == norm(y) else ast.IfExp(test=c0[0][0], body=x, orelse=y)) for x, y in zip(a.elts, b.elts)], ctx=ast.Load())
                return ast.IfExp(test=c0[0][0], body=a, orelse=b)
    return None


def _reversed_sorted(oc):
    pvo = Provenance(oc)
    flipped = []
    # reversing a sorted sequence is not the descending stable sort: equal keys come out in the opposite of their input order
    for x in ast.walk(oc):
        tgt = None
        if isinstance(x, ast.Call) and call_name(x) == "reversed" and x.args:
            tgt = x.args[0]
        elif isinstance(x, ast.Subscript) and isinstance(x.slice, ast.Slice) and x.slice.lower is None and x.slice.upper is None and x.slice.step is not None and norm(x.slice.step) == "-1":
            tgt = x.value
        elif isinstance(x, ast.Call) and isinstance(x.func, ast.Attribute) and x.func.attr == "reverse" and not x.args:
            tgt = x.func.value
        if tgt is not None:
            v = pvo.resolve_alias(tgt)
            if (isinstance(v, ast.Call) and call_name(v) == "sorted") or any(call_name(o) == "sorted" for o in pvo.origin_calls(tgt, through_calls=False)):
                flipped.append(x)
    return flipped


def ranked_config(repo, m, oc):
    """Orderer.order_config as a ranked collection: one record per config row, a sort of the records by a key, a projection of the sorted records to (row, children)"""
    from sa import symexec
    pv = Provenance(oc)
    loops = [st for st in oc.body if isinstance(st, ast.For) and norm(st.iter) == "config.items()" and isinstance(st.target, ast.Tuple) and len(st.target.elts) == 2]
    if len(loops) != 1:
        raise AnchorError("order_config: loop over config.items() not found")
    loop = loops[0]
    paths_ = symexec.paths(loop.body)
    recs = []
    go_call = None
    for p_ in paths_:
        for kind, orig, sub in p_.events:
            if kind == "call" and isinstance(orig.func, ast.Attribute) and orig.func.attr == "append" and sub.args:
                recs.append((orig, sub.args[0], norm(orig.func.value)))
            if kind == "call" and isinstance(orig.func, ast.Attribute) and orig.func.attr == "get_order" and go_call is None:
                go_call = sub
    if len(recs) != 1 or go_call is None:
        raise AnchorError("order_config: the record appended per row / the get_order call not found")
    app, record, lname = recs[0]
    go = [_n(ast.Subscript(value=go_call, slice=ast.Constant(value=i), ctx=ast.Load())) for i in range(4)]
    # the sort
    sort = keyf = None
    reverse = False
    for x in calls_in(oc):
        if call_name(x) == "sorted" and x.args and norm(pv.resolve_alias(x.args[0])) == lname:
            sort, keyf = x, kwarg(x, "key")
            reverse = any(k.arg == "reverse" for k in x.keywords)
        elif isinstance(x.func, ast.Attribute) and x.func.attr == "sort" and norm(x.func.value) == lname:
            sort, keyf = x, kwarg(x, "key")
            reverse = any(k.arg == "reverse" for k in x.keywords)
    if sort is None:
        raise AnchorError("order_config: the sort of the collected records not found")
    key = apply_key(repo, m, pv.resolve_alias(keyf), record) if keyf is not None else record
    # the projection: a comprehension/generator over the sorted records, or a loop over them storing into the result
    row = children = None
    filters = []
    projection_ok = False
    for n in ast.walk(oc):
        if isinstance(n, (ast.GeneratorExp, ast.ListComp, ast.DictComp)) and len(n.generators) == 1:
            g = n.generators[0]
            src = g.iter
            if src is sort or (isinstance(src, ast.Name) and src.id == lname and not any(x is n for x in ast.walk(loop))):
                binds = _bind_pattern(g.target, record)
                if binds is None:
                    continue
                filters += list(g.ifs)
                elt = ast.Tuple(elts=[n.key, n.value], ctx=ast.Load()) if isinstance(n, ast.DictComp) else n.elt
                e = symexec.simplify(symexec.subst(elt, binds))
                if isinstance(e, ast.Tuple) and len(e.elts) == 2:
                    row, children, projection_ok = e.elts[0], e.elts[1], True
        if isinstance(n, ast.For) and n is not loop and ((isinstance(n.iter, ast.Name) and n.iter.id == lname) or n.iter is sort):
            binds = _bind_pattern(n.target, record)
            if binds is None:
                continue
            for st in walk_no_nested(n):
                if isinstance(st, ast.If):
                    filters.append(st.test)
                if isinstance(st, ast.Assign) and isinstance(st.targets[0], ast.Subscript):
                    row = symexec.simplify(symexec.subst(st.targets[0].slice, binds))
                    children = symexec.simplify(symexec.subst(st.value, binds))
                    projection_ok = True
    return {"loop": loop, "append": app, "record": record, "go": go, "go_call": go_call, "sort": sort, "key": key, "reverse": reverse,
            "row": row, "children": children, "filters": filters, "projection_ok": projection_ok}


def _bind_pattern(target, record):
    """loop variable(s) of a pass over the records -> the record's components"""
    if isinstance(target, ast.Name):
        return {target.id: record}
    if isinstance(target, (ast.Tuple, ast.List)) and isinstance(record, (ast.Tuple, ast.List)) and len(target.elts) == len(record.elts):
        out = {}
        for t, r in zip(target.elts, record.elts):
            b = _bind_pattern(t, r)
            if b is None:
                return None
            out.update(b)
        return out
    return None


def _key_checks(c, m, where, key_expr, item_names, order_field, direct_field, at, conds=()):
    first = key_expr.elts[0] if isinstance(key_expr, ast.Tuple) and key_expr.elts else None
    ok = sign_convention_ok(first, list(conds), order_field, direct_field)
    c.check("C08.R2", ok, at, f"{where}/sign-convention", f"sort key starts with `{norm(first)[:70] if first is not None else None}`; expected `order if direct else -order` "
            "(direct commands in rule order, removals in mirrored order)", key_text="sign")
    names = {n.id for n in ast.walk(key_expr) if isinstance(n, ast.Name)}
    extra = names - set(item_names)
    calls = [norm(x) for x in ast.walk(key_expr) if isinstance(x, ast.Call)]
    c.check("C08.R2", not extra and not calls, at, f"{where}/locality", f"sort key reads {sorted(extra) + calls}: the relative order of two commands would depend on something other than the commands themselves",
            key_text="locality")


def r2(c):
    repo = c.repo
    c.rule("C08.R2", "both sort keys start with `order if direct else -order`, where order/direct are the first two results of get_order for the row itself, and read "
                     "nothing but the item's own fields")
    m = repo.module(PATCHING)
    mp = repo.func(PATCHING, "make_patch")
    pv = Provenance(mp)
    # the sort key: the value handed to tree.add / tree.add_block as sort_key on every path through the loop that turns collected entries into tree items
    from sa import symexec
    adds = [x for x in calls_in(mp) if isinstance(x.func, ast.Attribute) and x.func.attr in ("add", "add_block") and not (x.args and isinstance(x.args[0], ast.Constant))]
    if not adds:
        raise AnchorError("make_patch: tree.add/add_block not found")
    loops_ = [l for l in GuardMap(mp).in_loop(adds[0]) if isinstance(l, ast.For)]
    if not loops_:
        raise AnchorError("make_patch: the loop over the collected entries not found")
    go = [x for x in calls_in(mp) if isinstance(x.func, ast.Attribute) and x.func.attr == "get_order"]
    one_pass = not isinstance(loops_[-1].target, ast.Name)
    if one_pass:
        # rows go into the tree in the loop that produces them: order / order_direct are the locals unpacked from get_order, not fields of a collected record
        gnames = {}
        for n_ in walk_no_nested(mp):
            if isinstance(n_, ast.Assign) and go and n_.value is go[0] and isinstance(n_.targets[0], ast.Tuple):
                gnames = {i: e_.id for i, e_ in enumerate(n_.targets[0].elts) if isinstance(e_, ast.Name)}
        if 0 not in gnames or 1 not in gnames:
            raise AnchorError("make_patch: results of orderer.get_order not found (one-pass form)")
        item_names = [gnames[0], gnames[1]] + [e_.id for l_ in loops_ for e_ in ast.walk(l_.target) if isinstance(e_, ast.Name)]
        order_f, direct_f = gnames[0], gnames[1]
    else:
        itemvar = loops_[-1].target.id
        item_names, order_f, direct_f = [itemvar], f"{itemvar}['order']", f"{itemvar}['order_direct']"
    seen_keys = 0
    for p_ in symexec.paths(loops_[-1].body, keep=tuple(item_names) if one_pass else ()):
        for kind, orig, sub in p_.events:
            if kind == "call" and any(orig is a_ for a_ in adds):
                e = kwarg(sub, "sort_key", 2 if orig.func.attr == "add" else 3)
                if e is None:
                    continue
                seen_keys += 1
                if seen_keys <= 2 or not isinstance(e, ast.Tuple):
                    _key_checks(c, m, "make_patch.sort_key", e, item_names, order_f, direct_f, repo.loc(m, orig), conds=p_.conds)
    if not seen_keys:
        raise AnchorError("make_patch: the sort key handed to tree.add/add_block not found")
    # the dict fields come from get_order(row, direct, ...) results 0 and 1
    ok = one_pass
    for d in walk_no_nested(mp):
        if isinstance(d, ast.Dict):
            f = {k.value: v for k, v in zip(d.keys, d.values) if isinstance(k, ast.Constant)}
            if "order" in f and "order_direct" in f and go:
                def idx(e):
                    return [dd.index for dd in pv.rd.defs(e) if dd.kind == "unpack" and dd.value is go[0]] if isinstance(e, ast.Name) else []
                ok = idx(f["order"]) == [(0,)] and idx(f["order_direct"]) == [(1,)]
    c.check("C08.R2", ok, repo.loc(m, mp), "make_patch/order-fields", "item['order'] / item['order_direct'] are not the first two results of orderer.get_order for this row", key_text="fields")
    ok = bool(go) and len(go[0].args) >= 2 and norm(go[0].args[0]) == "row" and norm(go[0].args[1]) == "direct"
    if ok:
        # ... the row as the logic yielded it: the only definition reaching the question is the loop's own triple (a row rewritten in between — operator comments appended,
        # case folded — would be ranked by rules that do not match what is actually ordered)
        ok = all(d.kind in ("for", "unpack") and not (d.kind == "assign") for d in pv.rd.defs(go[0].args[0])) and all(d.kind in ("for", "unpack") for d in pv.rd.defs(go[0].args[1]))
    c.check("C08.R2", ok, repo.loc(m, go[0] if go else mp), "make_patch/get_order-args", "get_order is not asked about this row with this command's direct flag", key_text="go-args")
    oc = repo.func(PATCHING, "Orderer.order_config")
    srt = [x for x in calls_in(oc) if call_name(x) == "sorted"]
    flipped = _reversed_sorted(oc)
    if flipped:
        c.violated("C08.R2", repo.loc(m, flipped[0]), "order_config.key", f"`{norm(flipped[0])[:70]}` reverses a sorted sequence: rows with equal order (several lines matched by one rule, "
                   "or by no rule) come out in the opposite of their configuration order — a stable sort with a negated key keeps them", key_text="reversed-sorted")
        return
    rc = ranked_config(repo, m, oc)
    if rc["key"] is None:
        raise AnchorError("order_config: key function of the sort not found")
    key = rc["key"]
    if not isinstance(key, ast.Tuple):
        key = ast.Tuple(elts=[key], ctx=ast.Load())
    first = key.elts[0] if key.elts else None
    ok = sign_convention_ok(first, [], rc["go"][0], rc["go"][1])
    c.check("C08.R2", ok, repo.loc(m, rc["sort"]), "order_config.key/sign-convention", f"sort key starts with `{norm(first)[:70] if first is not None else None}`; expected `order if direct else -order` "
            "(direct commands in rule order, removals in mirrored order)", key_text="sign")
    # locality: the key is made of this row's own get_order results only
    txt = _n(key)
    for g_ in rc["go"][:3]:
        txt = txt.replace(g_, "G")
    import re as _re
    extra = sorted(set(_re.findall(r"[A-Za-z_][A-Za-z0-9_.]*", txt)) - {"G", "if", "else", "not", "and", "or"})
    c.check("C08.R2", not extra, repo.loc(m, rc["sort"]), "order_config.key/locality", f"sort key reads {extra}: the relative order of two rows would depend on something other than the rows themselves",
            key_text="locality")
    c.count("functions", 2)


def r3(c):
    repo = c.repo
    c.rule("C08.R3", "for one rule and key the removal precedes the re-creation: undo_redo with ADDED and REMOVED emits [reverse, added row]; ordered with MOVED emits the "
                     "reverse before the row (decision tables of the functions)")
    m = repo.module(COMMON)
    for name in ("undo_redo", "ordered"):
        fn = repo.func(COMMON, name)
        c.count("functions")
        for val, free, em in logictable.table(repo, m, fn):
            A, R, F, M = val["ADDED"], val["REMOVED"], val["AFFECTED"], val["MOVED"]
            vn = logictable.vname(val, free)
            kinds = [e.kind for e in em]
            if name == "undo_redo" and A and R and not F:
                ok = kinds == ["REV", "ROW"]
            elif name == "ordered" and M:
                ok = "REV" in kinds and "ROW" in kinds and kinds.index("REV") < kinds.index("ROW")
            else:
                continue
            c.check("C08.R3", ok, repo.loc(m, fn), f"{name}[{vn}]", f"emits {[repr(e) for e in em]}: the removal must come before the re-creation", key_text="order")


def r4(c):
    repo = c.repo
    c.rule("C08.R4", "get_order branch table: a rule with a scope is skipped unless the caller's scope is in it; %global rules are handed down before the match test; an "
                     "order_reverse rule is used only for a non-direct command matching its direct regexp and flips it to direct; the vendor's block-exit word (exact "
                     "match) gets order +inf and direct; every return hands down the accumulated children rules")
    m = repo.module(PATCHING)
    fn = repo.func(PATCHING, "Orderer.get_order")
    c.count("functions")
    gm = GuardMap(fn)
    pv = Provenance(fn)

    def ren(s):
        s = s.replace('"', "'").replace("registry_connector.get()[self.vendor].exit", "block_exit")
        t = {"rule['attrs']['global']": "global", "rule['attrs']['order_reverse']": "order_reverse", "direct_matched": "direct_matched",
             "rule['attrs']['reverse_regexp'].match(row)": "reverse_matched", "rule['attrs']['direct_regexp'].match(row)": "direct_matched",
             "bool(rule['attrs']['direct_regexp'].match(row))": "direct_matched", "cmd_direct": "cmd_direct", "block_exit": "block_exit",
             "block_exit == row": "is_exit", "row == block_exit": "is_exit"}
        return t.get(s, s)
    env = G.GuardEnv(rename=ren, subst=gm.aliases())
    chain0 = next((n for n in walk_no_nested(fn) if isinstance(n, ast.If) and "order_reverse" in norm(n.test) and n.orelse and isinstance(n.orelse[0], ast.If)), None)
    if chain0 is None or not (G.equivalent(G.formula(chain0.test, env), G.And(G.Not(G.Atom("order_reverse")), G.Or(G.Atom("direct_matched"), G.Atom("reverse_matched")))) and
                               G.equivalent(G.formula(chain0.orelse[0].test, env), G.And(G.Atom("order_reverse"), G.Not(G.Atom("cmd_direct")), G.Atom("direct_matched")))):
        # the same table cut differently (an intermediate "which regexp took the row" value, early continues, merged arms): decide it per path
        if _get_order_by_paths(c, repo, m, fn, env) is not None:
            rets = [n for n in walk_no_nested(fn) if isinstance(n, ast.Return)]
            for r in rets:
                ok = isinstance(r.value, ast.Tuple) and len(r.value.elts) == 4 and any(isinstance(n, ast.Name) and n.id == "children" for n in ast.walk(r.value.elts[2]))
                c.check("C08.R4", ok, repo.loc(m, r), "get_order/return-children", f"`{norm(r)[:70]}` does not hand down the accumulated children rules", key_text="ret-children")
            c.check("C08.R4", len(rets) >= 1, repo.loc(m, fn), "get_order/returns", "no return", key_text="no-return")
            return
    # scope filter
    conts = [n for n in walk_no_nested(fn) if isinstance(n, ast.Continue)]
    ok = len(conts) == 1
    if ok:
        f = gm.formula(conts[0], env, alias=True)
        at = G.atoms(f)
        ok = any("scope" in a and " in " in a for a in at) and any("is None" in a for a in at)
    c.check("C08.R4", ok, repo.loc(m, conts[0] if conts else fn), "get_order/scope-filter", "scoped rules are not skipped exactly when the caller's scope is not listed", key_text="scope")
    # global append
    gapp = [x for x in calls_in(fn) if isinstance(x.func, ast.Attribute) and x.func.attr == "append" and norm(x.func.value) == "children"]
    ok = len(gapp) == 1
    if ok:
        f = gm.formula(gapp[0], env, alias=True)
        f2 = G.And(*[g for g in (f[1:] if f[0] == "and" else [f]) if not any("scope" in a for a in G.atoms(g))])
        ok = G.equivalent(f2, G.Atom("global"))
    c.check("C08.R4", ok, repo.loc(m, gapp[0] if gapp else fn), "get_order/global-handed-down", "%global ordering rules are not (unconditionally) handed down to the children", key_text="global")
    # branches: locate the if/elif chain
    chain = None
    for n in walk_no_nested(fn):
        if isinstance(n, ast.If) and "order_reverse" in norm(n.test) and n.orelse and isinstance(n.orelse[0], ast.If):
            chain = n
            break
    if chain is None:
        raise AnchorError("get_order: if/elif chain on order_reverse not found")
    b1, b2 = chain, chain.orelse[0]
    b3 = b2.orelse[0] if b2.orelse and isinstance(b2.orelse[0], ast.If) else None
    f1 = G.formula(b1.test, env)
    spec1 = G.And(G.Not(G.Atom("order_reverse")), G.Or(G.Atom("direct_matched"), G.Atom("reverse_matched")))
    c.check("C08.R4", G.equivalent(f1, spec1), repo.loc(m, b1), "get_order/direct-branch", f"plain rules are used under {G.show(f1)}; expected ¬order_reverse ∧ (direct ∨ reverse match)", key_text="b1")
    f2 = G.formula(b2.test, env)
    spec2 = G.And(G.Atom("order_reverse"), G.Not(G.Atom("cmd_direct")), G.Atom("direct_matched"))
    c.check("C08.R4", G.equivalent(f2, spec2), repo.loc(m, b2), "get_order/order_reverse-branch", f"order_reverse rules are used under {G.show(f2)}; expected order_reverse ∧ ¬cmd_direct ∧ direct match",
            key_text="b2")
    flips = [n for n in walk_no_nested(b2) if isinstance(n, ast.Assign) and norm(n.targets[0]) == "cmd_direct" and isinstance(n.value, ast.Constant) and n.value.value is True
             and not (b3 is not None and any(x is n for x in ast.walk(b3)))]
    c.check("C08.R4", bool(flips), repo.loc(m, b2), "get_order/order_reverse-flips", "a command pinned by an order_reverse rule is not flipped to direct", key_text="flip")
    if b3 is None:
        c.violated("C08.R4", repo.loc(m, b2), "get_order/block-exit-branch", "the block-exit branch is missing: the exit word is ordered like any other command", key_text="b3-missing")
    else:
        f3 = G.formula(b3.test, env)
        ok = G.equivalent(f3, G.And(G.Atom("block_exit"), G.Atom("is_exit"))) or G.equivalent(f3, G.Atom("is_exit"))
        c.check("C08.R4", ok, repo.loc(m, b3), "get_order/block-exit-branch", f"the block-exit rule applies under `{norm(b3.test)}`; expected exact equality of the row with the vendor's exit word "
                "(a prefix test also catches rows such as `exit-peer-policy` and moves them to the end)", key_text="b3")
        inf = [n for n in walk_no_nested(b3) if isinstance(n, ast.Assign) and norm(n.targets[0]) == "f_order" and "inf" in norm(n.value)]
        c.check("C08.R4", bool(inf), repo.loc(m, b3), "get_order/block-exit-last", "block exit does not get order +inf", key_text="b3-inf")
    # returns
    rets = [n for n in walk_no_nested(fn) if isinstance(n, ast.Return)]
    for r in rets:
        ok = isinstance(r.value, ast.Tuple) and len(r.value.elts) == 4
        if ok:
            third = r.value.elts[2]
            ok = any(isinstance(n, ast.Name) and n.id == "children" for n in ast.walk(third))
        c.check("C08.R4", ok, repo.loc(m, r), "get_order/return-children", f"`{norm(r)[:70]}` does not hand down the accumulated children rules (%global rules and the matched rule's children are lost below this row)",
                key_text="ret-children")
    c.check("C08.R4", len(rets) >= 1, repo.loc(m, fn), "get_order/returns", "no return", key_text="no-return")
    # children of the matched rule handed down
    ext = [x for x in calls_in(b1) if isinstance(x.func, ast.Attribute) and x.func.attr == "extend" and norm(x.func.value) == "children"]
    ok = bool(ext) and "children" in norm(ext[0].args[0]) and ("raw_rule" in norm(ext[0].args[0]) or norm(ext[0].args[0]).replace('"', "'").startswith("rule['children']"))
    c.check("C08.R4", ok, repo.loc(m, b1), "get_order/children-of-match", "children rules of a matching rule are not handed down", key_text="ext")


def _get_order_by_paths(c, repo, m, fn, env):
    """the branch table of get_order's loop body decided per path (sa/symexec.py): which effect happens under which condition.  Returns None when the loop body cannot be
    enumerated (then the caller refuses), True otherwise (clauses checked)."""
    from sa import symexec
    loops = [st for st in walk_no_nested(fn) if isinstance(st, ast.For) and "ordering" in norm(st.iter)]
    if len(loops) != 1:
        return None
    try:
        paths = symexec.paths(loops[0].body, max_paths=512)
    except Exception:
        return None
    if not paths or len(paths) >= 512:
        return None

    def cond(p_):
        parts = []
        for t, pol in p_.conds:
            st_ = symexec._static_truth(t)
            if st_ is not None:
                if st_ != pol:
                    return G.F          # a test on a value known on this path (`'direct_regexp' is None`): the path is not feasible
                continue
            g_ = G.formula(t, env)
            parts.append(g_ if pol else G.Not(g_))
        return G.And(*parts) if parts else G.T
    paths = [p_ for p_ in paths if cond(p_) != G.F]

    def has_call(p_, attr, recv="children"):
        return any(k == "call" and isinstance(sub, ast.Call) and isinstance(sub.func, ast.Attribute) and sub.func.attr == attr and norm(sub.func.value) == recv for k, o, sub in p_.events)
    F = lambda sel: G.Or(*[cond(p_) for p_ in paths if sel(p_)]) if any(sel(p_) for p_ in paths) else G.F    # noqa: E731
    skipped = lambda p_: p_.ended and not has_call(p_, "extend") and "children" not in p_.env and "f_order" not in p_.env and not has_call(p_, "append")   # noqa: E731
    is_inf = lambda p_: "f_order" in p_.env and "inf" in norm(p_.env["f_order"])    # noqa: E731
    is_reset = lambda p_: "children" in p_.env and isinstance(p_.env["children"], ast.List) and not p_.env["children"].elts   # noqa: E731
    is_flip = lambda p_: "cmd_direct" in p_.env and isinstance(p_.env["cmd_direct"], ast.Constant) and p_.env["cmd_direct"].value is True    # noqa: E731
    # the scope filter: the paths that end before anything happened and whose condition speaks about the scope only
    scope_paths = [p_ for p_ in paths if skipped(p_) and all(("scope" in a) for a in G.atoms(cond(p_)))]
    S = G.Or(*[cond(p_) for p_ in scope_paths]) if scope_paths else G.F
    at = G.atoms(S)
    ok = bool(scope_paths) and any("scope" in a and " in " in a for a in at) and any("is None" in a for a in at)
    c.check("C08.R4", ok, repo.loc(m, fn), "get_order/scope-filter", "scoped rules are not skipped exactly when the caller's scope is not listed", key_text="scope")
    live = G.Not(S)
    spec1 = G.And(G.Not(G.Atom("order_reverse")), G.Or(G.Atom("direct_matched"), G.Atom("reverse_matched")))
    spec2 = G.And(G.Atom("order_reverse"), G.Not(G.Atom("cmd_direct")), G.Atom("direct_matched"))
    f_app = F(lambda p_: has_call(p_, "append"))
    c.check("C08.R4", G.equivalent(f_app, G.And(live, G.Atom("global"))), repo.loc(m, fn), "get_order/global-handed-down", "%global ordering rules are not (unconditionally) handed down to the children",
            key_text="global")
    f_ext = F(lambda p_: has_call(p_, "extend"))
    c.check("C08.R4", G.equivalent(f_ext, G.And(live, spec1)), repo.loc(m, fn), "get_order/direct-branch", f"the children rules of a plain rule are handed down under {G.show(f_ext)[:160]}; expected "
            "¬order_reverse ∧ (direct ∨ reverse match)", key_text="b1")
    f_res = F(lambda p_: is_reset(p_) and not is_inf(p_))
    c.check("C08.R4", G.equivalent(f_res, G.And(live, spec2)), repo.loc(m, fn), "get_order/order_reverse-branch", f"order_reverse rules take the row under {G.show(f_res)[:160]}; expected order_reverse ∧ "
            "¬cmd_direct ∧ direct match", key_text="b2")
    f_flip = F(lambda p_: is_flip(p_) and not is_inf(p_))
    first = G.And(live, spec2, G.Atom("f_order is None"))
    c.check("C08.R4", f_flip != G.F and G.implies(f_flip, spec2) and G.implies(first, f_flip), repo.loc(m, fn), "get_order/order_reverse-flips", "a command pinned by an order_reverse rule is not flipped to direct",
            key_text="flip")
    f_inf = F(is_inf)
    exit_spec = G.Or(G.And(G.Atom("block_exit"), G.Atom("is_exit")), G.Atom("is_exit"))
    okx = f_inf != G.F and (G.equivalent(f_inf, G.And(live, G.Not(spec1), G.Not(spec2), G.Atom("block_exit"), G.Atom("is_exit")))
                            or G.equivalent(f_inf, G.And(live, G.Not(spec1), G.Not(spec2), G.Atom("is_exit"))))
    if f_inf == G.F:
        c.violated("C08.R4", repo.loc(m, fn), "get_order/block-exit-branch", "the block-exit branch is missing: the exit word is ordered like any other command", key_text="b3-missing")
    else:
        c.check("C08.R4", okx, repo.loc(m, fn), "get_order/block-exit-branch", f"the block-exit rule applies under {G.show(f_inf)[:160]}; expected: no rule took the row and the row equals the vendor's exit word",
                key_text="b3")
        c.check("C08.R4", all(is_flip(p_) and is_reset(p_) for p_ in paths if is_inf(p_)), repo.loc(m, fn), "get_order/block-exit-last", "block exit does not get order +inf, direct and no children", key_text="b3-inf")
    ext_args = [sub for p_ in paths for k, o, sub in p_.events if k == "call" and isinstance(sub, ast.Call) and isinstance(sub.func, ast.Attribute) and sub.func.attr == "extend"]
    ok = bool(ext_args) and all("children" in norm(x.args[0]) and ("raw_rule" in norm(x.args[0]) or norm(x.args[0]).replace('"', "'").startswith("rule['children']")) for x in ext_args)
    c.check("C08.R4", ok, repo.loc(m, fn), "get_order/children-of-match", "children rules of a matching rule are not handed down", key_text="ext")
    return True


def r5(c):
    repo = c.repo
    c.rule("C08.R5", "(informational lint, never a violation) in every *.order text two sibling rows with identical text are listed in the evidence notes — the parse "
                     "tree is keyed by the row, so the second position silently merges into the first")
    n = 0
    for t in load_rule_texts(repo):
        if t.kind != "order":
            continue
        n += 1

        def visit(rows, path):
            seen = {}
            for r in rows:
                key = (r.raw, r.conds)
                if key in seen:
                    # informational only: the compiled rulebook is consistent with itself (the first position wins), so this is a
                    # lint about the text and not a violation of the ordering property
                    c.notes.append(f"lint C08.R5 {t.rel}:{r.line.no}: row `{r.raw}` repeats line {seen[key]} under the same parent; the parser merges them at the first position")
                    dups.append(r.line.no)
                else:
                    seen[key] = r.line.no
                visit(r.children, path + [r.row])
        dups = []
        visit(t.rows, [])
        c.holds("C08.R5", t.rel, f"{t.rel.split('/')[-1]}", f"{len(t.all_rows())} rows" + (f"; informational: duplicate sibling rows at lines {dups}" if dups else ""))
    c.floor("C08.R5", ".order files", n, 11)


def r6(c):
    from rules import c07
    c.rule("C08.R6", "the ordering compiler derives the negated form a rule is also matched by (reverse_regexp, which decides the order of removal commands) with both arms of the "
                     "reverse-form rule: a row is negated only when it starts with <prefix> + blank, the strip arm removes exactly that, the other arm prepends it (rule C07.R2 "
                     "applied to rbparser.ordering._compile_ordering)")
    c07.ordering_reverse_site(c, "C08.R6")
    c.count("functions")


def r7(c):
    repo = c.repo
    c.rule("C08.R7", "the ordering compiler passes the rule's parameters through as declared: in rbparser.ordering._compile_ordering every compiled attribute named after a rule "
                     "parameter (order_reverse, global, scope) is exactly attrs['params'][<that name>] — a parameter combined with another condition (e.g. switched off for rules "
                     "not written in negated form) silently unpins the commands the rulebook pins with it")
    m = repo.module("annet.annlib.rbparser.ordering")
    fn = repo.func("annet.annlib.rbparser.ordering", "_compile_ordering")
    c.count("functions")
    pv = Provenance(fn)
    n = 0
    for d in ast.walk(fn):
        if not isinstance(d, ast.Dict):
            continue
        for k, v in zip(d.keys, d.values):
            if not (isinstance(k, ast.Constant) and isinstance(k.value, str)):
                continue
            vv = pv.resolve_alias(v)
            if isinstance(vv, ast.Dict):
                continue   # the enclosing record; its entries are visited on their own
            def is_params(e):
                e = pv.resolve_alias(e)
                return isinstance(e, ast.Subscript) and isinstance(e.slice, ast.Constant) and e.slice.value == "params"
            mentions = [x for x in ast.walk(vv) if isinstance(x, ast.Subscript) and isinstance(x.slice, ast.Constant) and is_params(x.value)]
            if not mentions:
                continue
            n += 1
            ok = vv is mentions[0] and mentions[0].slice.value == k.value
            c.check("C08.R7", ok, repo.loc(m, v), f"_compile_ordering/{k.value}", f"compiled attribute `{k.value}` is `{norm(vv)[:70]}`, not the declared parameter attrs['params']['{k.value}'] itself",
                    key_text=f"param-{k.value}")
    c.floor("C08.R7", "parameter pass-throughs", n, 3)
