"""C14 -- shipped routing-policy generators emit ACL-covered, self-consistent config (structural clauses)."""
import ast
import re

from sa import absrow, guards as G
from sa.flow import GuardMap, Provenance, Typestate
from sa.pytexts import returned_texts
from sa.repo import AnchorError, call_name, calls_in, dotted, norm, walk_no_nested, kwarg
from sa.vendors import load_vendors

RPL = "annet.rpl_generators"
ENTRY_FUNCS = ["_huawei_match", "_huawei_then", "_arista_match", "_arista_then", "_cumulus_policy_match", "_cumulus_policy_then"]


def run(c):
    c.explanation = ("Class-hierarchy pairing of acl_<vendor>/run_<vendor>; abstract rows of every run_<vendor> (through helpers, self.block nesting, Literal-typed parameters) "
                     "matched three-valuedly against the class's own ACL literal; a path-sensitive typestate {clean, emitted} per condition/action with helper summaries for "
                     "raise-after-yield; provenance of list names from the shared naming functions.")
    c.decides = "acl/run pairing; yield within own ACL (definite mismatches only); no explicit raise after a yield inside one condition/action/list; names from the shared naming functions and every ordered union kept"
    c.does_not_decide = "output parses back to the yielded nesting; refs ⊆ defs on values"
    r1(c)
    r2_containment(c)
    r3(c)
    r4(c)
    r5(c)
    r6(c)


def generator_classes(repo, include_examples=False):
    out = []
    for m, cls in repo.subclasses("PartialGenerator"):
        if m.name.startswith(RPL) or (include_examples and m.name.startswith("annet_generators")):
            out.append((m, cls))
    return out


def vendor_methods(repo, m, cls, prefix):
    """{vendor: (module, class, funcdef)} for methods named prefix_<vendor> resolvable in the MRO (class-body aliases followed)"""
    out = {}
    for mm, cc in repo.mro(m, cls):
        for st in cc.body:
            names = []
            if isinstance(st, ast.FunctionDef) and st.name.startswith(prefix + "_"):
                names.append(st.name)
            elif isinstance(st, ast.Assign) and isinstance(st.targets[0], ast.Name) and st.targets[0].id.startswith(prefix + "_"):
                names.append(st.targets[0].id)
            for nm in names:
                v = nm[len(prefix) + 1:]
                if v in out or v.startswith("safe_"):
                    continue
                r = repo.class_attr(m, cls, nm)
                if r and isinstance(r[2], ast.FunctionDef):
                    out[v] = r
    return out


def r1(c):
    repo = c.repo
    c.rule("C14.R1", "every run_<vendor> method of a PartialGenerator subclass under annet/rpl_generators has an acl_<vendor> resolvable in the same MRO (without it the compiled ACL "
                     "is empty and every generated line is refused)")
    n = 0
    for m, cls in generator_classes(repo):
        runs = vendor_methods(repo, m, cls, "run")
        acls = vendor_methods(repo, m, cls, "acl")
        for v, (rm, rc, rf) in sorted(runs.items()):
            n += 1
            c.check("C14.R1", v in acls, repo.loc(rm, rf), f"{cls.name}.run_{v}", f"{cls.name} has run_{v} but no acl_{v}: every line it yields is rejected with AclError", key_text="unpaired")
    c.floor("C14.R1", "(class, vendor) pairs", n, 9)


def r2_containment(c, rid="C14.R2", include_examples=False):
    repo = c.repo
    if rid == "C14.R2":
        c.rule(rid, "yield ⊑ own ACL: every abstract row a run_<vendor> can emit (through helpers, `with self.block(...)` nesting, row-building helpers' return values, "
                    "Literal-typed parameters) is matched level by level against the ACL literal of acl_<vendor>, directly or in negated form; VIOLATED only on a definite "
                    "mismatch: a constant leading word that differs from every candidate ACL row at that level")
    vendors = load_vendors(repo)
    ex = absrow.Extractor(repo)
    pairs = 0
    unpaired = 0
    nrows = 0
    for m, cls in generator_classes(repo, include_examples):
        runs = vendor_methods(repo, m, cls, "run")
        acls = vendor_methods(repo, m, cls, "acl")
        for v, (rm, rc, rf) in sorted(runs.items()):
            if v not in acls:
                unpaired += 1
                continue
            am, ac, af = acls[v]
            texts = [t for _, t, _ in returned_texts(af) if t is not None]
            if not texts:
                c.undecided(rid, repo.loc(am, af), f"{cls.name}.acl_{v}", "ACL is not a string literal: containment of the emitted rows cannot be decided against a computed ACL")
                unpaired += 1
                continue
            pairs += 1
            acl_rows = []
            for t in texts:
                acl_rows.extend(absrow.acl_tree(t.replace("\x00", "X")))
            rows = ex.rows_of(rm, rf)
            prefix = vendors[v].reverse if v in vendors else "no"
            seen = set()
            for status, row, path in absrow.check_tree(rows, acl_rows, prefix):
                nrows += 1
                key = (status, row.text(), path)
                if key in seen:
                    continue
                seen.add(key)
                at = f"{row.mod.rel}:{getattr(row.node, 'lineno', 0)}"
                construct = f"{cls.name}.run_{v}:{'/'.join(path + (row.text(),))}"
                if status == absrow.NOT_COVERED:
                    lead = " ".join(t for t in row.toks[:3] if t is not None)
                    c.violated(rid, at, construct, f"row `{row.text()}` {'under ' + ' / '.join(path) if path else 'at top level'} starts with words that no row of {cls.name}.acl_{v} "
                               f"allows at that level: the generator's own ACL rejects it (AclError -> GeneratorError)", key_text=f"uncovered:{lead}")
                elif status == absrow.COVERED:
                    c.holds(rid, at, construct)
                else:
                    c.holds(rid, at, construct, "undetermined words (no definite mismatch)", trivial=True)
    c.analysed[f"{rid}:abstract_rows"] = nrows
    c.analysed[f"{rid}:pairs"] = pairs
    if not include_examples:
        c.floor(rid, "(class, vendor) pairs", pairs + unpaired, 9)
    c.floor(rid, "abstract rows", nrows, 60)


# ---------------------------------------------------------------------------- R3
class Summ:
    """summary of a helper: which (emitted?, raises) outcomes are possible when started clean"""
    def __init__(self):
        self.ret = set()      # {"clean","emitted"}
        self.raises = []      # [(state, raise node, module)]
        self.inner = []       # violations found inside (raise after own yield): (raise node, module, trace)


def exhaustive_else_raise(repo, mod, raise_node):
    """`raise` in the final else of an if/elif chain whose tests are `<same expr> is/== Enum.Member` covering every member of that Enum"""
    p = getattr(raise_node, "_parent", None)
    if not isinstance(p, ast.If) or raise_node not in p.orelse:
        return False
    chain = [p]
    q = p
    while isinstance(getattr(q, "_parent", None), ast.If) and q._parent.orelse == [q]:
        q = q._parent
        chain.append(q)
    subj, members, enum = None, set(), None
    for node in chain:
        t = node.test
        if not (isinstance(t, ast.Compare) and len(t.ops) == 1 and isinstance(t.ops[0], (ast.Is, ast.Eq)) and isinstance(t.comparators[0], ast.Attribute)):
            return False
        s = norm(t.left)
        if subj is None:
            subj = s
        if s != subj:
            return False
        enum_name = norm(t.comparators[0].value)
        if enum is None:
            enum = enum_name
        if enum_name != enum:
            return False
        members.add(t.comparators[0].attr)
    r = repo.resolve(mod, enum)
    if not r or not isinstance(r[2], ast.ClassDef):
        return False
    all_members = {st.targets[0].id for st in r[2].body if isinstance(st, ast.Assign) and isinstance(st.targets[0], ast.Name)}
    return bool(all_members) and members >= all_members


def _mentions(key, name):
    import re as _re
    return any(_re.search(r"\b" + _re.escape(name) + r"\b", str(part)) for part in key[1:] if isinstance(part, str))


class YieldRaise:
    def __init__(self, repo):
        self.repo = repo
        self.memo = {}
        self.active = set()
        self._gms = {}

    def _gm(self, fn):
        if id(fn) not in self._gms:
            self._gms[id(fn)] = GuardMap(fn)
        return self._gms[id(fn)]

    def analyse(self, mod, fn, loop_scopes=()):
        """run the {clean, emitted} typestate over fn; returns Summ. loop_scopes: For nodes whose every iteration starts clean"""
        key = (id(fn), tuple(id(x) for x in loop_scopes))
        if key in self.memo:
            return self.memo[key]
        if id(fn) in self.active:
            return Summ()
        self.active.add(id(fn))
        summ = Summ()
        is_gen = any(isinstance(n, (ast.Yield, ast.YieldFrom)) for n in walk_no_nested(fn))
        repo = self.repo

        def callee_summary(call):
            r = repo.resolve_call(mod, call)
            if r and isinstance(r[2], ast.FunctionDef) and r[0].name.startswith(("annet.rpl_generators", "annet_generators")):
                return r[0], r[2], self.analyse(r[0], r[2])
            return None

        def deciding_args(cf, rnode, call):
            """argument texts of `call` bound to the parameters the raise's guard depends on (None = depends on none)"""
            gm_ = self._gm(cf)
            names = set()
            for t, pol in gm_.of(rnode):
                for n in ast.walk(t):
                    if isinstance(n, ast.Name):
                        names.add(n.id)
            pn = [a.arg for a in cf.args.args]
            if pn and pn[0] in ("self", "cls") and isinstance(call.func, ast.Attribute):
                pn = pn[1:]
            bound = {}
            for i, a in enumerate(call.args):
                if i < len(pn):
                    bound[pn[i]] = a
            for k in call.keywords:
                if k.arg:
                    bound[k.arg] = k.value
            dec = sorted(n for n in names if n in bound)
            if not dec or any(n in pn and n not in bound for n in names):
                return None
            return (cf.name,) + tuple(f"{n}={norm(bound[n])}" for n in dec)

        def on_stmt(node, st, ts):
            states = [st]
            if isinstance(node, ast.ExceptHandler):
                return states
            # rebinding a name invalidates what we learnt about earlier calls with it
            if isinstance(node, (ast.Assign, ast.AugAssign, ast.AnnAssign)):
                tg = set()
                for t in (node.targets if isinstance(node, ast.Assign) else [node.target]):
                    for n in ast.walk(t):
                        if isinstance(n, ast.Name):
                            tg.add(n.id)
                if tg:
                    states = [(e, frozenset(k for k in ok if not any(_mentions(k, nm) for nm in tg))) for (e, ok) in states]
            # order: evaluate calls inside the node (helpers may raise), then the node's own yield / raise
            emits_here = isinstance(node, ast.Expr) and isinstance(node.value, (ast.Yield, ast.YieldFrom))
            yf_call = node.value.value if emits_here and isinstance(node.value, ast.YieldFrom) else None
            for cl in sorted([n for n in walk_no_nested(node) if isinstance(n, ast.Call)], key=lambda x: (x.lineno, x.col_offset)):
                cs = callee_summary(cl)
                if not cs:
                    continue
                cm, cf, s = cs
                callee_is_gen = any(isinstance(n, (ast.Yield, ast.YieldFrom)) for n in walk_no_nested(cf))
                emitting_use = callee_is_gen and (cl is yf_call)
                new_states = []
                for (cur, ok) in states:
                    learnt = set(ok)
                    # raises of the helper
                    for (rstate, rnode, rmod) in s.raises:
                        key = deciding_args(cf, rnode, cl) if repo.enclosing_func(rnode) is cf else None
                        if key is not None and (key + (rnode.lineno,)) in ok:
                            continue   # the same call with the same deciding arguments already returned normally on this path
                        dirty = (cur == "emitted") or (emitting_use and rstate == "emitted")
                        if dirty:
                            summ.inner.append((rnode, rmod, tuple(ts.cur_witness) + (f"{cl.lineno}: {norm(cl)[:80]}  ->  {rmod.rel}:{rnode.lineno}: {norm(rnode)[:90]}",), cur))
                        else:
                            summ.raises.append(("clean", rnode, rmod))
                        if key is not None:
                            learnt.add(key + (rnode.lineno,))
                    for (rnode, rmod, tr, _) in s.inner:
                        if emitting_use or not callee_is_gen:
                            summ.inner.append((rnode, rmod, tr, "inner"))
                    # normal completion
                    rets = s.ret or {"clean"}
                    for r_ in rets:
                        if emitting_use and r_ == "emitted":
                            new_states.append(("emitted", frozenset(learnt)))
                        else:
                            new_states.append((cur, frozenset(learnt)))
                states = sorted(set(new_states), key=repr) or states
            out = []
            for (cur, ok) in states:
                if emits_here and isinstance(node.value, ast.Yield):
                    out.append(("emitted", ok))
                elif emits_here and yf_call is not None and not callee_summary(yf_call):
                    out.append(("emitted", ok))   # unknown iterable: assume it emits
                elif isinstance(node, ast.Raise):
                    if exhaustive_else_raise(repo, mod, node):
                        continue
                    if cur == "emitted":
                        summ.inner.append((node, mod, tuple(ts.cur_witness) + (f"{node.lineno}: {norm(node)[:100]}",), cur))
                    else:
                        summ.raises.append(("clean", node, mod))
                    out.append((cur, ok))
                else:
                    out.append((cur, ok))
            return sorted(set(out), key=repr)

        def on_iter(loop, st):
            e, ok = st
            tg = {n.id for n in ast.walk(loop.target) if isinstance(n, ast.Name)}
            ok = frozenset(k for k in ok if not any(_mentions(k, nm) for nm in tg))
            return ("clean", ok) if any(loop is x for x in loop_scopes) else (e, ok)

        class TS(Typestate):
            cur_witness = ()

            def _apply(self, states, node):
                res = set()
                for s in states:
                    self.cur_witness = self.trace.get(s, ())
                    res |= Typestate._apply(self, {s}, node)
                return res
        ts = TS(on_stmt, on_iter=on_iter)
        res = ts.run(fn.body, ("clean", frozenset()))
        for k in ("fall", "return"):
            for (rs, _facts) in res[k]:
                summ.ret.add(rs[0])
        self.active.discard(id(fn))
        self.memo[key] = summ
        return summ


def r3(c):
    repo = c.repo
    c.rule("C14.R3", "no line before a rejection: inside one condition/action (entries _huawei_match/_then, _arista_match/_then, _cumulus_policy_match/_then) and inside one iteration "
                     "of the per-list loop of the list generators' run_<vendor>, no explicit raise (own, or in a resolved helper) is reachable after a yield of that same "
                     "condition/action/list; paths are propositionally consistent; a raise in the final else of an if/elif chain that covers every member of an Enum is unreachable")
    yr = YieldRaise(repo)
    entries = []
    pm = repo.module("annet.rpl_generators.policy")
    cm = repo.module("annet.rpl_generators.cumulus_frr")
    for nm in ENTRY_FUNCS:
        found = False
        for m in (pm, cm):
            for q, d in m.defs.items():
                if isinstance(d, ast.FunctionDef) and d.name == nm:
                    entries.append((m, q, d, ()))
                    found = True
        if not found:
            raise AnchorError(f"C14.R3: entry {nm} not found")
    # list generators: every iteration of the outermost loop of run_<vendor> is a scope of its own
    for m, cls in generator_classes(repo):
        if cls.name == "RoutingPolicyGenerator":
            continue
        for v, (rm, rc, rf) in vendor_methods(repo, m, cls, "run").items():
            loops = [st for st in rf.body if isinstance(st, ast.For)]
            entries.append((rm, f"{rc.name}.{rf.name}", rf, tuple(loops)))
    for q, d in cm.defs.items():
        if isinstance(d, ast.FunctionDef) and d.name in ("_cumulus_communities", "_cumulus_as_path_filters", "_cumulus_prefix_lists"):
            loops = [st for st in d.body if isinstance(st, ast.For)]
            entries.append((cm, q, d, tuple(loops)))
    c.floor("C14.R3", "entries", len(entries), 12)
    reported = set()
    for m, q, fn, scopes in entries:
        c.count("functions")
        s = yr.analyse(m, fn, scopes)
        if not s.inner:
            c.holds("C14.R3", repo.loc(m, fn), q, "no raise reachable after a yield")
            continue
        for (rnode, rmod, trace, _st) in s.inner:
            msg = norm(rnode.exc)[:90] if isinstance(rnode, ast.Raise) and rnode.exc is not None else norm(rnode)[:90]
            owner = repo.enclosing_func(rnode)
            # the finding's identity does not depend on how a local inside the message is spelled
            msg_key = re.sub(r"\{[^{}]*\}", "{}", msg)
            key = (q, owner.name if owner else "?", msg_key)
            if key in reported:
                continue
            reported.add(key)
            c.violated("C14.R3", f"{rmod.rel}:{rnode.lineno}", f"{q}->{owner.name if owner else '?'}", f"`{msg}` is reachable after lines of the same condition/action/list were already yielded "
                       "(the error comes after, not before, the emitted lines)", key_text=msg_key, path=[t for t in trace if t][-14:])


def _call_sources(repo, m, cls, fn, expr, depth):
    """names of the calls a value derives from, looking through comprehension variables and through self.<helper>() return values"""
    out = set()
    if depth > 3:
        return out
    pv = Provenance(fn)
    todo = [expr]
    seen = set()
    while todo:
        e = todo.pop()
        if id(e) in seen:
            continue
        seen.add(id(e))
        for x in ast.walk(e):
            if isinstance(x, ast.Name) and isinstance(x.ctx, ast.Load):
                # a comprehension variable: its iterable
                p_ = getattr(x, "_parent", None)
                comp = None
                while p_ is not None and p_ is not fn:
                    if isinstance(p_, (ast.GeneratorExp, ast.ListComp, ast.SetComp, ast.DictComp)):
                        for g in p_.generators:
                            if any(isinstance(t, ast.Name) and t.id == x.id for t in ast.walk(g.target)):
                                comp = g.iter
                    p_ = getattr(p_, "_parent", None)
                if comp is not None:
                    todo.append(comp)
                else:
                    for d in pv.rd.defs(x):
                        if d.value is not None and d.kind != "param":
                            todo.append(d.value)
            if isinstance(x, ast.Call):
                nm = call_name(x).split(".")[-1]
                out.add(nm)
                if isinstance(x.func, ast.Attribute) and isinstance(x.func.value, ast.Name) and x.func.value.id == "self":
                    h = repo.class_attr(m, cls, x.func.attr)
                    if h and isinstance(h[2], ast.FunctionDef) and h[2] is not fn:
                        for r in walk_no_nested(h[2]):
                            if isinstance(r, ast.Return) and r.value is not None:
                                out |= _call_sources(repo, h[0], cls, h[2], r.value, depth + 1)
    return out


def r4(c):
    repo = c.repo
    c.rule("C14.R4", "names come from the shared naming functions: wherever a policy statement refers to a prefix list (Huawei, Arista, Cumulus) the name token derives from "
                     "PrefixListNameGenerator.get_prefix(...).name, and the list generators define lists under names from the same function; united community lists are "
                     "referenced and defined through mangle_united_community_list_name, and get_used_united_community_lists stores one entry per mangled (order-preserving) name "
                     "for every HAS_ANY condition")
    sites = 0
    for modname in ("annet.rpl_generators.policy", "annet.rpl_generators.cumulus_frr", "annet.rpl_generators.prefix_lists"):
        m = repo.module(modname)
        for q, fn in m.defs.items():
            if not isinstance(fn, ast.FunctionDef):
                continue
            pv = None
            for y in walk_no_nested(fn):
                if not (isinstance(y, ast.Yield) and isinstance(y.value, ast.Tuple)):
                    continue
                txt = norm(y.value)
                if "prefix-list" not in txt and "ip-prefix" not in txt:
                    continue
                # the name token: a non-constant element that is a Name/Attribute
                for el in y.value.elts:
                    if isinstance(el, (ast.Constant, ast.JoinedStr, ast.Starred)) or (isinstance(el, ast.Call) and call_name(el) == "str"):
                        continue
                    if isinstance(el, ast.Name) and el.id in [a.arg for a in fn.args.args] and fn.args.args and \
                            any(a.arg == el.id and a.annotation is not None and "Literal" in norm(a.annotation) for a in fn.args.args):
                        continue
                    if not isinstance(el, (ast.Name, ast.Attribute)):
                        continue
                    sites += 1
                    pv = pv or Provenance(fn)
                    ok = False
                    if isinstance(el, ast.Attribute) and el.attr == "name":
                        base = el.value
                        if any(isinstance(x.func, ast.Attribute) and x.func.attr == "get_prefix" for x in pv.origin_calls(base, through_calls=False)):
                            ok = True
                        elif isinstance(base, ast.Name) and any(d.kind == "param" for d in pv.rd.defs(base)):
                            # helper receiving the IpPrefixList: its callers must pass a get_prefix(...) result
                            ok = _callers_pass_get_prefix(repo, m, fn, base.id)
                    c.check("C14.R4", ok, repo.loc(m, y), f"{q}/prefix-list-name", f"the list name `{norm(el)}` in `{txt[:70]}` does not come from PrefixListNameGenerator.get_prefix(...).name: "
                            "with or_longer overrides the policy would refer to a list the list generator defines under another name", key_text="plist-name")
                    break
    c.floor("C14.R4", "prefix-list name sites", sites, 6)
    # an ACL that narrows its rows by list names must draw them from the same naming function as the rows it has to cover
    pm = repo.module("annet.rpl_generators.prefix_lists")
    for q, fn in pm.defs.items():
        if not (isinstance(fn, ast.FunctionDef) and "." in q and q.split(".")[-1].startswith("acl_")):
            continue
        holes = [v for j in ast.walk(fn) if isinstance(j, ast.JoinedStr) for v in j.values if isinstance(v, ast.FormattedValue)]
        holes += [a for x in ast.walk(fn) if isinstance(x, ast.BinOp) and isinstance(x.op, ast.Mod) and isinstance(x.left, ast.Constant) and isinstance(x.left.value, str)
                  for a in (x.right.elts if isinstance(x.right, ast.Tuple) else [x.right])]
        holes += [a for x in ast.walk(fn) if isinstance(x, ast.Call) and isinstance(x.func, ast.Attribute) and x.func.attr == "format" and isinstance(x.func.value, ast.Constant) for a in x.args]
        if not holes:
            c.holds("C14.R4", repo.loc(pm, fn), f"{q}/acl-names", "constant ACL text (covers every list name)", trivial=True)
            continue
        cls = repo.cls("annet.rpl_generators.prefix_lists", q.split(".")[0])
        for h in holes:
            e = h.value if isinstance(h, ast.FormattedValue) else h
            srcs = _call_sources(repo, pm, cls, fn, e, 0)
            c.check("C14.R4", "get_prefix" in srcs, repo.loc(pm, fn), f"{q}/acl-names", f"the ACL is narrowed to the names `{norm(e)[:40]}` computed from {sorted(srcs) or 'no naming call'}; the rows it must "
                    "cover carry names from PrefixListNameGenerator.get_prefix(...).name (`<name>_<ge>_<le>` for or_longer overrides): such a list is generated but not covered by "
                    "the generator's own ACL (AclError -> GeneratorError)", key_text="acl-names")


    # the "already defined" bookkeeping of the list generators is keyed by the name the list is defined under
    ndedupe = 0
    for modname in ("annet.rpl_generators.cumulus_frr", "annet.rpl_generators.prefix_lists"):
        m = repo.module(modname)
        for q, fn in m.defs.items():
            if not isinstance(fn, ast.FunctionDef):
                continue
            pvq = None
            for x in calls_in(fn):
                if isinstance(x.func, ast.Attribute) and x.func.attr == "add" and isinstance(x.func.value, ast.Name) and len(x.args) == 1 and repo.enclosing_func(x) is fn:
                    sname = x.func.value.id
                    tests = [t for t in ast.walk(fn) if isinstance(t, ast.Compare) and len(t.ops) == 1 and isinstance(t.ops[0], (ast.In, ast.NotIn)) and norm(t.comparators[0]) == sname]
                    if not tests:
                        continue
                    pvq = pvq or Provenance(fn)
                    for e, at_ in [(x.args[0], x)] + [(t.left, t) for t in tests]:
                        ndedupe += 1
                        ev = pvq.resolve_alias(e)
                        ok = isinstance(ev, ast.Attribute) and ev.attr == "name" and any(isinstance(o.func, ast.Attribute) and o.func.attr == "get_prefix"
                                                                                      for o in pvq.origin_calls(ev.value, through_calls=False))
                        c.check("C14.R4", ok, repo.loc(m, at_), f"{q}/dedupe-key:{sname}", f"`{norm(at_)[:60]}` keys the already-rendered set by `{norm(ev)[:40]}`, not by the name the list is defined "
                                "under (get_prefix(...).name): two or_longer variants of one source list have different derived names — the second is referenced by the policy but never defined",
                                key_text="dedupe-key")
    c.floor("C14.R4", "dedupe keys of the prefix-list generators", ndedupe, 8)
    # the united name is a function of the member names IN THE ORDER THE POLICY WROTE THEM, at every site that builds it (the policy side refers, the list side defines): an
    # order-changing operation on one side only (sorted / set / reversed / .sort()) makes `B_OR_A` be referred to while `A_OR_B` is defined
    REORDER = ("sorted", "set", "frozenset", "reversed")
    nsites = 0
    for modname in ("annet.rpl_generators.community", "annet.rpl_generators.cumulus_frr", "annet.rpl_generators.policy"):
        mm = repo.module(modname)
        for q, f0 in mm.defs.items():
            if not isinstance(f0, ast.FunctionDef) or not any(call_name(x) == "mangle_united_community_list_name" for x in calls_in(f0)):
                continue
            pvu = Provenance(f0)
            sorted_names = {x.func.value.id for x in calls_in(f0) if isinstance(x.func, ast.Attribute) and x.func.attr in ("sort", "reverse") and isinstance(x.func.value, ast.Name)}
            for call in [x for x in calls_in(f0) if call_name(x) == "mangle_united_community_list_name" and x.args]:
                nsites += 1
                orig = pvu.origins(call.args[0], through_calls=True)
                re_calls = [n_ for k_, n_ in orig if k_ == "call" and call_name(n_) in REORDER]
                re_names = [n_ for n_ in ast.walk(call.args[0]) if isinstance(n_, ast.Name) and n_.id in sorted_names]
                for k_, n_ in orig:
                    if k_ == "for" and getattr(n_, "value", None) is not None:
                        re_names += [y for y in ast.walk(n_.value) if isinstance(y, ast.Name) and y.id in sorted_names]
                bad = re_calls + re_names
                c.check("C14.R4", not bad, repo.loc(mm, bad[0] if bad else call), f"{q}/united-name-order-as-written",
                        f"the member names handed to mangle_united_community_list_name went through `{norm(bad[0])[:60] if bad else ''}`: this site names the union in another order than the "
                        "sites that keep the policy's order, so a referenced united list is not defined under that name", key_text="united-reordered")
    c.floor("C14.R4", "sites building a united community-list name", nsites, 4)
    # united community lists
    cm = repo.module("annet.rpl_generators.community")
    fn = repo.func("annet.rpl_generators.community", "get_used_united_community_lists")
    gm = GuardMap(fn)
    pv = Provenance(fn)
    stores = [n for n in walk_no_nested(fn) if isinstance(n, ast.Assign) and isinstance(n.targets[0], ast.Subscript) and norm(n.targets[0].value) == "used_communities"]
    united = [s for s in stores if any(call_name(x) == "mangle_united_community_list_name" for x in pv.origin_calls(s.targets[0].slice, through_calls=False))]
    ok = len(united) == 1
    if ok:
        f = gm.formula(united[0], G.GuardEnv(), skip_early=True, alias=True)
        at = G.atoms(f)
        # only the HAS_ANY test (and the length test) may guard the store
        extra = [a for a in at if "HAS_ANY" not in a and "len(condition.value)" not in a]
        ok = not extra
        detail = f"the united list is stored only under {G.show(f)}"
    else:
        detail = "no single store keyed by mangle_united_community_list_name(condition.value)"
    c.check("C14.R4", ok, repo.loc(cm, united[0] if united else fn), "get_used_united_community_lists/store-per-name",
            f"{detail}: a HAS_ANY over the same lists in another order is referenced by the policy as a different name (`A_OR_B` vs `B_OR_A`) but would not be defined", key_text="united-store")
    skips = [n for n in walk_no_nested(fn) if isinstance(n, ast.Continue)
             and [a for a in G.atoms(gm.formula(n, G.GuardEnv(), alias=True)) if "operator" not in a and "len(condition.value)" not in a]]
    c.check("C14.R4", not skips, repo.loc(cm, skips[0] if skips else fn), "get_used_united_community_lists/no-skip", f"`continue` under [{G.show(gm.formula(skips[0])) if skips else ''}] skips a referenced union", key_text="united-skip")
    for modname, fname in (("annet.rpl_generators.policy", "_arista_match"), ("annet.rpl_generators.community", "CommunityListGenerator.run_arista")):
        m = repo.module(modname)
        f2 = None
        for q, d in m.defs.items():
            if isinstance(d, ast.FunctionDef) and (q == fname or q.endswith("." + fname)):
                f2 = d
        if f2 is None:
            raise AnchorError(f"C14.R4: {fname} not found")
        uses = [x for x in calls_in(f2) if call_name(x) == "mangle_united_community_list_name"]
        c.check("C14.R4", bool(uses), repo.loc(m, f2), f"{fname}/united-name", "united community list names are not built with mangle_united_community_list_name", key_text=f"mangle-{fname}")


def _callers_pass_get_prefix(repo, m, fn, pname):
    ok_any = False
    for q, d in m.defs.items():
        if not isinstance(d, ast.FunctionDef) or d is fn:
            continue
        pv = None
        for call in calls_in(d):
            r = repo.resolve_call(m, call)
            if r and r[2] is fn:
                pv = pv or Provenance(d)
                names = [a.arg for a in fn.args.args]
                if names and names[0] == "self":
                    names = names[1:]
                idx = names.index(pname) if pname in names else None
                arg = call.args[idx] if idx is not None and idx < len(call.args) else kwarg(call, pname)
                if arg is None:
                    return False
                if not any(isinstance(x.func, ast.Attribute) and x.func.attr == "get_prefix" for x in pv.origin_calls(arg, through_calls=False)):
                    return False
                ok_any = True
    return ok_any


# attribute paths of a condition / action that carry list names.  (Spelled as one sentence on purpose: identifier-like string constants of the rule modules are "protected"
# from inlining by the canonicaliser, and these are everyday local names.)
_NAME_CARRIERS = tuple("." + w for w in "value, value.added, value.removed, value.replaced".split(", "))


def _scanned_fields(repo):
    """{'ThenField': {...}, 'MatchField': {...}}: the fields whose list names get_used_community_lists collects (the lists CommunityListGenerator then defines)"""
    m = repo.module(RPL + ".community")
    out = {"ThenField": set(), "MatchField": set()}
    if not isinstance(m.defs.get("get_used_community_lists"), ast.FunctionDef):
        raise AnchorError("community.get_used_community_lists not found")
    fn = repo.func(RPL + ".community", "get_used_community_lists")
    for n in ast.walk(fn):
        if isinstance(n, ast.For) and isinstance(n.iter, (ast.Tuple, ast.List)):
            for e in n.iter.elts:
                if isinstance(e, ast.Attribute) and isinstance(e.value, ast.Name) and e.value.id in out:
                    out[e.value.id].add(e.attr)
    return out


def r5(c):
    repo = c.repo
    c.rule("C14.R5", "a list referred to by name is a list that gets defined: wherever a routing-policy renderer emits the *name* of a community list taken from a condition / "
                     "action value (the loop variable over value / value.added / value.removed / value.replaced itself, not the members looked up through communities[name]), the "
                     "field it is dispatched for (ThenField.X / MatchField.X) is one of the fields community.get_used_community_lists collects names from — otherwise the policy "
                     "refers to a filter that CommunityListGenerator never renders")
    sc = _scanned_fields(repo)
    c.floor("C14.R5", "fields scanned by get_used_community_lists", len(sc["ThenField"]) + len(sc["MatchField"]), 6)
    c.analysed["scanned_fields"] = {k: sorted(v) for k, v in sc.items()}
    m = repo.module(RPL + ".policy")
    cls = repo.cls(RPL + ".policy", "RoutingPolicyGenerator")
    methods = {f.name: repo.func(RPL + ".policy", "RoutingPolicyGenerator." + f.name) for f in cls.body if isinstance(f, ast.FunctionDef)}
    n_sites = 0
    for disp in methods.values():
        for node in walk_no_nested(disp):
            if not (isinstance(node, ast.If) and isinstance(node.test, ast.Compare) and len(node.test.ops) == 1 and isinstance(node.test.ops[0], ast.Eq)):
                continue
            l, r = node.test.left, node.test.comparators[0]
            if not (isinstance(l, ast.Attribute) and l.attr == "field" and isinstance(r, ast.Attribute) and isinstance(r.value, ast.Name) and r.value.id in sc):
                continue
            kind, field = r.value.id, r.attr
            subject = norm(l.value)                      # `action` / `condition`
            # the renderer(s) of this field: the arm itself and the self._x(...) methods it delegates to
            scopes = [(disp, node.body, subject)]
            for x in ast.walk(node):
                if isinstance(x, ast.Call) and isinstance(x.func, ast.Attribute) and isinstance(x.func.value, ast.Name) and x.func.value.id == "self" and x.func.attr in methods \
                        and any(x is y for st in node.body for y in ast.walk(st)):
                    h = methods[x.func.attr]
                    # which parameter of the helper receives the action / condition
                    pn = [a.arg for a in h.args.args][1:]
                    sub_h = None
                    for i, a in enumerate(x.args):
                        inner = a.args[1] if isinstance(a, ast.Call) and call_name(a) == "cast" and len(a.args) == 2 else a
                        if norm(inner) == subject and i < len(pn):
                            sub_h = pn[i]
                    if sub_h:
                        scopes.append((h, h.body, sub_h))
            for fn_, body, subj in scopes:
                pv = Provenance(fn_)
                # the subject under another name: `x = cast(T, action)` / `x = action`
                subjects = {subj}
                for st_ in walk_no_nested(fn_):
                    if isinstance(st_, ast.Assign) and len(st_.targets) == 1 and isinstance(st_.targets[0], ast.Name):
                        v_ = st_.value
                        v_ = v_.args[1] if isinstance(v_, ast.Call) and call_name(v_).split(".")[-1] == "cast" and len(v_.args) == 2 else v_
                        if isinstance(v_, ast.Name) and v_.id in subjects:
                            subjects.add(st_.targets[0].id)
                for st in body:
                    for y in ast.walk(st):
                        if not (isinstance(y, ast.Yield) and y.value is not None):
                            continue
                        elts = y.value.elts if isinstance(y.value, ast.Tuple) else [y.value]
                        for e in elts:
                            e0 = e.value if isinstance(e, ast.Starred) else e
                            if not isinstance(e0, ast.Name):
                                continue
                            names = set()
                            for d_ in pv.rd.defs(e0):
                                if d_.kind == "for" and d_.value is not None and not d_.index:
                                    nb, _ = pv.iteration_bases(d_.value)
                                    names |= nb | {norm(d_.value)}
                            # community-list names live in <subject>.value (conditions) and <subject>.value.added / removed / replaced (actions); other value attributes
                            # (as-path numbers, metrics) are not names of lists
                            byname = [b for b in sorted(names) if any(b in tuple(sj + sfx for sfx in _NAME_CARRIERS) for sj in subjects)]
                            if not byname:
                                continue
                            n_sites += 1
                            ok = field in sc[kind]
                            c.check("C14.R5", ok, repo.loc(m, y), f"{fn_.name}/{kind}.{field}", f"`{norm(y)[:70]}` emits the list name `{e0.id}` (an element of {byname[0]}) for "
                                    f"{kind}.{field}, but get_used_community_lists does not collect names from that field ({sorted(sc[kind])}): the policy refers to a list that is "
                                    "never defined on the device", key_text=f"undefined-ref:{kind}.{field}")
    c.floor("C14.R5", "by-name list references in the policy renderers", n_sites, 4)


def r6(c):
    repo = c.repo
    c.rule("C14.R6", "one list, one name: entities.mangle_united_community_list_name is the plain join of its parts (`<sep>.join(values)`, nothing cut, hashed or re-cased "
                     "afterwards) — the list generators of arista / cumulus name *every* list through it, also a single one, while the policy side refers to a single list by "
                     "its own name; the two agree only as long as the name of a one-element union is that element")
    mn = RPL + ".entities"
    m = repo.module(mn)
    fn = repo.func(mn, "mangle_united_community_list_name")
    c.count("functions")
    pv = Provenance(fn)
    rets = [n for n in walk_no_nested(fn) if isinstance(n, ast.Return) and n.value is not None]
    p0 = fn.args.args[0].arg if fn.args.args else None
    bad = None
    for r in rets:
        v = pv.resolve_alias(r.value)
        plain = isinstance(v, ast.Call) and isinstance(v.func, ast.Attribute) and v.func.attr == "join" and isinstance(v.func.value, ast.Constant) and len(v.args) == 1 \
            and norm(pv.resolve_alias(v.args[0])) in (p0, f"list({p0})", f"tuple({p0})")
        # a name with several reaching definitions (rebound under a condition) is not the plain join
        if isinstance(r.value, ast.Name) and len(pv.rd.defs(r.value)) != 1:
            plain = False
        if not plain:
            bad = r
    c.check("C14.R6", bool(rets) and bad is None, repo.loc(m, bad or fn), "mangle_united_community_list_name/plain-join", f"`{norm(bad)[:70] if bad is not None else ''}` is not the plain join of the "
            "given names: a single list whose name is altered here is defined under one name and referred to under another (`match community <full name>` against "
            "`ip community-list <altered name>`)", key_text="mangled-name")
    # and it is the only naming function the list generators use for the definition side
    users = 0
    for gm_, cls in generator_classes(repo):
        for f in [x for x in cls.body if isinstance(x, ast.FunctionDef)]:
            users += sum(1 for x in calls_in(f) if call_name(x).split(".")[-1] == "mangle_united_community_list_name")
    c.floor("C14.R6", "uses of the shared naming function in the generators", users, 3)
