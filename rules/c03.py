"""C03 -- the diff is a faithful, lossless description of old versus new (structural clauses)."""
import ast

from sa import guards as G
from sa.flow import GuardMap, Provenance
from sa.repo import AnchorError, call_name, calls_in, dotted, norm, walk_no_nested, kwarg
from sa.util import op_const, one

PATCHING = "annet.annlib.patching"
COMMON = "annet.annlib.rulebook.common"
ADIFF = "annet.annlib.diff"
TAB = "annet.annlib.tabparser"
TYPES = "annet.annlib.types"


def op_members(repo):
    cls = repo.cls(TYPES, "Op")
    out = {}
    for st in cls.body:
        if isinstance(st, ast.Assign) and isinstance(st.targets[0], ast.Name) and isinstance(st.value, ast.Constant):
            out[st.targets[0].id] = st.value.value
    if len(out) < 5:
        raise AnchorError("annlib.types.Op has fewer than 5 constant members")
    return out


def dict_ops(d):
    """dict literal -> {key-repr: value-node}; keys that are Op.X become 'X', constants stay"""
    res = {}
    for k, v in zip(d.keys, d.values):
        kk = op_const(k) if op_const(k) else (k.value if isinstance(k, ast.Constant) else norm(k))
        res[kk] = v
    return res


def run(c):
    c.explanation = ("Table agreement (Op members, sign tables), guard table of base_diff, symmetric drop of unknown rows, strip/mark shape, renderers "
                     "that emit every entry, and a no-deletion effect lint on the standard diff logics; all on the AST.")
    c.decides = "Op/sign tables agree; base_diff guard table; unknown rows leave both sides; strip/mark shape; renderers emit every entry; standard diff logics only relabel"
    c.does_not_decide = "the reconstruction law, MOVED-iff-order-changed and parse-back equality on values; vendor %diff_logic functions (out of the property's scope)"
    ops = op_members(c.repo)
    r1(c, ops)
    r2(c)
    r3(c)
    r4(c)
    r5(c)
    r6(c)
    r7(c)
    r8(c)
    from rules import c01
    c01.r5_disorder(c, rid="C03.R9")
    r10(c)


def r1(c, ops):
    repo = c.repo
    c.rule("C03.R1", "Op/sign tables agree: make_pre has a bucket for every Op member; _diff_lines.sign_map has every member except UNCHANGED with pairwise distinct "
                     "one-character signs; annlib.diff.diff_ops is the inverse of sign_map; ops_sign is the inverse of diff_ops; ops_order and ops_color have exactly "
                     "the keys of ops_sign")
    names = set(ops)
    # make_pre buckets
    pm = repo.module(PATCHING)
    mp = repo.func(PATCHING, "make_pre")
    c.count("functions")
    buckets = None
    for n in walk_no_nested(mp):
        if isinstance(n, ast.Dict) and n.keys and all(op_const(k) for k in n.keys) and all(isinstance(v, ast.List) for v in n.values):
            buckets = {op_const(k) for k in n.keys}
    if buckets is None:
        raise AnchorError("make_pre: bucket dict literal {Op.X: [] ...} not found")
    c.check("C03.R1", buckets == names, repo.loc(pm, mp), "make_pre/buckets", f"buckets {sorted(buckets)} != Op members {sorted(names)}: an op without a bucket raises KeyError, "
            "a missing member silently loses entries", key_text="buckets")
    # every entry keeps its sub-tree: the "children" of each item filed in a bucket is the recursion over that entry's children on every path (an item filed with an
    # empty mapping instead — for one op, one depth — makes the rows under it vanish from the rendered `annet diff`, which no longer reads back to the same entries)
    pvp = Provenance(mp)
    items = [d for d in ast.walk(mp) if isinstance(d, ast.Dict) and any(isinstance(k, ast.Constant) and k.value == "children" for k in d.keys)
             and any(isinstance(k, ast.Constant) and k.value == "row" for k in d.keys)]
    for d in items:
        val = [v for k, v in zip(d.keys, d.values) if isinstance(k, ast.Constant) and k.value == "children"][0]
        gmp = GuardMap(mp)
        rec_args = {x.id for call in calls_in(mp) if call_name(call).split(".")[-1] == mp.name for a in list(call.args[:1]) + [k.value for k in call.keywords if k.arg == "diff"]
                    for x in ast.walk(a) if isinstance(x, ast.Name)}
        exprs, todo = [], [(val, "")]
        while todo:
            e, why = todo.pop()
            if isinstance(e, ast.IfExp):
                todo += [(e.body, why + " " + norm(e.test)), (e.orelse, why + " " + norm(e.test))]
            elif isinstance(e, ast.BoolOp):
                todo += [(v, why + " " + norm(e.values[0])) for v in e.values]
            elif isinstance(e, ast.Name) and len(exprs) < 16:
                vs = [(d_.value, why + " " + G.show(gmp.formula(d_.stmt))) for d_ in pvp.rd.defs(e) if d_.kind in ("assign", "walrus") and d_.value is not None]
                todo += vs
                if not vs:
                    exprs.append((e, why))
            else:
                exprs.append((e, why))

        def empty_map(ew):
            e, why = ew
            import re as _re
            # an empty mapping chosen BECAUSE the entry has no children is the same value as the recursion over nothing
            if any(_re.search(r"(?<![\w.])" + _re.escape(n_) + r"(?!\w)", why) for n_ in rec_args):
                return False
            return (isinstance(e, ast.Dict) and not e.keys) or (isinstance(e, ast.Constant) and e.value is None) or \
                (isinstance(e, ast.Call) and not e.args and not e.keywords and call_name(e).split(".")[-1] in ("odict", "dict", "OrderedDict"))
        bad = [ew[0] for ew in exprs if empty_map(ew)]
        c.check("C03.R1", not bad, repo.loc(pm, bad[0] if bad else d), "make_pre/children-always-recursed",
                f"the children of a filed item may be `{norm(bad[0])[:60] if bad else '?'}` instead of make_pre(<the entry's children>): on that path the rows under the entry are lost from "
                "the displayed diff (and from what the patch logic sees)", key_text="children-not-recursed")
    # sign_map
    tm = repo.module(TAB)
    dl = repo.func(TAB, "CommonFormatter._diff_lines")
    c.count("functions")
    sm = None
    for n in walk_no_nested(dl):
        if isinstance(n, ast.Dict) and n.keys and all(k is not None and op_const(k) for k in n.keys) and all(isinstance(v, ast.Constant) for v in n.values):
            sm = dict_ops(n)
    if sm is None:
        raise AnchorError("_diff_lines: sign map literal {Op.X: '<sign>' ...} not found")
    signs = {k: (v.value if isinstance(v, ast.Constant) else None) for k, v in sm.items()}
    ok = set(signs) == names - {"UNCHANGED"} and all(isinstance(s, str) and len(s) == 1 for s in signs.values()) and len(set(signs.values())) == len(signs)
    c.check("C03.R1", ok, repo.loc(tm, dl), "_diff_lines/sign_map", f"sign_map {signs}: must cover every op except UNCHANGED with distinct one-character signs", key_text="sign_map")
    dm = repo.module(ADIFF)
    c.count("tables", 5)
    d_ops = dm.toplevel_assign("diff_ops")
    if not isinstance(d_ops, ast.Dict):
        raise AnchorError("annlib.diff.diff_ops literal not found")
    inv = {}
    for k, v in zip(d_ops.keys, d_ops.values):
        if isinstance(k, ast.Constant) and op_const(v):
            inv[op_const(v)] = k.value
    c.check("C03.R1", inv == signs, repo.loc(dm, d_ops), "annlib.diff/diff_ops", f"diff_ops {inv} is not the inverse of sign_map {signs}: a rendered diff reads back with other ops",
            key_text="diff_ops")
    osn = dm.toplevel_assign("ops_sign")
    ok = False
    if isinstance(osn, ast.DictComp):
        g = osn.generators[0]
        ok = (isinstance(g.iter, ast.Call) and norm(g.iter) == "diff_ops.items()" and isinstance(g.target, ast.Tuple) and len(g.target.elts) == 2
              and norm(osn.key) == norm(g.target.elts[1]) and norm(osn.value) == norm(g.target.elts[0]) and not g.ifs)
    elif isinstance(osn, ast.Dict):
        ok = {op_const(k): (v.value if isinstance(v, ast.Constant) else None) for k, v in zip(osn.keys, osn.values)} == inv
    c.check("C03.R1", ok, repo.loc(dm, osn or d_ops), "annlib.diff/ops_sign", "ops_sign is not the exact inverse of diff_ops", key_text="ops_sign")
    for nm in ("ops_order", "ops_color"):
        t = dm.toplevel_assign(nm)
        if not isinstance(t, ast.Dict):
            raise AnchorError(f"annlib.diff.{nm} literal not found")
        keys = {op_const(k) for k in t.keys}
        c.check("C03.R1", keys == set(inv), repo.loc(dm, t), f"annlib.diff/{nm}", f"{nm} keys {sorted(k or '?' for k in keys)} != ops with a sign {sorted(inv)}: gen_pre_as_diff would skip (or fail on) an op",
                key_text=nm)
    if nm == "ops_color":
        t = dm.toplevel_assign("ops_order")
        vals = [v.value for v in t.values if isinstance(v, ast.Constant)]
        c.check("C03.R1", len(set(vals)) == len(t.values), repo.loc(dm, t), "annlib.diff/ops_order-distinct", "ops_order ranks are not distinct", key_text="order-distinct")


def r2(c):
    repo = c.repo
    c.rule("C03.R2", "base_diff: a REMOVED item is built only under `row not in new` while iterating old; for every row of new exactly one item is appended "
                     "(no continue/filter); op is ADDED only under `row not in old`; MOVED only when moved_to_affected is false, otherwise the parent op; "
                     "children of every item are the unfiltered call_diff_logic result on that row's sub-trees with pops + (op,)")
    m = repo.module(COMMON)
    fn = repo.func(COMMON, "base_diff")
    c.count("functions")
    gm = GuardMap(fn)
    pv = Provenance(fn)
    loops = [st for st in fn.body if isinstance(st, ast.For)]
    lo = ln = None
    for st in loops:
        src = norm(st.iter)
        if src in ("enumerate(old)", "old"):
            lo = st
        elif src in ("enumerate(new)", "new"):
            ln = st
    if lo is None or ln is None:
        raise AnchorError("base_diff: loops over old and new not found")

    def loopvar(st):
        t = st.target
        if isinstance(t, ast.Tuple):
            return t.elts[-1].id
        return t.id
    ro, rn = loopvar(lo), loopvar(ln)
    items = [x for x in calls_in(fn) if call_name(x) == "DiffItem"]
    if len(items) != 2:
        raise AnchorError(f"base_diff: expected 2 DiffItem constructions, found {len(items)}")
    for it in items:
        in_old = any(n is it for n in ast.walk(lo))
        loop, rv = (lo, ro) if in_old else (ln, rn)
        opx = kwarg(it, "op", 0)
        rowx = kwarg(it, "row", 1)
        chx = kwarg(it, "children", 2)
        dpx = kwarg(it, "diff_pre", 3)
        where = "old-loop" if in_old else "new-loop"
        f = gm.formula(it, G.GuardEnv())
        if in_old:
            spec = G.Not(G.Atom(f"{ro} in new"))
            c.check("C03.R2", G.equivalent(f, spec), repo.loc(m, it), "base_diff/removed-item/guard", f"REMOVED item built under {G.show(f)}; expected exactly `{ro} not in new`", key_text="removed-guard")
            c.check("C03.R2", op_const(opx) == "REMOVED", repo.loc(m, it), "base_diff/removed-item/op", "item built while iterating old is not labelled REMOVED", key_text="removed-op")
        else:
            c.check("C03.R2", f == G.T, repo.loc(m, it), "base_diff/new-item/guard", f"item for a row of new is built only under {G.show(f)}: some rows of new get no diff entry", key_text="new-guard")
            abrupt = [n for n in walk_no_nested(ln) if isinstance(n, (ast.Continue, ast.Break, ast.Return))]
            c.check("C03.R2", not abrupt, repo.loc(m, abrupt[0] if abrupt else ln), "base_diff/new-loop/no-skip", "loop over new skips rows", key_text="new-skip")
            # op value table
            env = G.GuardEnv()
            srcs = []
            if isinstance(opx, ast.Name):
                for d in pv.rd.defs(opx):
                    if d.kind == "assign":
                        srcs.append((d.stmt, d.value))
            for st, v in srcs:
                fv = gm.formula(st, env)
                for leaf, extra in _leaves(v):
                    ff = G.And(fv, extra)
                    k = op_const(leaf)
                    if k == "ADDED":
                        c.check("C03.R2", G.implies(ff, G.Not(G.Atom(f"{rn} in old"))), repo.loc(m, st), "base_diff/op=ADDED",
                                f"ADDED assigned under {G.show(ff)}; must imply `{rn} not in old`", key_text="added-guard")
                    elif k == "MOVED":
                        c.check("C03.R2", G.implies(ff, G.And(G.Atom(f"{rn} in old"), G.Not(G.Atom("moved_to_affected")))), repo.loc(m, st), "base_diff/op=MOVED",
                                f"MOVED assigned under {G.show(ff)}; must imply row in old ∧ ¬moved_to_affected", key_text="moved-guard")
                    elif k in ("REMOVED", "UNCHANGED"):
                        c.violated("C03.R2", repo.loc(m, st), f"base_diff/op={k}", f"a row of new is labelled {k}", key_text="bad-op")
            # every row not in old must be ADDED: the assignment of ADDED must cover `row not in old`
            cover = G.F
            for st, v in srcs:
                fv = gm.formula(st, env)
                for leaf, extra in _leaves(v):
                    if op_const(leaf) == "ADDED":
                        cover = G.Or(cover, G.And(fv, extra))
            c.check("C03.R2", G.implies(G.Not(G.Atom(f"{rn} in old")), cover), repo.loc(m, ln), "base_diff/added-complete",
                    f"a row absent from old is labelled ADDED only under {G.show(cover)}", key_text="added-complete")
        c.check("C03.R2", isinstance(rowx, ast.Name) and rowx.id == rv, repo.loc(m, it), f"base_diff/{where}/row", "item row is not the iterated row", key_text=f"row-{where}")
        # children: direct result of call_diff_logic
        chv = pv.resolve_alias(chx) if chx is not None else None
        ok = isinstance(chv, ast.Call) and call_name(chv) == "call_diff_logic"
        c.check("C03.R2", ok, repo.loc(m, it), f"base_diff/{where}/children",
                f"children of the item are `{norm(chv)[:70] if chv is not None else None}`, not the unfiltered call_diff_logic(...) result: entries of the sub-diff are lost or altered",
                key_text=f"children-{where}")
        if ok:
            a = chv.args
            good = len(a) >= 4 and rv in norm(a[0]) and "subtree" in norm(a[0])
            if in_old:
                good = good and norm(a[1]) == f"old[{ro}]" and isinstance(a[2], ast.Call) and not a[2].args and "REMOVED" in norm(a[3])
            else:
                good = good and norm(a[2]) == f"new[{rn}]" and f"old.get({rn}" in norm(a[1]) and isinstance(opx, ast.Name) and opx.id in norm(a[3])
            c.check("C03.R2", good, repo.loc(m, chv), f"base_diff/{where}/children-args", f"call_diff_logic arguments `{norm(chv)[:90]}` do not address this row's sub-trees with pops + (op,)",
                    key_text=f"children-args-{where}")
        ok = dpx is not None and rv in norm(dpx) and "match" in norm(dpx)
        c.check("C03.R2", ok, repo.loc(m, it), f"base_diff/{where}/diff_pre", "item does not carry this row's match", key_text=f"dp-{where}")
    # all items returned: return derives from the accumulator with no filter
    ret = [n for n in walk_no_nested(fn) if isinstance(n, ast.Return)][-1]
    v = ret.value
    ok = isinstance(v, ast.ListComp) and not v.generators[0].ifs
    if isinstance(v, ast.Name):
        # projection loop: acc = []; for x in <collected>: acc.append(<part of x>)  -- unconditional
        apps = [x for x in calls_in(fn) if isinstance(x.func, ast.Attribute) and x.func.attr == "append" and norm(x.func.value) == v.id]
        ok = len(apps) == 1 and gm.formula(apps[0]) == G.T and len(gm.in_loop(apps[0])) == 1 and \
            not [n for n in walk_no_nested(gm.in_loop(apps[0])[0]) if isinstance(n, (ast.Continue, ast.Break))]
    c.check("C03.R2", ok, repo.loc(m, ret), "base_diff/return", "the returned list filters the collected items", key_text="return-filter")


def _leaves(v):
    """(leaf expr, extra condition formula) of a value expression with conditional expressions"""
    if isinstance(v, ast.IfExp):
        t = G.formula(v.test)
        for leaf, e in _leaves(v.body):
            yield leaf, G.And(t, e)
        for leaf, e in _leaves(v.orelse):
            yield leaf, G.And(G.Not(t), e)
    else:
        yield v, G.T


def r3(c):
    repo = c.repo
    c.rule("C03.R3", "apply_diff_rb: the no-match branch pops the row from old and from new (both, same branch); the match branch recurses with the children_rules of the match "
                     "on the row's sub-trees of old and new")
    m = repo.module(PATCHING)
    fn = repo.func(PATCHING, "apply_diff_rb")
    c.count("functions")
    gm = GuardMap(fn)
    pops = [x for x in calls_in(fn) if isinstance(x.func, ast.Attribute) and x.func.attr == "pop" and isinstance(x.func.value, ast.Name)]
    tg = {x.func.value.id: x for x in pops}

    def ren(s):
        return "match" if s == "match" else s
    ok = {"old", "new"} <= set(tg)
    if ok:
        fo, fnw = gm.formula(tg["old"]), gm.formula(tg["new"])
        ok = G.equivalent(fo, fnw) and G.equivalent(fo, G.Not(G.Atom("match"))) and norm(tg["old"].args[0]) == norm(tg["new"].args[0]) == "row"
    c.check("C03.R3", ok, repo.loc(m, pops[0] if pops else fn), "apply_diff_rb/drop-unknown",
            "a row no rule knows is not removed from both old and new under the same condition: it would show up as a phantom add/remove", key_text="drop-both")
    rec = [x for x in calls_in(fn) if call_name(x) == "apply_diff_rb"]
    ok = len(rec) == 1
    if ok:
        r = rec[0]
        a = [norm(x) for x in r.args] + [norm(k.value) for k in r.keywords]
        ok = any(x.startswith("old.get(row") for x in a) and any(x.startswith("new.get(row") for x in a) and any("children_rules" in x for x in a)
        f = gm.formula(r)
        ok = ok and G.equivalent(f, G.Atom("match"))
    c.check("C03.R3", ok, repo.loc(m, rec[0] if rec else fn), "apply_diff_rb/recursion", "sub-trees are not matched recursively with the children rules of this row's match", key_text="recursion")
    loop = [st for st in fn.body if isinstance(st, ast.For)]
    ok = bool(loop) and "uniq(old, new)" in norm(loop[0].iter)
    c.check("C03.R3", ok, repo.loc(m, loop[0] if loop else fn), "apply_diff_rb/rows", "the rows examined are not the union of old and new", key_text="rows")


def _all_unchanged_of(repo, m, test):
    """if `test` says 'every entry of <collection> has op UNCHANGED' (an all(...) over the collection, or a helper that loops and returns False on the first other op):
    the collection expression, else None"""
    t = test
    if isinstance(t, ast.Call) and call_name(t) == "all" and t.args and isinstance(t.args[0], (ast.GeneratorExp, ast.ListComp)) and len(t.args[0].generators) == 1:
        g = t.args[0].generators[0]
        e = t.args[0].elt
        if not g.ifs and isinstance(g.target, ast.Name) and isinstance(e, ast.Compare) and len(e.ops) == 1 and isinstance(e.ops[0], ast.Eq):
            l, r_ = e.left, e.comparators[0]
            if op_const(l) == "UNCHANGED":
                l, r_ = r_, l
            if op_const(r_) == "UNCHANGED" and norm(l) in (f"{g.target.id}[0]", f"{g.target.id}.op"):
                return g.iter
    if isinstance(t, ast.Call) and isinstance(t.func, ast.Name) and isinstance(m.defs.get(t.func.id), ast.FunctionDef) and len(t.args) == 1:
        h = m.defs[t.func.id]
        body = [x for x in h.body if not (isinstance(x, ast.Expr) and isinstance(x.value, ast.Constant))]
        if len(body) == 2 and isinstance(body[0], ast.For) and isinstance(body[0].target, ast.Name) and norm(body[0].iter) == h.args.args[0].arg \
                and isinstance(body[1], ast.Return) and isinstance(body[1].value, ast.Constant) and body[1].value.value is True and len(body[0].body) == 1 \
                and isinstance(body[0].body[0], ast.If) and len(body[0].body[0].body) == 1 and isinstance(body[0].body[0].body[0], ast.Return) \
                and isinstance(body[0].body[0].body[0].value, ast.Constant) and body[0].body[0].body[0].value.value is False and not body[0].body[0].orelse:
            tt = body[0].body[0].test
            v = body[0].target.id
            if isinstance(tt, ast.Compare) and len(tt.ops) == 1 and isinstance(tt.ops[0], ast.NotEq) and {norm(tt.left), norm(tt.comparators[0])} & {f"{v}[0]", f"{v}.op"} \
                    and (op_const(tt.left) == "UNCHANGED" or op_const(tt.comparators[0]) == "UNCHANGED"):
                return t.args[0]
    return None


def r4(c):
    from sa import symexec
    repo = c.repo
    c.rule("C03.R4", "strip_unchanged keeps exactly the items whose op is not UNCHANGED, each as (op, row, strip_unchanged(children), match); mark_unchanged keeps every item, and "
                     "rewrites the op to UNCHANGED only for an AFFECTED item all of whose (already marked) children are UNCHANGED; row and match of every item are untouched "
                     "(decided on every path through one iteration of the item loop, the item's four components symbolic)")
    m = repo.module(PATCHING)
    for name in ("strip_unchanged", "mark_unchanged"):
        fn = repo.func(PATCHING, name)
        c.count("functions")
        loops = [st for st in fn.body if isinstance(st, ast.For) and norm(st.iter) == fn.args.args[0].arg]
        if len(loops) != 1:
            raise AnchorError(f"{name}: loop over the diff items not found")
        loop = loops[0]
        E = [ast.Name(id=f"E{i}", ctx=ast.Load()) for i in range(4)]
        env0 = {}
        if isinstance(loop.target, ast.Tuple) and len(loop.target.elts) == 4 and all(isinstance(e, ast.Name) for e in loop.target.elts):
            env0 = {e.id: E[i] for i, e in enumerate(loop.target.elts)}
        elif isinstance(loop.target, ast.Name):
            env0 = {loop.target.id: ast.Tuple(elts=list(E), ctx=ast.Load())}
        else:
            raise AnchorError(f"{name}: loop over 4-tuples not found")

        def ren(s_):
            s_ = s_.replace(" ", "")
            return {"E0==Op.UNCHANGED": "unch", "Op.UNCHANGED==E0": "unch", "E0==Op.AFFECTED": "aff", "Op.AFFECTED==E0": "aff"}.get(s_, s_)
        genv = G.GuardEnv(rename=lambda s_: ren(s_))
        kept = G.F
        ok_shape, ok_rec, ok_op, ok_rm = True, True, True, True
        n_app = 0
        for p_ in symexec.paths(loop.body, env0):
            f = G.And(*[(G.formula(t, genv) if pol else G.Not(G.formula(t, genv))) for t, pol in p_.conds])
            if not G.satisfiable(f):
                continue
            apps = [s_ for k, o, s_ in p_.events if k == "call" and isinstance(o.func, ast.Attribute) and o.func.attr == "append" and s_.args]
            if len(apps) > 1:
                ok_shape = False
            for ap in apps:
                n_app += 1
                kept = G.Or(kept, f)
                t = ap.args[0]
                if not (isinstance(t, ast.Tuple) and len(t.elts) == 4):
                    ok_shape = False
                    continue
                e_op, e_row, e_ch, e_m = t.elts
                if norm(e_row) != "E1" or norm(e_m) != "E3":
                    ok_rm = False
                if name == "strip_unchanged":
                    if norm(e_op) != "E0":
                        ok_op = False
                    if not (isinstance(e_ch, ast.Call) and call_name(e_ch) == name and len(e_ch.args) == 1 and norm(e_ch.args[0]) == "E2"):
                        ok_rec = False
                else:
                    marked = isinstance(e_ch, ast.Call) and call_name(e_ch) == name and len(e_ch.args) == 1 and norm(e_ch.args[0]) == "E2"
                    if op_const(e_op) == "UNCHANGED":
                        # only for an AFFECTED item whose marked children are all UNCHANGED
                        tests = [(t_, pol) for t_, pol in p_.conds if pol and _all_unchanged_of(repo, m, t_) is not None]
                        colls = [_all_unchanged_of(repo, m, t_) for t_, _ in tests]
                        if not (G.implies(f, G.Atom("aff")) and marked and any(norm(c_) == norm(e_ch) for c_ in colls)):
                            ok_op = False
                    elif norm(e_op) == "E0":
                        if G.implies(f, G.Atom("aff")) and not marked:
                            ok_rec = False
                        if not G.implies(f, G.Atom("aff")) and norm(e_ch) != "E2" and not marked:
                            ok_rec = False
                    elif isinstance(e_op, ast.IfExp) and op_const(e_op.body) == "UNCHANGED" and norm(e_op.orelse) == "E0":
                        coll = _all_unchanged_of(repo, m, e_op.test)
                        if not (G.implies(f, G.Atom("aff")) and marked and coll is not None and norm(coll) == norm(e_ch)):
                            ok_op = False
                    else:
                        ok_op = False
        at = repo.loc(m, loop)
        if not n_app:
            raise AnchorError(f"{name}: single append of a tuple not found")
        if name == "strip_unchanged":
            c.check("C03.R4", G.equivalent(kept, G.Not(G.Atom("unch"))), at, "strip_unchanged/keep-guard", f"item kept under {G.show(kept)}; expected exactly op != UNCHANGED", key_text="keep-guard")
            c.check("C03.R4", ok_rec and ok_shape, at, "strip_unchanged/recursion", "children of a kept item are not stripped recursively (or are replaced)", key_text="recursion")
            c.check("C03.R4", ok_op, at, "strip_unchanged/op", "op of a kept item is altered", key_text="op")
        else:
            c.check("C03.R4", G.equivalent(kept, G.T) and ok_shape, at, "mark_unchanged/keep-all", f"items are kept only under {G.show(kept)}", key_text="keep-all")
            c.check("C03.R4", ok_op and ok_rec, at, "mark_unchanged/rewrite", "UNCHANGED is assigned other than to an AFFECTED item all of whose (marked) children are UNCHANGED", key_text="rewrite")
        c.check("C03.R4", ok_rm, at, f"{name}/item.row-match", "row or match of an item is altered", key_text=f"{name}-row-match")
        abrupt = [n for n in walk_no_nested(loop) if isinstance(n, (ast.Break, ast.Return))]
        c.check("C03.R4", not abrupt, at, f"{name}/no-early-exit", "loop exits early", key_text=f"{name}-exit")


def r5(c):
    repo = c.repo
    c.rule("C03.R5", "renderers emit every entry: _diff_lines yields one line per diff item with sign_map[flag] and recurses into children at _level + 1; gen_pre_as_diff "
                     "iterates every rule, every key, every op of ops_order and every row of the bucket, unguarded, and recurses at _level + 1")
    tm = repo.module(TAB)
    fn = repo.func(TAB, "CommonFormatter._diff_lines")
    gm = GuardMap(fn)
    loop = [st for st in fn.body if isinstance(st, ast.For)]
    if not loop:
        raise AnchorError("_diff_lines: loop not found")
    loop = loop[0]
    ys = [n for n in walk_no_nested(loop) if isinstance(n, ast.Yield)]
    yf = [n for n in walk_no_nested(loop) if isinstance(n, ast.YieldFrom)]
    cover = G.F
    for y in ys:
        cover = G.Or(cover, gm.formula(y))
    c.check("C03.R5", cover != G.F and G.implies(G.T, cover), repo.loc(tm, loop), "_diff_lines/line-per-item", f"a diff item yields a line only under {G.show(cover)}", key_text="line-per-item")
    skip = [n for n in walk_no_nested(loop) if isinstance(n, (ast.Continue, ast.Break, ast.Return))]
    c.check("C03.R5", not skip, repo.loc(tm, loop), "_diff_lines/no-skip", "loop skips items", key_text="dl-skip")
    ok = bool(yf) and isinstance(yf[0].value, ast.Call) and call_name(yf[0].value).endswith("_diff_lines") and any("_level + 1" in norm(a) for a in yf[0].value.args)
    if ok:
        f = gm.formula(yf[0], G.GuardEnv())
        ok = G.implies(G.Atom("children"), f)
    c.check("C03.R5", ok, repo.loc(tm, loop), "_diff_lines/recursion", "children are not rendered (recursively, one level deeper) whenever an item has children", key_text="dl-rec")
    flagvar = loop.target.elts[0].id if isinstance(loop.target, ast.Tuple) and isinstance(loop.target.elts[0], ast.Name) else "flag"
    pvd = Provenance(fn)

    def is_sign(e):
        e = pvd.resolve_alias(e)
        return isinstance(e, ast.Subscript) and norm(e.slice) == flagvar and (isinstance(pvd.resolve_alias(e.value), ast.Dict) or isinstance(e.value, ast.Dict))

    def first_piece(y):
        v = y.value
        if isinstance(v, ast.BinOp) and isinstance(v.op, ast.Mod) and isinstance(v.right, ast.Tuple) and v.right.elts:
            return v.right.elts[0]
        if isinstance(v, ast.JoinedStr):
            for part in v.values:
                if isinstance(part, ast.FormattedValue):
                    return part.value
                if isinstance(part, ast.Constant) and str(part.value).strip():
                    return None
        return None
    uses_sign = bool(ys) and all(first_piece(y) is not None and is_sign(first_piece(y)) for y in ys)
    c.check("C03.R5", uses_sign, repo.loc(tm, loop), "_diff_lines/sign", "a rendered line does not start with the sign of the item's own op (sign map indexed by the item's flag)", key_text="dl-sign")
    # gen_pre_as_diff
    dm = repo.module(ADIFF)
    g = repo.func(ADIFF, "gen_pre_as_diff")
    c.count("functions", 2)
    gm2 = GuardMap(g)
    row_yields = [n for n in walk_no_nested(g) if isinstance(n, ast.Yield) and any(norm(x).replace('"', "'") == "item['row']" for x in ast.walk(n))]
    # the line is first assigned then yielded: find yields whose value mentions ops_color[op]
    row_yields = [n for n in walk_no_nested(g) if isinstance(n, ast.Yield) and "ops_color[op]" in norm(n)]
    if len(row_yields) != 1:
        raise AnchorError("gen_pre_as_diff: the row-line yield not found")
    y = row_yields[0]
    f = gm2.formula(y)
    c.check("C03.R5", f == G.T, repo.loc(dm, y), "gen_pre_as_diff/row-line/guard", f"a row of a bucket is printed only under {G.show(f)}: entries vanish from the `annet diff` view",
            key_text="gpd-guard")
    loops = gm2.in_loop(y)
    skip = []
    for lp in loops:
        skip += [n for n in walk_no_nested(lp) if isinstance(n, (ast.Continue, ast.Break, ast.Return))]
    c.check("C03.R5", not skip, repo.loc(dm, skip[0] if skip else g), "gen_pre_as_diff/no-skip",
            f"`{norm(skip[0]) if skip else ''}` under [{G.show(gm2.formula(skip[0])) if skip else ''}] skips rules, keys, ops or rows in the rendered diff", key_text="gpd-skip")
    srcs = [norm(lp.iter) for lp in loops if isinstance(lp, ast.For)]
    pvg = Provenance(g)
    chains = [pvg.iteration_bases(lp.iter) for lp in loops if isinstance(lp, ast.For)]
    bases = [b for b, _ in chains]
    # rule x key x op x row: the outermost walks pre, one walks the keys of a rule (content['items']), one walks every op of ops_order, the innermost the rows of the bucket
    ok = len(loops) == 4 and any("pre.items()" in x or x == "pre" for x in bases[0]) and any(any("items" in x for x in b) for b in bases[1:2]) \
        and any(any("ops_order" in x for x in b) for b in bases)
    c.check("C03.R5", ok, repo.loc(dm, g), "gen_pre_as_diff/loops", f"expected rule × key × op × row nesting, found {srcs}", key_text="gpd-loops")
    opchain = [(b, f) for b, f in chains if any("ops_order" in x for x in b)]
    ok = bool(opchain) and not opchain[0][1]
    c.check("C03.R5", ok, repo.loc(dm, g), "gen_pre_as_diff/ops", "the ops iterated are not all of ops_order", key_text="gpd-ops")
    rec = [n for n in walk_no_nested(g) if isinstance(n, ast.YieldFrom)]
    ok = bool(rec) and call_name(rec[0].value) == "gen_pre_as_diff" and "_level + 1" in norm(rec[0].value)
    if ok:
        fr = gm2.formula(rec[0], G.GuardEnv(rename=lambda s: s.replace('"', "'")))
        ok = all("children" in a for a in G.atoms(fr)) and G.satisfiable(fr)
    c.check("C03.R5", ok, repo.loc(dm, g), "gen_pre_as_diff/recursion", "children of a row are not rendered one level deeper whenever present", key_text="gpd-rec")


def r6(c):
    repo = c.repo
    c.rule("C03.R6", "the standard diff logics default_diff, ordered_diff, rewrite_diff return the list built by base_diff without removing entries "
                     "(no clear/del/pop/remove/filtering); relabelling an op is allowed")
    m = repo.module(COMMON)
    for name in ("default_diff", "ordered_diff", "rewrite_diff"):
        fn = repo.func(COMMON, name)
        c.count("functions")
        pv = Provenance(fn)
        rets = [n for n in walk_no_nested(fn) if isinstance(n, ast.Return) and n.value is not None]
        base = [x for x in calls_in(fn) if call_name(x) == "base_diff"]
        if not base or not rets:
            raise AnchorError(f"{name}: base_diff call / return not found")
        ok = all(any(x is base[0] for x in pv.origin_calls(r.value, through_calls=False)) for r in rets)
        c.check("C03.R6", ok, repo.loc(m, fn), f"{name}/returns-base_diff", "returned value is not the base_diff list", key_text=f"{name}-ret")
        dels = []
        for n in walk_no_nested(fn):
            if isinstance(n, ast.Call) and isinstance(n.func, ast.Attribute) and n.func.attr in ("clear", "pop", "remove", "popitem") and isinstance(n.func.value, ast.Name):
                # only deletions on the diff list (or its aliases) count
                if any(x is base[0] for x in pv.origin_calls(n.func.value, through_calls=False)):
                    dels.append(n)
            elif isinstance(n, ast.Delete):
                dels.append(n)
        for r in rets:
            if isinstance(r.value, (ast.ListComp,)) and r.value.generators[0].ifs:
                dels.append(r)
        if dels:
            d = dels[0]
            c.violated("C03.R6", repo.loc(m, d), f"{name}/deletes-entries", f"`{norm(d)[:60]}` removes entries from the diff: the un-stripped diff no longer describes both inputs",
                       key_text="deletes")
        else:
            c.holds("C03.R6", repo.loc(m, fn), f"{name}/no-deletion")


def loop_reset_accumulators(fn):
    """containers (re)initialised in the body of a loop, filled there, and read only after that loop: whatever the earlier iterations collected is thrown away"""
    out = []
    for lp in [n for n in ast.walk(fn) if isinstance(n, (ast.For, ast.While))]:
        for st in lp.body:
            if isinstance(st, ast.Assign) and len(st.targets) == 1 and isinstance(st.targets[0], ast.Name) and \
                    ((isinstance(st.value, (ast.List, ast.Dict, ast.Set)) and not getattr(st.value, "elts", getattr(st.value, "keys", []))) or
                     (isinstance(st.value, ast.Call) and call_name(st.value) in ("list", "dict", "set", "odict") and not st.value.args)):
                x = st.targets[0].id
                filled = any(isinstance(c_, ast.Call) and isinstance(c_.func, ast.Attribute) and c_.func.attr in ("append", "extend", "add", "update") and norm(c_.func.value) == x
                             for b in lp.body for c_ in ast.walk(b))
                read_inside = any(isinstance(n, ast.Name) and n.id == x and isinstance(n.ctx, ast.Load) and not (isinstance(getattr(n, "_parent", None), ast.Attribute)
                                  and getattr(n._parent, "attr", "") in ("append", "extend", "add", "update")) for b in lp.body for n in ast.walk(b))
                # read after the loop, in the block that contains it
                par = getattr(lp, "_parent", None)
                after = []
                for field in ("body", "orelse", "finalbody"):
                    blk = getattr(par, field, None)
                    if isinstance(blk, list) and lp in blk:
                        after = blk[blk.index(lp) + 1:]
                read_after = any(isinstance(n, ast.Name) and n.id == x and isinstance(n.ctx, ast.Load) for b in after for n in ast.walk(b))
                init_before = any(isinstance(n, ast.Name) and n.id == x and isinstance(n.ctx, ast.Store) and getattr(n, "lineno", 0) < lp.lineno for n in ast.walk(fn))
                if filled and read_after and not read_inside and not init_before:
                    out.append((st, lp, x))
    return out


def r7(c, rid="C03.R7"):
    """the known deletion in rewrite_diff (C03.R6) is harmless only while its 'nothing changed anywhere' test looks at the whole sub-tree"""
    repo = c.repo
    c.rule(rid, "rewrite_diff: the test that decides to clear the diff of a %rewrite block (and the loop relabelling AFFECTED to MOVED) quantify over every entry of the "
                     "sub-tree — the iterable is produced by a walker that descends into .children — and the test compares each visited entry's op with Op.AFFECTED; "
                     "a test over the first level only treats a change below an unchanged row as 'no change' and drops it from the diff")
    m = repo.module(COMMON)
    fn = repo.func(COMMON, "rewrite_diff", canon=False)
    c.count("functions")
    gm = GuardMap(fn)
    pv = Provenance(fn)
    base = [x for x in calls_in(fn) if call_name(x) == "base_diff"]
    clears = [n for n in walk_no_nested(fn) if isinstance(n, ast.Call) and isinstance(n.func, ast.Attribute) and n.func.attr == "clear"
              and base and any(x is base[0] for x in pv.origin_calls(n.func.value, through_calls=False))]
    if not clears:
        c.holds(rid, repo.loc(m, fn), "rewrite_diff/clear-test", "the diff is never cleared", trivial=True)
        return
    nested = {n.name: n for n in ast.walk(fn) if isinstance(n, ast.FunctionDef) and n is not fn}
    for w in nested.values():
        for st_, lp_, x_ in loop_reset_accumulators(w):
            c.violated(rid, repo.loc(m, st_), f"rewrite_diff/{w.name}/walk-complete", f"`{x_}` is emptied on every pass of the loop at line {lp_.lineno} and only read after it: the walker "
                       "forgets the children collected for all but the last list of a level, so entries deeper in the sub-tree are never visited (a change there is neither seen by the "
                       "'nothing changed' test nor relabelled)", key_text=f"walker-reset:{x_}")

    def walker_of(it):
        """-> (function def or None, shallow?)"""
        if isinstance(it, ast.Call):
            nm = call_name(it)
            f = nested.get(nm) or (m.defs.get(nm) if isinstance(m.defs.get(nm), ast.FunctionDef) else None)
            if f is not None:
                deep = any(isinstance(x, ast.Attribute) and x.attr == "children" for x in ast.walk(f)) and \
                    (any(isinstance(x, ast.Call) and call_name(x) == f.name for x in ast.walk(f)) or any(isinstance(x, ast.While) for x in ast.walk(f)))
                return f, not deep
            if nm in ("enumerate", "iter", "list", "reversed") and it.args:
                return walker_of(it.args[0])
        if any(x is base[0] for x in pv.origin_calls(it, through_calls=False)):
            return None, True
        return None, None
    for cl in clears:
        tests = [t for t, pol in gm.of(cl)]
        quant = []
        for t in tests:
            for x in ast.walk(t):
                if isinstance(x, ast.Call) and call_name(x) in ("all", "any") and x.args and isinstance(x.args[0], (ast.GeneratorExp, ast.ListComp)):
                    quant.append(x)
        if not quant:
            raise AnchorError("rewrite_diff: the test guarding diff.clear() is not an all()/any() over the diff")
        q = quant[0]
        g = q.args[0].generators[0]
        f, shallow = walker_of(g.iter)
        if shallow is None:
            raise AnchorError(f"rewrite_diff: iterable `{norm(g.iter)[:50]}` of the clear test not recognised")
        mentions_affected = any(op_const(x) == "AFFECTED" for x in ast.walk(q.args[0].elt)) and any(isinstance(x, ast.Attribute) and x.attr == "op" for x in ast.walk(q.args[0].elt))
        c.check(rid, (not shallow) and mentions_affected, repo.loc(m, q), "rewrite_diff/clear-test",
                f"`{norm(q)[:80]}` looks at {'the first level of the diff only' if shallow else 'something other than op == Op.AFFECTED'}: a %rewrite block whose only change lies below an unchanged row "
                "(e.g. a statement inside an if of a route-policy) is cleared from the diff — the change is never patched", key_text="clear-test-depth")
    loops = [n for n in walk_no_nested(fn) if isinstance(n, ast.For) and any(isinstance(x, ast.Call) and isinstance(x.func, ast.Attribute) and x.func.attr == "_replace" for x in ast.walk(n))]
    for lp in loops:
        f, shallow = walker_of(lp.iter)
        c.check(rid, shallow is False, repo.loc(m, lp), "rewrite_diff/relabel-walk", "the AFFECTED→MOVED relabelling does not walk the whole sub-tree: nested unchanged rows of a rewritten block are not re-created",
                key_text="relabel-depth")


def r8(c):
    repo = c.repo
    c.rule("C03.R8", "index-based move detection needs both sides in their own order: call_diff_logic fills the old part of every diff-logic group with old[row] while iterating "
                     "`old` itself and the new part with new[row] while iterating `new` itself (a group filled in the other side's order makes a pure reordering invisible: it is "
                     "reported AFFECTED, then stripped); CommonFormatter.diff renders the diff it is given, entries in the given order")
    m = repo.module(COMMON)
    fn = repo.func(COMMON, "call_diff_logic")
    c.count("functions", 2)
    gm = GuardMap(fn)
    pv = Provenance(fn)
    ps = [a.arg for a in fn.args.args]
    if len(ps) < 3:
        raise AnchorError("call_diff_logic: (diff_pre, old, new) parameters not found")
    OLD, NEW = ps[1], ps[2]
    found = {}
    for n in walk_no_nested(fn):
        if isinstance(n, ast.Assign) and isinstance(n.targets[0], ast.Subscript):
            v = norm(pv.resolve_alias(n.value))
            for side, P in (("old", OLD), ("new", NEW)):
                if v.startswith(f"{P}[") and gm.in_loop(n):
                    lp = [l for l in gm.in_loop(n) if isinstance(l, ast.For)]
                    if lp:
                        found.setdefault(side, []).append((n, pv.iteration_bases(lp[-1].iter)))
    for side, P in (("old", OLD), ("new", NEW)):
        if side not in found:
            # single-logic fast paths etc. are fine as long as the grouping stores exist somewhere
            raise AnchorError(f"call_diff_logic: the store of {P}[row] into its diff-logic group not found")
        for n, (bases, filters) in found[side]:
            ok = bases == {P} and not filters
            c.check("C03.R8", ok, repo.loc(m, n), f"call_diff_logic/{side}-group-order", f"`{norm(n)[:60]}` runs in a loop over {sorted(bases)}: the {side} part of a group must be filled in "
                    f"the order of `{P}` itself — base_diff compares row positions of the two parts, so a part filled in another order hides (or invents) moves", key_text=f"{side}-order")
    tm = repo.module(TAB)
    df = repo.func(TAB, "CommonFormatter.diff")
    pvd = Provenance(df)
    calls = [x for x in calls_in(df) if isinstance(x.func, ast.Attribute) and x.func.attr in ("diff_generator", "_diff_lines") and x.args]
    if not calls:
        raise AnchorError("CommonFormatter.diff: rendering call not found")
    a0 = pvd.resolve_alias(calls[0].args[0])
    ok = isinstance(a0, ast.Name) and a0.id == df.args.args[1].arg
    c.check("C03.R8", ok, repo.loc(tm, calls[0]), "CommonFormatter.diff/as-given", f"the text is rendered from `{norm(a0)[:50]}`, not from the diff as given: re-sorted entries read back as another "
            "ordered tree (an added row of an ordered block is shown after the rows it precedes)", key_text="diff-as-given")


def r10(c, rid="C03.R10"):
    repo = c.repo
    c.rule(rid, "case is folded per rule, not per block: in rulebook.common._ignore_case a row is replaced by its lower-case form only under that row's own %ignore_case "
                      "attribute (diff_pre[row]['match']['attrs']['ignore_case']) — folding every row of a block that merely contains one such rule makes case-only changes of "
                      "the other rows (descriptions, names, passwords) disappear from the diff and reports rows that exist in neither input")
    m = repo.module(COMMON)
    fn = repo.func(COMMON, "_ignore_case")
    c.count("functions")
    gm = GuardMap(fn)
    lows = [x for x in calls_in(fn) if isinstance(x.func, ast.Attribute) and x.func.attr in ("lower", "casefold", "upper") and not x.args]
    if not lows:
        raise AnchorError("_ignore_case: the case folding of a row not found")
    for x in lows:
        R = norm(x.func.value)

        def ren(s_, R=R):
            t = s_.replace('"', "'").replace(" ", "")
            return "row_ignore_case" if t in (f"diff_pre[{R}]['match']['attrs']['ignore_case']", f"diff_pre[{R}]['match']['attrs'].get('ignore_case')",
                                               f"diff_pre[{R}]['match']['attrs'].get('ignore_case',False)") else s_
        f = gm.formula(x, G.GuardEnv(rename=ren), alias=True)
        c.check(rid, G.implies(f, G.Atom("row_ignore_case")), repo.loc(m, x), f"_ignore_case/{norm(x)}", f"`{norm(x)}` is applied under {G.show(f)}, which does not imply that the rule of this very "
                "row asks for it", key_text="fold-unguarded")
