"""C12 -- the worker pool returns exactly one result per submitted device (pairing / typestate clauses)."""
import ast

from sa import guards as G
from sa.flow import GuardMap, Provenance, Typestate
from sa.repo import ordk, AnchorError, call_name, calls_in, dotted, norm, walk_no_nested, kwarg

MOD = "annet.parallel"


def run(c):
    c.explanation = ("Pairing and typestate facts of the process pool decided on the AST of annet/parallel.py: STOP tokens per worker, one result put per task on every path "
                     "(exception paths included) before the worker retires through a flushing exit, the parent's loop exit only after a drained-queue observation that follows "
                     "the last reap, reaping table, and the success/fail partition.")
    c.decides = ("one STOP per started worker and none on restart; exactly one done_queue.put per non-STOP task before the next get / before retiring, and retiring through "
                 "sys.exit (multiprocessing flushes the queue) — never os._exit; the parent leaves its loop only on a drained queue; a retired worker (code 9) stays in the pool and "
                 "is restarted; success/fail partition keyed by device id")
    c.does_not_decide = "delivery for every interleaving of parent and workers (needs an explicit-state model: another family); these are the pairing facts such a model would assume"
    r1(c)
    r2(c)
    r3(c)
    r4(c)
    r5(c)
    r6(c)
    r7(c)
    r8(c)
    r9(c)


def _is_put(node, qname):
    return isinstance(node, ast.Call) and isinstance(node.func, ast.Attribute) and node.func.attr in ("put", "put_nowait") and norm(node.func.value) == qname


def _calls(node):
    return [n for n in walk_no_nested(node) if isinstance(n, ast.Call)]


def r1(c):
    repo = c.repo
    c.rule("C12.R1", "in Parallel.irun one STOP task is put on the task queue per initially started worker (inside the loop that starts them, once per iteration), and the restart "
                     "of a retired worker (exit code 9, which did not consume a STOP) is not accompanied by another STOP")
    m = repo.module(MOD)
    fn = repo.func(MOD, "Parallel.irun")
    c.count("functions")
    gm = GuardMap(fn)
    stops = [x for x in calls_in(fn) if _is_put(x, "task_queue") and "STOP" in norm(x)]
    starts = [x for x in calls_in(fn) if isinstance(x.func, ast.Attribute) and x.func.attr == "start" and not x.args]
    if not starts:
        raise AnchorError("irun: worker .start() calls not found")
    init_loop = None
    for s in starts:
        lp = gm.in_loop(s)
        if lp and "range(pool_size)" in norm(lp[-1].iter):
            init_loop = lp[-1]
    if init_loop is None:
        raise AnchorError("irun: loop starting the initial workers (range(pool_size)) not found")
    in_init = [x for x in stops if gm.in_loop(x) and gm.in_loop(x)[-1] is init_loop]
    ok = len(in_init) == 1 and gm.formula(in_init[0]) == gm.formula(init_loop)
    c.check("C12.R1", ok, repo.loc(m, init_loop), "irun/STOP-per-started-worker", f"{len(in_init)} STOP puts in the worker start loop (expected exactly one, unconditional): a worker without a STOP never "
            "terminates; an extra STOP makes a worker leave while tasks remain", key_text="stop-per-worker")
    other = [x for x in stops if x not in in_init]
    c.check("C12.R1", not other, repo.loc(m, other[0] if other else fn), "irun/no-STOP-elsewhere", f"STOP is also put at line {other[0].lineno if other else ''} (e.g. on restart of a retired worker): "
            "more STOPs than workers make workers exit while tasks are still queued", key_text="extra-stop")
    # tasks: one INVOKE put per device id
    inv = [x for x in calls_in(fn) if _is_put(x, "task_queue") and "INVOKE" in norm(x)]
    ok = len(inv) == 1 and gm.in_loop(inv[0]) and norm(gm.in_loop(inv[0])[-1].iter) == "device_ids" and "payload=device_id" in norm(inv[0]).replace(" ", "")
    c.check("C12.R1", bool(ok), repo.loc(m, inv[0] if inv else fn), "irun/one-task-per-id", "not exactly one INVOKE task is queued per submitted id", key_text="tasks")
    ok = bool(inv) and ordk(inv[0]) < ordk(in_init[0]) if in_init and inv else False
    c.check("C12.R1", ok, repo.loc(m, fn), "irun/tasks-before-STOPs", "STOP tokens are queued before the tasks: workers would stop before the work is done", key_text="order")


def r2(c):
    repo = c.repo
    c.rule("C12.R2", "in _pool_worker, on every path from a non-STOP task_queue.get() to the next loop iteration or to the end of the process, exactly one done_queue.put(...) "
                     "carrying that task occurs (the `except Exception` path included; KeyboardInterrupt is the allowed exception); retiring after max_tasks happens after that "
                     "put and through sys.exit (SystemExit lets multiprocessing flush the queue's feeder thread) — never os._exit")
    m = repo.module(MOD)
    fn = repo.func(MOD, "_pool_worker")
    c.count("functions")
    violations = []

    def is_get(n):
        return isinstance(n, ast.Call) and isinstance(n.func, ast.Attribute) and n.func.attr == "get" and norm(n.func.value) == "task_queue"

    def on_stmt(node, st, ts):
        # st in {"idle", "pending", "done", "over"}
        calls = _calls(node) if not isinstance(node, (ast.ExceptHandler,)) else []
        cur = st
        for cl in sorted(calls, key=lambda x: (x.lineno, x.col_offset)):
            if is_get(cl):
                if cur == "pending":
                    violations.append(("next-get-without-put", cl, ts))
                cur = "pending"
            elif _is_put(cl, "done_queue"):
                if cur == "done":
                    violations.append(("second-put", cl, ts))
                elif cur == "idle":
                    violations.append(("put-without-task", cl, ts))
                cur = "done"
            elif call_name(cl) in ("sys.exit", "os._exit", "exit", "quit"):
                if cur == "pending":
                    violations.append(("exit-before-put", cl, ts))
                cur = "over"
        if isinstance(node, ast.Return) and cur == "pending":
            cur = "ret-pending"
        return [cur]

    def may_raise(st):
        return any(isinstance(n, ast.Call) for n in ast.walk(st))
    ts = Typestate(on_stmt, may_raise=may_raise)
    res = ts.run(fn.body, "idle")
    # returns in pending state are allowed only on the STOP branch
    for (rs, facts) in res["return"]:
        if rs == "ret-pending":
            fd = dict(facts)
            stop = any(("STOP" in a and v is True) for a, v in fd.items())
            if not stop:
                violations.append(("return-without-put", fn, ts))
    for (rs, facts) in res["fall"]:
        if rs == "pending":
            violations.append(("end-without-put", fn, ts))
    puts = [x for x in calls_in(fn) if _is_put(x, "done_queue")]
    c.floor("C12.R2", "done_queue.put sites", len(puts), 1)
    seen = set()
    for kind, node, _ in violations:
        if kind in seen:
            continue
        seen.add(kind)
        c.violated("C12.R2", repo.loc(m, node), f"_pool_worker/{kind}", {
            "next-get-without-put": "a path reaches the next task_queue.get() without having put a result for the current task: that id is never delivered",
            "second-put": "a path puts two results for one task",
            "put-without-task": "a result is put although no task was taken",
            "exit-before-put": "the worker exits (retires) before putting the result of its current task",
            "return-without-put": "the worker returns with a task taken and no result put (other than on STOP)",
            "end-without-put": "the worker function ends with a task taken and no result put",
        }[kind], key_text=kind)
    if not violations:
        c.holds("C12.R2", repo.loc(m, fn), "_pool_worker/one-put-per-task", f"typestate over {ts.steps} steps: every path get→(put)→get/exit has exactly one put")
    # the put carries this task
    ok = all(any(isinstance(n, ast.Name) and n.id == "task" for n in ast.walk(p)) for p in puts)
    c.check("C12.R2", ok, repo.loc(m, puts[0]), "_pool_worker/put-carries-task", "the result put does not carry the task it belongs to", key_text="carries")
    # exceptions of the task are caught broadly (Exception), KeyboardInterrupt re-raised
    tries = [n for n in walk_no_nested(fn) if isinstance(n, ast.Try) and any("invoke_retry" in norm(x) for x in ast.walk(n))]
    ok = False
    if tries:
        hs = tries[0].handlers
        broad = [h for h in hs if h.type is not None and norm(h.type) in ("Exception", "BaseException")]
        ok = bool(broad) and not any(isinstance(x, (ast.Raise, ast.Return, ast.Continue, ast.Break)) for h in broad for x in walk_no_nested(h))
    c.check("C12.R2", ok, repo.loc(m, tries[0] if tries else fn), "_pool_worker/task-exceptions-caught", "an exception raised by the task is not caught (or the handler leaves the iteration): no outcome is "
            "delivered for that id", key_text="caught")
    # retire through sys.exit
    hard = [x for x in calls_in(fn) if call_name(x) in ("os._exit", "os.abort", "os.kill")]
    for q in ("pool_worker",):
        if q in m.defs:
            hard += [x for x in calls_in(m.defs[q]) if call_name(x) in ("os._exit", "os.abort")]
    c.check("C12.R2", not hard, repo.loc(m, hard[0] if hard else fn), "_pool_worker/flushing-exit", f"`{norm(hard[0]) if hard else ''}` ends the worker without running multiprocessing's exit path, which "
            "joins the done-queue feeder thread: the result put just before is silently lost", key_text="hard-exit")
    ex = [x for x in calls_in(fn) if call_name(x) == "sys.exit"]
    ok = bool(ex) and ex[0].args and isinstance(ex[0].args[0], ast.Constant) and ex[0].args[0].value == 9
    c.check("C12.R2", ok, repo.loc(m, ex[0] if ex else fn), "_pool_worker/retire-code", "retiring does not use exit code 9 (the code _check_children treats as retire-and-restart)", key_text="code9")


def r3(c):
    repo = c.repo
    c.rule("C12.R3", "typestate over the multi-process loop of irun. Events: REAP (call of _check_children), GOT (the blocking done_queue.get succeeded), EMPTY (its queue.Empty "
                     "handler or a later non-blocking drain ending in queue.Empty). Reaped workers have flushed their results into the queue, so the loop may be left only when, "
                     "after the last REAP on the path, the last queue observation was EMPTY (REAP→unknown, GOT→unknown, EMPTY→drained; leaving in state unknown is a violation)")
    m = repo.module(MOD)
    fn = repo.func(MOD, "Parallel.irun")
    loops = [n for n in walk_no_nested(fn) if isinstance(n, ast.While) and any("_check_children" in norm(x) for x in ast.walk(n))]
    if len(loops) != 1:
        raise AnchorError("irun: polling loop not found")
    loop = loops[0]
    bad = []

    def on_stmt(node, st, ts):
        cur = st
        if isinstance(node, ast.ExceptHandler):
            if node.type is not None and "Empty" in norm(node.type):
                return ["drained"]
            return [cur]
        for cl in sorted(_calls(node), key=lambda x: (x.lineno, x.col_offset)):
            if "_check_children" in norm(cl.func):
                cur = "unknown"
            elif isinstance(cl.func, ast.Attribute) and cl.func.attr in ("get", "get_nowait") and norm(cl.func.value) == "done_queue":
                cur = "unknown"   # GOT (the Empty outcome is the handler edge)
        if isinstance(node, ast.Break):
            if cur != "drained":
                bad.append((node, ts, cur))
        return [cur]

    def may_raise(st):
        return any(isinstance(n, ast.Call) and isinstance(n.func, ast.Attribute) and n.func.attr in ("get", "get_nowait") and norm(n.func.value) == "done_queue" for n in ast.walk(st))
    ts = Typestate(on_stmt, may_raise=may_raise)
    # run the loop body to a fixpoint through the While node itself
    res = ts.run([loop], "unknown")
    # code after the loop may still drain: look for a drain loop after it
    after = [st for st in (loop._parent.body if hasattr(loop._parent, "body") else []) if ordk(st) > ordk(loop) and not any(x is st for x in ast.walk(loop))]
    drains_after = any(isinstance(st, (ast.While, ast.For)) and any(isinstance(x, ast.Call) and isinstance(x.func, ast.Attribute) and x.func.attr in ("get", "get_nowait")
                                                                      and norm(x.func.value) == "done_queue" for x in ast.walk(st)) for st in after)
    c.count("functions")
    if bad and not drains_after:
        node, ts_, cur = bad[0]
        gm = GuardMap(fn)
        c.violated("C12.R3", repo.loc(m, node), "irun/leave-on-undrained-queue",
                   f"the loop is left (`break` under {G.show(gm.formula(node, skip_early=True))}) in state `{cur}`: after the last _check_children the queue was not observed empty, so results "
                   "already flushed by the reaped workers can still be queued and are never yielded (slow consumer: 2 of 6 results delivered)", key_text="undrained-break")
    else:
        c.holds("C12.R3", repo.loc(m, loop), "irun/leave-only-when-drained", "every exit of the loop follows an EMPTY observation after the last REAP" + (" (drained after the loop)" if drains_after else ""))


def r4(c):
    repo = c.repo
    c.rule("C12.R4", "_check_children removes a worker from the pool iff its exit code is neither None nor 9 (a retired worker stays, to be restarted); irun restarts every name "
                     "returned as retired before the next get, and tests `not pool` for leaving only before... with retired workers still in the pool")
    m = repo.module(MOD)
    fn = repo.func(MOD, "Parallel._check_children")
    c.count("functions")
    gm = GuardMap(fn)
    dels = [n for n in walk_no_nested(fn) if (isinstance(n, ast.Delete) and "pool[" in norm(n)) or
            (isinstance(n, ast.Call) and isinstance(n.func, ast.Attribute) and n.func.attr in ("pop", "popitem", "clear") and norm(n.func.value) == "pool")]
    if not dels:
        c.violated("C12.R4", repo.loc(m, fn), "_check_children/removal", "finished workers are never removed from the pool: the parent loop cannot terminate", key_text="no-removal")
    for d in dels:
        def ren(s):
            return {"9 == exitcode": "is9", "exitcode == 9": "is9", "exitcode is None": "running"}.get(s, s)
        f = gm.formula(d, G.GuardEnv(rename=ren))
        ok = G.implies(f, G.Not(G.Atom("is9"))) and G.implies(f, G.Not(G.Atom("running")))
        c.check("C12.R4", ok, repo.loc(m, d), "_check_children/removal-guard", f"`{norm(d)[:50]}` runs under {G.show(f)}, which does not exclude exit code 9: a retired worker is dropped from the pool, "
                "so when every live worker retires at once `not pool` ends the parent loop with tasks still queued", key_text="removal-guard")
    ret9 = [x for x in calls_in(fn) if isinstance(x.func, ast.Attribute) and x.func.attr == "append" and norm(x.func.value) == "retired_workers"]
    ok = bool(ret9) and G.implies(gm.formula(ret9[0], G.GuardEnv(rename=lambda s: {"9 == exitcode": "is9"}.get(s, s))), G.Atom("is9"))
    c.check("C12.R4", ok, repo.loc(m, fn), "_check_children/retired-list", "workers are not reported as retired exactly for exit code 9", key_text="retired")
    ir = repo.func(MOD, "Parallel.irun")
    restart = [n for n in walk_no_nested(ir) if isinstance(n, ast.For) and norm(n.iter) == "retired_workers"]
    ok = bool(restart) and any(isinstance(x, ast.Call) and isinstance(x.func, ast.Attribute) and x.func.attr == "start" for x in ast.walk(restart[0])) and \
        any(isinstance(x, ast.Assign) and norm(x.targets[0]) == "pool[name]" for x in ast.walk(restart[0]))
    c.check("C12.R4", ok, repo.loc(m, restart[0] if restart else ir), "irun/restart-retired", "retired workers are not all restarted under their name", key_text="restart")


def r5(c):
    repo = c.repo
    c.rule("C12.R5", "Parallel.run puts each result into exactly one of success/fail keyed by device_id (if/else on `exc is not None`); the single-process arm of irun yields once per id")
    m = repo.module(MOD)
    fn = repo.func(MOD, "Parallel.run")
    c.count("functions")
    gm = GuardMap(fn)
    pv = Provenance(fn)
    rets = [n for n in walk_no_nested(fn) if isinstance(n, ast.Return) and isinstance(n.value, ast.Tuple) and len(n.value.elts) == 2 and all(isinstance(e, ast.Name) for e in n.value.elts)]
    if not rets:
        raise AnchorError("Parallel.run: `return success, fail` not found")
    S, F = rets[-1].value.elts[0].id, rets[-1].value.elts[1].id
    st = {}
    for n in walk_no_nested(fn):
        if isinstance(n, ast.Assign) and isinstance(n.targets[0], ast.Subscript) and norm(n.targets[0].value) in (S, F):
            st["success" if norm(n.targets[0].value) == S else "fail"] = n
    ok = set(st) == {"success", "fail"}
    loop = None
    if ok:
        lp = gm.in_loop(st["success"])
        loop = lp[-1] if lp and isinstance(lp[-1], ast.For) and isinstance(lp[-1].target, ast.Name) else None
        ok = loop is not None and gm.in_loop(st["fail"]) == lp
    if ok:
        tr = loop.target.id
        ren = lambda s_: {f"{tr}.exc is None": "no_exc"}.get(s_, s_)
        fs, ff = gm.formula(st["success"], G.GuardEnv(rename=ren)), gm.formula(st["fail"], G.GuardEnv(rename=ren))
        ok = G.equivalent(fs, G.Atom("no_exc")) and G.equivalent(ff, G.Not(G.Atom("no_exc"))) and all(norm(pv.resolve_alias(x.targets[0].slice)) == f"{tr}.device_id" for x in st.values())
        ok = ok and norm(pv.resolve_alias(st["success"].value)) == f"{tr}.result" and norm(pv.resolve_alias(st["fail"].value)) == f"{tr}.exc"
    c.check("C12.R5", ok, repo.loc(m, fn), "run/partition", "results are not split into success/fail by `exc is not None`, keyed by device id, with result/exc as values", key_text="partition")
    ok = loop is not None and "self.irun(device_ids" in norm(pv.resolve_alias(loop.iter)) and not [x for x in walk_no_nested(loop) if isinstance(x, (ast.Break, ast.Continue, ast.Return))]
    c.check("C12.R5", ok, repo.loc(m, fn), "run/consumes-all", "run does not consume every result of irun", key_text="consume")
    ir = repo.func(MOD, "Parallel.irun")
    sp = [n for n in walk_no_nested(ir) if isinstance(n, ast.For) and norm(n.iter) == "device_ids" and any(isinstance(x, ast.YieldFrom) for x in ast.walk(n))]
    ok = len(sp) == 1 and not [x for x in walk_no_nested(sp[0]) if isinstance(x, (ast.Break, ast.Continue, ast.Return))]
    c.check("C12.R5", ok, repo.loc(m, ir), "irun/single-process-arm", "the single-process arm does not yield for every id", key_text="single")


def r6(c):
    repo = c.repo
    c.rule("C12.R6", "typestate over the multi-process loop of irun, second component: a result taken off done_queue (GOT) is handed to the consumer (a yield / yield from fed by "
                     "the dequeued results) before the loop is left by `break` or starts its next iteration; only a `raise` may abandon it. invoke_retry either returns the "
                     "task's result or raises on every path (falling off its end would deliver None as a success)")
    m = repo.module(MOD)
    fn = repo.func(MOD, "Parallel.irun", canon=False)
    loops = [n for n in walk_no_nested(fn) if isinstance(n, ast.While) and any("_check_children" in norm(x) for x in ast.walk(n))]
    if len(loops) != 1:
        raise AnchorError("irun: polling loop not found")
    loop = loops[0]
    gets = [x for x in ast.walk(loop) if isinstance(x, ast.Call) and isinstance(x.func, ast.Attribute) and x.func.attr in ("get", "get_nowait") and norm(x.func.value) == "done_queue"]
    if not gets:
        raise AnchorError("irun: done_queue.get not found")
    # names bound by the successful get
    got_names = set()
    for g in gets:
        st = g
        while st is not None and not isinstance(st, ast.stmt):
            st = getattr(st, "_parent", None)
        if isinstance(st, ast.Assign):
            got_names |= {x.id for t in st.targets for x in ast.walk(t) if isinstance(x, ast.Name)}
    bad = []

    def on_stmt(node, st, ts):
        cur = st
        if isinstance(node, ast.ExceptHandler):
            if node.type is not None and "Empty" in norm(node.type):
                return ["none"]
            return [cur]
        if isinstance(node, ast.stmt) and any(x in gets for x in ast.walk(node)):
            cur = "pending"
        ys = [x for x in ast.walk(node) if isinstance(x, (ast.Yield, ast.YieldFrom))] if isinstance(node, ast.stmt) else []
        if ys and any(isinstance(x, ast.Name) and x.id in got_names for y in ys for x in ast.walk(y)):
            cur = "none"
        if isinstance(node, ast.Break) and cur == "pending":
            bad.append((node, "break"))
        return [cur]

    def may_raise(st):
        return any(x in gets for x in ast.walk(st))
    ts = Typestate(on_stmt, may_raise=may_raise)
    res = ts._block(loop.body, {("none", frozenset())})
    back = {rs for (rs, _f) in (res["fall"] | res["continue"])}
    if "pending" in back:
        bad.append((loop, "next iteration"))
    c.count("functions", 2)
    if bad:
        node, how = bad[0]
        c.violated("C12.R6", repo.loc(m, node), "irun/dequeued-result-delivered", f"a path from a successful done_queue.get reaches the {how} without yielding the dequeued results: that "
                   "device id is never delivered (e.g. the `not pool` exit taken in the iteration that also read the last result)", key_text=f"dropped-{how.split()[0]}")
    else:
        c.holds("C12.R6", repo.loc(m, loop), "irun/dequeued-result-delivered", "every dequeued result is yielded before break / next iteration")
    ir = repo.func(MOD, "invoke_retry", canon=False)
    tsr = Typestate(lambda node, st, t_: [st], may_raise=lambda st_: any(isinstance(x, ast.Call) for x in ast.walk(st_)))
    rr = tsr.run(ir.body, "s")
    ok = not rr["fall"]
    c.check("C12.R6", ok, repo.loc(m, ir), "invoke_retry/returns-or-raises", "some path through invoke_retry falls off the end (returns None): a task that keeps failing with a connection error is "
            "reported as a success with result None instead of a failure", key_text="falls-off")


def r7(c):
    repo = c.repo
    c.rule("C12.R7", "a failure travels through the result queue as plain data: PickleSafeException.from_exc builds its result from the class, str(), the device id and the formatted "
                     "traceback of the original exception and keeps no reference to the exception object itself (neither as a constructor argument nor as an attribute) — the "
                     "instance __dict__ is pickled with it, and an exception that does not survive pickling makes the worker's queue feeder drop the result or the parent's "
                     "get() raise")
    m = repo.module(MOD)
    fn = repo.func(MOD, "PickleSafeException.from_exc", canon=False)
    c.count("functions")
    ps = [a.arg for a in fn.args.args]
    if len(ps) < 2:
        raise AnchorError("PickleSafeException.from_exc: parameters not found")
    exc = ps[1]
    bad = None
    for n in walk_no_nested(fn):
        if isinstance(n, ast.Assign) and isinstance(n.targets[0], ast.Attribute) and isinstance(n.value, ast.Name) and n.value.id == exc:
            bad = n
        if isinstance(n, ast.Call) and call_name(n).split(".")[-1] in ("PickleSafeException", "cls") and any(isinstance(a, ast.Name) and a.id == exc for a in list(n.args) + [k.value for k in n.keywords]):
            bad = n
        if isinstance(n, ast.Call) and call_name(n) == "setattr" and len(n.args) == 3 and isinstance(n.args[2], ast.Name) and n.args[2].id == exc:
            bad = n
    c.check("C12.R7", bad is None, repo.loc(m, bad if bad is not None else fn), "PickleSafeException.from_exc/plain-data", f"`{norm(bad)[:60] if bad is not None else ''}` keeps the original exception "
            "object on the pickled instance", key_text="orig-exc-kept")


def r8(c):
    repo = c.repo
    c.rule("C12.R8", "the id a result is delivered under is the id that was submitted: in _pool_worker the TaskResult is built around `<task>.payload` of the task taken off the task "
                     "queue itself (not a string / regex rendition of it made for tracing), and the invoked function receives that same payload; in the single-process arm of "
                     "irun it is the loop variable over the submitted ids. Parallel.run keys success/fail by that id, so a rewritten id collapses or renames entries")
    m = repo.module(MOD)
    fn = repo.func(MOD, "_pool_worker")
    c.count("functions", 2)
    pv = Provenance(fn)
    gets = [x for x in calls_in(fn) if isinstance(x.func, ast.Attribute) and x.func.attr == "get" and norm(x.func.value) == fn.args.args[2].arg] if len(fn.args.args) >= 3 else []
    trs = [x for x in calls_in(fn) if call_name(x).split(".")[-1] == "TaskResult"]
    if not gets or not trs:
        raise AnchorError("_pool_worker: task_queue.get() / TaskResult(...) not found")
    for x in trs:
        a = x.args[1] if len(x.args) > 1 else kwarg(x, "device_id")
        v = pv.resolve_alias(a) if a is not None else None
        ok = isinstance(v, ast.Attribute) and v.attr == "payload" and any(o is gets[0] for o in pv.origin_calls(v.value, through_calls=False))
        c.check("C12.R8", bool(ok), repo.loc(m, x), "_pool_worker/TaskResult(id)", f"the result is labelled with `{norm(a) if a is not None else None}`, not with the payload of the task taken from the queue: "
                "ids that are not strings come back changed (tuples collapse onto one key, integers become strings) and Parallel.run files the outcomes under the wrong ids",
                key_text="result-id")
    ir = repo.func(MOD, "Parallel.irun")
    pvi = Provenance(ir)
    single = [x for x in calls_in(ir) if call_name(x).split(".")[-1] == "TaskResult"]
    for x in single:
        a = x.args[1] if len(x.args) > 1 else kwarg(x, "device_id")
        ok = False
        if isinstance(a, ast.Name):
            ok = any(d.kind == "for" and not d.index for d in pvi.rd.defs(a))
        c.check("C12.R8", ok, repo.loc(m, x), "irun/single-process/TaskResult(id)", f"the single-process result is labelled with `{norm(a) if a is not None else None}`, not with the submitted id being "
                "iterated", key_text="result-id-single")
    c.floor("C12.R8", "TaskResult constructions", len(trs) + len(single), 2)


def r9(c):
    repo = c.repo
    c.rule("C12.R9", "typestate of the task queue in irun: open -> closed by <queue>.close(); no worker process is started in state closed (ordering over the statement sequence and "
                     "loop nesting: every `.start()` of a pool process precedes the close, and the close is not followed by / enclosed in a loop that starts processes). Closing "
                     "makes the feeder thread close the parent's end of the pipe; a replacement worker forked afterwards dies on its first get() and the ids still queued are never "
                     "processed")
    m = repo.module(MOD)
    fn = repo.func(MOD, "Parallel.irun")
    c.count("functions")
    gm = GuardMap(fn)
    puts = [x for x in calls_in(fn) if isinstance(x.func, ast.Attribute) and x.func.attr == "put" and isinstance(x.func.value, ast.Name)]
    if not puts:
        raise AnchorError("irun: task queue (put of the tasks) not found")
    tq = puts[0].func.value.id
    closes = [x for x in calls_in(fn) if isinstance(x.func, ast.Attribute) and x.func.attr == "close" and norm(x.func.value) == tq]
    starts = [x for x in calls_in(fn) if isinstance(x.func, ast.Attribute) and x.func.attr == "start" and not x.args]
    c.floor("C12.R9", "process starts in irun", len(starts), 2)
    if not closes:
        c.holds("C12.R9", repo.loc(m, fn), f"irun/{tq}.close", "the task queue is never closed explicitly", trivial=True)
        return
    for cl in closes:
        bad = None
        for st in starts:
            loops_st = [l for l in gm.in_loop(st) if not any(l is l2 for l2 in gm.in_loop(cl))]      # loops around the start that do not contain the close
            # started after the close in program order, or inside a loop (sibling / later) that begins after the close
            first = loops_st[0] if loops_st else st
            if ordk(first) > ordk(cl) or (loops_st and any(ordk(x_) > ordk(cl) for x_ in [st])):
                bad = st
            # close and start inside one common loop: the start of a later iteration follows the close
            common = [l for l in gm.in_loop(st) if any(l is l2 for l2 in gm.in_loop(cl))]
            if common:
                bad = st
        c.check("C12.R9", bad is None, repo.loc(m, cl), f"irun/{tq}.close-before-start", f"`{norm(cl)}` is followed by `{norm(bad)[:50] if bad is not None else ''}` (line "
                f"{getattr(bad, 'lineno', 0) if bad is not None else 0}): a worker started after the queue was closed cannot read its tasks; with max_tasks the ids still queued get no outcome",
                key_text="start-after-close")
