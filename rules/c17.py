"""C17 -- implicit defaults never override explicit config and never cause commands alone (structural clauses)."""
import ast

from sa import dsl, guards as G, rxsample
from sa.flow import GuardMap, Provenance
from sa.hwdb import HwDb
from sa.pytexts import accumulate_paths
from sa.repo import ordk, AnchorError, call_name, calls_in, dotted, norm, walk_no_nested, kwarg
from rules import c07

IMPLICIT = "annet.implicit"


def run(c):
    c.explanation = ("Sibling agreement of the three completions in gen._old_new_per_device, guard table of implicit.config, well-formedness and grammar of every embedded "
                     "default text on every branch of _implicit_tree, and provenance of the value inserted for a default block.")
    c.decides = ("old/new/safe_new completed identically, unconditionally under one guard, explicit first, before any ACL; guard table of implicit.config with recursion under "
                 "every matching line; default texts well-formed on every hw branch; a default block is inserted together with its nested defaults")
    c.does_not_decide = "absence of spurious commands on all trees"
    r1(c)
    r2(c)
    r3(c)
    r4(c)
    r5(c)
    r6(c)


def r1(c):
    repo = c.repo
    c.rule("C17.R1", "in gen._old_new_per_device old, new and safe_new are each rebound to merge_dicts(X, implicit.config(X, implicit_rules)) — X first (explicit lines win and keep "
                     "their place), the same implicit_rules, unconditionally under the single guard ctx.add_implicit, and before any apply_acl on them")
    g = repo.module("annet.gen")
    fn = repo.func("annet.gen", "_old_new_per_device")
    c.count("functions")
    gm = GuardMap(fn)
    found = {}
    for n in walk_no_nested(fn):
        if isinstance(n, ast.Assign) and isinstance(n.targets[0], ast.Name) and n.targets[0].id in ("old", "new", "safe_new"):
            if any(isinstance(x, ast.Call) and norm(x.func).endswith("implicit.config") for x in ast.walk(n.value)):
                found[n.targets[0].id] = n
    for x in ("old", "new", "safe_new"):
        if x not in found:
            c.violated("C17.R1", repo.loc(g, fn), f"_old_new_per_device/complete({x})", f"`{x}` is not completed with the implicit defaults: a default absent from both texts shows up as a diff entry", key_text=f"missing-{x}")
    if len(found) < 3:
        return
    rules_names = set()
    fs = []
    for x, st in found.items():
        v = st.value
        ok = isinstance(v, ast.Call) and call_name(v) == "merge_dicts" and len(v.args) == 2 and norm(v.args[0]) == x
        if ok:
            inner = v.args[1]
            ok = isinstance(inner, ast.Call) and norm(inner.func).endswith("implicit.config") and len(inner.args) == 2 and norm(inner.args[0]) == x
            if ok:
                rules_names.add(norm(inner.args[1]))
        c.check("C17.R1", ok, repo.loc(g, st), f"_old_new_per_device/complete({x})", f"`{norm(st)[:90]}` is not `{x} = merge_dicts({x}, implicit.config({x}, rules))`: the completion is conditional, "
                "reversed (defaults would win over explicit lines) or computed from another tree", key_text=f"shape-{x}")
        fs.append(gm.formula(st, G.GuardEnv(), skip_early=True))
    c.check("C17.R1", len(rules_names) == 1, repo.loc(g, fn), "_old_new_per_device/same-rules", f"the three completions use different rule sets {sorted(rules_names)}", key_text="same-rules")
    same = all(G.equivalent(fs[0], f) for f in fs[1:])
    ok = same and any(a == "ctx.add_implicit" for a in G.atoms(fs[0]))
    c.check("C17.R1", ok, repo.loc(g, found["old"]), "_old_new_per_device/one-guard", f"completions run under {[G.show(f) for f in fs]}; expected one common guard containing ctx.add_implicit", key_text="one-guard")
    first_acl = min([ordk(x) for x in calls_in(fn) if call_name(x).split(".")[-1] == "apply_acl"] or [(9, 0, 0)])
    ok = all(ordk(st) < first_acl for st in found.values())
    c.check("C17.R1", ok, repo.loc(g, fn), "_old_new_per_device/before-acl", "a tree is completed after it was filtered by the ACL", key_text="before-acl")


def r2(c):
    repo = c.repo
    c.rule("C17.R2", "guard table of implicit.config: a default row is inserted only when the rule is not an ignore rule, no line of the tree matches the rule's regexp and the row "
                     "itself is absent; under every matching line (whatever the rule type) the function recurses with that rule's children; nothing else is written")
    m = repo.module(IMPLICIT)
    fn = repo.func(IMPLICIT, "config")
    c.count("functions")
    gm = GuardMap(fn)
    ro = _config_roles(fn)
    pv, TREE, R, U, RES = ro["pv"], ro["tree"], ro["row"], ro["rule"], ro["result"]
    ins, rec = ro["ins"], ro["rec"]
    c.check("C17.R2", len(ins) == 1 and len(rec) == 1, repo.loc(m, fn), "implicit.config/stores", f"{len(ins)} default-row stores and {len(rec)} recursion stores (expected 1 and 1)", key_text="stores")
    if len(ins) != 1 or len(rec) != 1:
        return
    M = _matched_var(fn, pv, gm, TREE, U)

    def ren(s):
        s = s.replace('"', "'")
        return {f"{U}['type'] == 'ignore'": "is_ignore", f"'ignore' == {U}['type']": "is_ignore", f"any({M})": "matched", f"{M}": "matched", f"len({M}) > 0": "matched",
                f"{R} in {TREE}": "row_present", f"{R} in {TREE}.keys()": "row_present"}.get(s, s)
    env = G.GuardEnv(rename=ren)
    f = gm.formula(ins[0], env, alias=True)
    spec = G.And(G.Not(G.Atom("is_ignore")), G.Not(G.Atom("matched")), G.Not(G.Atom("row_present")))
    c.check("C17.R2", G.equivalent(f, spec), repo.loc(m, ins[0]), "implicit.config/insert-guard", f"default row inserted under {G.show(f)}; expected ¬ignore ∧ ¬any(matching line) ∧ row absent",
            key_text="insert-guard")
    fr = gm.formula(rec[0], env, alias=True)
    c.check("C17.R2", fr == G.T, repo.loc(m, rec[0]), "implicit.config/recursion-guard", f"recursion under a matching line happens only under {G.show(fr)}: nested defaults of a matching explicit block are not completed "
            "(the default row would be missing although no line of its kind is present)", key_text="rec-guard")
    loops = gm.in_loop(rec[0])
    ok = bool(loops) and M is not None and norm(loops[-1].iter) == M and isinstance(loops[-1].target, ast.Name) and norm(rec[0].targets[0].slice) == loops[-1].target.id
    v = pv.resolve_alias(rec[0].value)
    if ok:
        ok = isinstance(v, ast.Call) and call_name(v) == fn.name and len(v.args) >= 2 and _is_children(pv, v.args[1], U) and norm(pv.resolve_alias(v.args[0])) == f"{TREE}[{loops[-1].target.id}]"
    c.check("C17.R2", bool(ok), repo.loc(m, rec[0]), "implicit.config/recursion-shape", "recursion is not config(config_tree[line], rule['children']) for every matching line", key_text="rec-shape")
    c.check("C17.R2", M is not None, repo.loc(m, fn), "implicit.config/matched-lines", "matching lines are not computed with the rule's regexp over the tree's own keys", key_text="matched")


def _is_children(pv, e, U):
    return norm(pv.resolve_alias(e)).replace('"', "'") == f"{U}['children']"


def _config_roles(fn):
    """roles in implicit.config(tree, rules): the tree and rules parameters, the loop `for row, rule in rules.items()`, the returned result dict and the stores into it"""
    ps = [a.arg for a in fn.args.args]
    if len(ps) < 2:
        raise AnchorError("implicit.config: (tree, rules) parameters not found")
    TREE, RULES = ps[0], ps[1]
    pv = Provenance(fn)
    loops = [n for n in walk_no_nested(fn) if isinstance(n, ast.For) and norm(n.iter) == f"{RULES}.items()" and isinstance(n.target, ast.Tuple) and len(n.target.elts) == 2
             and all(isinstance(e, ast.Name) for e in n.target.elts)]
    rets = [n for n in walk_no_nested(fn) if isinstance(n, ast.Return) and isinstance(n.value, ast.Name)]
    if len(loops) != 1 or len(rets) != 1:
        raise AnchorError("implicit.config: loop over the rules / returned result not found")
    R, U = loops[0].target.elts[0].id, loops[0].target.elts[1].id
    RES = rets[0].value.id
    stores = [n for n in walk_no_nested(fn) if isinstance(n, ast.Assign) and isinstance(n.targets[0], ast.Subscript) and norm(n.targets[0].value) == RES]
    ins = [s for s in stores if norm(pv.resolve_alias(s.targets[0].slice)) == R]
    rec = [s for s in stores if s not in ins]
    return {"pv": pv, "tree": TREE, "row": R, "rule": U, "result": RES, "ins": ins, "rec": rec}


def _matched_var(fn, pv, gm, TREE, U):
    """the local holding exactly the keys of the tree the rule's regexp matches; None when there is none, or when the local has a second definition of another kind
    (a shortcut arm that decides the matching lines without the pattern)"""
    name = _matched_var0(fn, pv, gm, TREE, U)
    if name is None:
        return None
    defs = [n for n in walk_no_nested(fn) if isinstance(n, (ast.Assign, ast.AnnAssign)) and any(isinstance(t, ast.Name) and t.id == name
            for t in (n.targets if isinstance(n, ast.Assign) else [n.target]))]
    kinds = set()
    for d in defs:
        v = d.value
        if isinstance(v, (ast.ListComp, ast.SetComp)):
            kinds.add("comp")
        elif isinstance(v, ast.List) and not v.elts:
            kinds.add("empty")
        else:
            kinds.add("other")
    if "other" in kinds or kinds == {"comp", "empty"} and len([d for d in defs if isinstance(d.value, (ast.ListComp, ast.SetComp))]) > 1:
        return None
    return name if len([d for d in defs if isinstance(d.value, (ast.ListComp, ast.SetComp))]) <= 1 and len([d for d in defs if isinstance(d.value, ast.List)]) <= 1 else None


def _matched_var0(fn, pv, gm, TREE, U):
    """the local holding exactly the keys of the tree that the rule's regexp matches (comprehension or append loop)"""
    def is_keys(e):
        return norm(e) in (TREE, f"{TREE}.keys()", f"list({TREE})", f"list({TREE}.keys())")

    def is_match(test, line):
        t = pv.resolve_alias(test)
        if not (isinstance(t, ast.Call) and isinstance(t.func, ast.Attribute) and t.func.attr == "match" and len(t.args) == 1 and norm(t.args[0]) == line):
            return False
        return norm(pv.resolve_alias(t.func.value)).replace('"', "'") == f"{U}['regexp']"
    for n in walk_no_nested(fn):
        if isinstance(n, ast.Assign) and isinstance(n.targets[0], ast.Name):
            v = n.value
            if isinstance(v, (ast.ListComp, ast.SetComp)) and len(v.generators) == 1 and isinstance(v.generators[0].target, ast.Name):
                g = v.generators[0]
                if is_keys(g.iter) and norm(v.elt) == g.target.id and len(g.ifs) == 1 and is_match(g.ifs[0], g.target.id):
                    return n.targets[0].id
            if isinstance(v, ast.List) and not v.elts:
                name = n.targets[0].id
                apps = [x for x in calls_in(fn) if isinstance(x.func, ast.Attribute) and x.func.attr == "append" and norm(x.func.value) == name]
                others = [x for x in walk_no_nested(fn) if isinstance(x, ast.Name) and x.id == name and isinstance(x.ctx, ast.Store) and x is not n.targets[0]]
                if len(apps) == 1 and not others:
                    lp = gm.in_loop(apps[0])
                    if lp and isinstance(lp[-1].target, ast.Name) and is_keys(lp[-1].iter) and norm(apps[0].args[0]) == lp[-1].target.id:
                        conds = [(t, pol) for t, pol in gm.of(apps[0]) if any(isinstance(k, ast.Name) and k.id == lp[-1].target.id for k in ast.walk(t))]
                        if len(conds) == 1 and conds[0][1] and is_match(conds[0][0], lp[-1].target.id):
                            return name
    return None


def r3(c):
    repo = c.repo
    c.rule("C17.R3", "on every branch combination of _implicit_tree the accumulated text is a well-formed offside tree (no inconsistent dedent, no child without parent) and "
                     "each of its rows passes the rule-grammar lint (C07.R3)")
    m = repo.module(IMPLICIT)
    fn = repo.func(IMPLICIT, "_implicit_tree")
    c.count("functions")
    paths = accumulate_paths(fn, "text")
    c.floor("C17.R3", "branch combinations", len(paths), 8)
    for p in paths:
        if not p.parts:
            c.holds("C17.R3", repo.loc(m, fn), f"branch[{p.cond_text()[:80]}]", "no implicit text", trivial=True)
            continue
        # each literal has its own base indentation (the parser re-bases at top-level rows); check each literal separately and the concatenation's row set
        ok = True
        for node, t in p.parts:
            lines, _ = dsl.read_lines(t, mako=False)
            rows, probs = dsl.build_tree(lines, select=lambda cs: True)
            if lines and lines[0].indent != min(l.indent for l in lines):
                probs.append((lines[0].no, "first row is indented deeper than a later row"))
            if probs:
                ok = False
                no, msg = probs[0]
                c.violated("C17.R3", f"{m.rel}:{node.lineno + no - 1}", f"_implicit_tree[{p.cond_text()[:60]}]", f"default text is not a well-formed offside tree: {msg}", key_text=msg)
        if ok:
            c.holds("C17.R3", repo.loc(m, p.parts[0][0]), f"branch[{p.cond_text()[:80]}]", f"{len(p.parts)} literal(s) well-formed")


def r4(c):
    repo = c.repo
    c.rule("C17.R4", "a default block brings its own defaults: for every non-ignore implicit rule that has children rules, the value stored when the block row itself is inserted "
                     "derives from the recursive completion under that rule's children (config(<empty>, rule['children'])), not an empty tree")
    m = repo.module(IMPLICIT)
    fn = repo.func(IMPLICIT, "_implicit_tree")
    blocks = []
    seen = set()
    for p in accumulate_paths(fn, "text"):
        for node, t in p.parts:
            if id(node) in seen:
                continue
            seen.add(id(node))
            lines, _ = dsl.read_lines(t, mako=False)
            rows, _ = dsl.build_tree(lines)
            for r in dsl.walk_rows(rows):
                if r.type == "normal" and any(ch.type in ("normal", "ignore") for ch in r.children):
                    # under an ignore ancestor the block row may still be inserted by the recursion
                    blocks.append((node.lineno + r.line.no - 1, r.row, [ch.row for ch in r.children]))
    c.analysed["default_blocks_with_children"] = [f"{b[1]} -> {b[2]}" for b in blocks]
    cf = repo.func(IMPLICIT, "config")
    ro = _config_roles(cf)
    ins = ro["ins"]
    if len(ins) != 1:
        raise AnchorError("implicit.config: insertion of the default row not found")
    v = ro["pv"].resolve_alias(ins[0].value)
    rec = isinstance(v, ast.Call) and call_name(v) == cf.name and len(v.args) >= 2 and _is_children(ro["pv"], v.args[1], ro["rule"])
    if not blocks:
        c.holds("C17.R4", repo.loc(m, cf), "implicit.config/insert-value", "no default block with children in the embedded texts (vacuous)", trivial=True)
        return
    for ln, row, chs in blocks:
        c.check("C17.R4", rec, f"{m.rel}:{ln}", f"default-block:{row}", f"default block `{row}` has nested defaults {chs}, but implicit.config inserts it as `{norm(v)}`: the side that gets the block "
                "implicitly lacks the nested default, the side that has the block explicitly gets it — a command for a line that is in neither text; completing twice is not a fixed point",
                key_text="empty-block")


def r5(c):
    repo = c.repo
    c.rule("C17.R5", "the implicit rules are the device's own: compile_rules(device) compiles _implicit_tree(device) for the device it is asked about; if the result is memoised "
                     "(module-level table or cache decorator), the memo key covers every attribute of the device that _implicit_tree reads (device.hw, device.tags, ...) — a key "
                     "that is narrower hands one device the defaults of another")
    m = repo.module(IMPLICIT)
    fn = repo.func(IMPLICIT, "compile_rules", canon=False)
    it = repo.func(IMPLICIT, "_implicit_tree", canon=False)
    c.count("functions", 2)
    dev = fn.args.args[0].arg
    idev = it.args.args[0].arg
    reads = set()
    for n in ast.walk(it):
        if isinstance(n, ast.Attribute) and isinstance(n.value, ast.Name) and n.value.id == idev:
            reads.add(n.attr)
        elif isinstance(n, ast.Call) and any(isinstance(a, ast.Name) and a.id == idev for a in n.args):
            reads.add("*")   # the whole device is handed on
    c.analysed["implicit_tree_reads"] = sorted(reads)
    if len(reads) < 2:
        raise AnchorError("_implicit_tree: expected it to read at least device.hw and device.tags")
    from sa.cachealias import is_memoised
    keys = []
    module_tables = {t.id for st in m.tree.body if isinstance(st, (ast.Assign, ast.AnnAssign)) for t in ([st.target] if isinstance(st, ast.AnnAssign) else st.targets) if isinstance(t, ast.Name)}
    for n in ast.walk(fn):
        if isinstance(n, ast.Subscript) and isinstance(n.value, ast.Name) and n.value.id in module_tables:
            keys.append(n.slice)
        elif isinstance(n, ast.Call) and isinstance(n.func, ast.Attribute) and n.func.attr in ("get", "setdefault") and isinstance(n.func.value, ast.Name) and n.func.value.id in module_tables and n.args:
            keys.append(n.args[0])
    pv = Provenance(fn)
    if is_memoised(fn):
        c.undecided("C17.R5", repo.loc(m, fn), "compile_rules/memo-key", "compile_rules is memoised by a cache decorator: whether the device's hash/eq cover what _implicit_tree reads must be confirmed by reading")
        return
    if not keys:
        calls = [x for x in calls_in(fn) if call_name(x) == "_implicit_tree"]
        ok = len(calls) == 1 and calls[0].args and norm(calls[0].args[0]) == dev
        c.check("C17.R5", ok, repo.loc(m, fn), "compile_rules/own-device", "compile_rules does not compile _implicit_tree(<its device>)", key_text="own-device")
        return
    for k in keys:
        kk = pv.resolve_alias(k)
        covered = set()
        whole = False
        for x in ast.walk(kk):
            if isinstance(x, ast.Name) and x.id == dev:
                p_ = getattr(x, "_parent", None)
                if isinstance(p_, ast.Attribute) and p_.value is x:
                    covered.add(p_.attr)
                else:
                    whole = True
        miss = sorted(reads - covered - {"*"}) if not whole else []
        if "*" in reads and not whole:
            miss.append("(whole device handed to a helper)")
        c.check("C17.R5", not miss, repo.loc(m, k), "compile_rules/memo-key", f"compiled implicit rules are memoised under `{norm(kk)[:50]}`, but _implicit_tree also reads device.{', device.'.join(miss)}: "
                "two devices that agree on the key and differ there (same model, another role tag) share one rule set — the second gets defaults that are not its own", key_text="memo-key")


def _shape(r):
    return (r.type, r.row, tuple(_shape(ch) for ch in r.children if ch.type in ("normal", "ignore")))


def r6(c):
    repo = c.repo
    c.rule("C17.R6", "implicit.config stores one completed subtree per matching line (`tree[line] = config(...)`, last writer wins), so two sibling rules of one default text "
                     "that can match the same line must bring the same nested defaults: for every pair of sibling rows, either no line matches both row patterns (witness search "
                     "over samples of both regular expressions, confirmed with the specification regex of the row language) or their children are identical")
    m = repo.module(IMPLICIT)
    fn = repo.func(IMPLICIT, "_implicit_tree")
    cf = repo.func(IMPLICIT, "config")
    ro = _config_roles(cf)
    merging = [s_ for s_ in ro["rec"] if any(isinstance(x, ast.Name) and x.id == ro["result"] for x in ast.walk(ro["pv"].resolve_alias(s_.value)))]
    if ro["rec"] and len(merging) == len(ro["rec"]):
        c.holds("C17.R6", repo.loc(m, cf), "_implicit_tree/sibling-rules", "implicit.config combines the completion with what an earlier rule stored under the same line: overlapping sibling rules are harmless", trivial=True)
        return
    seen = set()
    pairs = 0
    for p in accumulate_paths(fn, "text"):
        for node, t in p.parts:
            if id(node) in seen:
                continue
            seen.add(id(node))
            lines, _ = dsl.read_lines(t, mako=False)
            roots, _ = dsl.build_tree(lines)

            def level(sibs, where):
                nonlocal pairs
                sibs = [r for r in sibs if r.type in ("normal", "ignore")]
                comp = []
                for r in sibs:
                    if dsl.row_regex_error(r.row) is None:
                        comp.append((r,) + dsl.spec_compile(r.row))
                for i in range(len(comp)):
                    for j in range(i + 1, len(comp)):
                        a, pa, fa = comp[i]
                        b, pb, fb = comp[j]
                        pairs += 1
                        ka, kb = _shape(a)[2], _shape(b)[2]
                        if ka == kb and (a.type == b.type or not ka):
                            continue
                        w = rxsample.overlap(pa, fa, pb, fb)
                        if w is not None:
                            c.violated("C17.R6", f"{m.rel}:{node.lineno + b.line.no - 1}", f"_implicit_tree{where}:`{a.row}` / `{b.row}`",
                                       f"sibling default rules `{a.row}` and `{b.row}` both match the line `{w}` but bring different nested defaults "
                                       f"({[x[1] for x in ka]} vs {[x[1] for x in kb]}): implicit.config assigns tree[line] once per rule, the later rule's completion replaces the "
                                       "earlier one's, so a default of the earlier rule is never applied under that line (and its explicit children are dropped from the completion)",
                                       key_text=f"{a.row}|{b.row}")
                for r in sibs:
                    if r.children:
                        level(r.children, where + "/" + r.row)
            level(roots, "")
    c.floor("C17.R6", "sibling rule pairs compared", pairs, 40)
    c.holds("C17.R6", repo.loc(m, fn), "_implicit_tree/sibling-rules", f"{pairs} sibling pairs over {len(seen)} default texts: no pair with different nested defaults shares a matching line")
