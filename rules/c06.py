"""C06 -- ACL filtering selects exactly the covered lines and nothing else (structural clauses)."""
import ast

from sa.util import acl_scratch_write

from sa import guards as G
from sa.flow import GuardMap, Provenance
from sa.repo import AnchorError, call_name, calls_in, dotted, norm, walk_no_nested, kwarg
from sa.util import bind_args, one
from rules.aclshape import ApplyAcl, PATCHING, ren_acl

ACL = "annet.annlib.rbparser.acl"


def run(c):
    c.explanation = ("Subtree/order-by-construction, strict-mode surfacing, global-rule inheritance and merge completeness of the ACL filter, "
                     "decided by reaching definitions, guard algebra and control dependence on annlib/patching.py and rbparser/acl.py.")
    c.decides = ("output keys are the iterated input keys in order; strict mode raises naming the path, at every depth; every row is examined; global rules "
                 "inherited; children rules do not depend on which match wins; _merge_toplevel/_compile_acl drop nothing")
    c.does_not_decide = "apply_acl == ref_filter on values; idempotence; the specificity metric's choice"
    A = ApplyAcl(c.repo)
    r1(c, A)
    r2(c, A)
    r3(c)
    r4(c)
    r5(c)
    r6(c)
    r7(c)
    from rules import c07
    c07.r6(c, rid="C06.R8")
    r9(c)


def r9(c):
    """the reverse form of an ACL rule (what selects `no X` / `undo X` lines for a rule `X`) — the clause C07.R2 states for the three sibling sites, here for the ACL compiler"""
    from rules import c07
    repo = c.repo
    c.rule("C06.R9", "rbparser.acl._make_reverse: a rule counts as already negated only when it starts with the vendor's negation WORD (prefix + blank), the negated form is turned "
                     "back by removing exactly that, and the plain form gets prefix + blank prepended — otherwise a covered line whose first word merely begins with the prefix "
                     "(`notify ...` under `no`) gets a reverse pattern that selects nothing it should")
    am = repo.module(ACL)
    f2 = repo.func(ACL, "_make_reverse")
    c.count("functions")
    c07.reverse_site(c, am, f2, f2, f2.args.args[1].arg, f2.args.args[0].arg, "acl._make_reverse", rid="C06.R9")


def r1(c, A):
    repo, m = c.repo, A.mod
    c.rule("C06.R1", "in apply_acl the only store into the result is passed[row] = apply_acl(config=children, rules=children_rules, ...) where (row, children) "
                     "is the current item of config.items() and children_rules comes from the match of that row; the result is a fresh ordered dict that is returned")
    c.count("functions")
    stores = [s for s in A.stores if s[1] is not None]
    if len(stores) != 1 or [s for s in A.stores if s[1] is None]:
        c.violated("C06.R1", repo.loc(m, A.fn), "apply_acl/stores", "the result is written at more than one place (or through update/pop)", key_text="stores")
        return
    st, tg = stores[0]
    key_ok = isinstance(tg.slice, ast.Name) and tg.slice.id == A.row and all(d.stmt is A.loop for d in A.pv.rd.defs(tg.slice))
    c.check("C06.R1", key_ok, repo.loc(m, st), "apply_acl/store/key", f"stored key `{norm(tg.slice)}` is not the iterated input row: output would not be a subtree of the input",
            key_text="key")
    val = st.value
    rec_ok = isinstance(val, ast.Call) and call_name(val) == "apply_acl"
    c.check("C06.R1", rec_ok, repo.loc(m, st), "apply_acl/store/value", "stored value is not the recursive filter of the row's children", key_text="value")
    if rec_ok:
        b = bind_args(val, A.fn)
        ok = "config" in b and isinstance(b["config"], ast.Name) and b["config"].id == A.children and all(d.stmt is A.loop for d in A.pv.rd.defs(b["config"]))
        c.check("C06.R1", ok, repo.loc(m, val), "apply_acl/recursive(config=)", "recursive call does not receive this row's children", key_text="rec-config")
        ok = "rules" in b and isinstance(b["rules"], ast.Name) and b["rules"].id == A.cr_name
        c.check("C06.R1", ok, repo.loc(m, val), "apply_acl/recursive(rules=)", "recursive call does not receive the children_rules of this row's match", key_text="rec-rules")
    # fresh container
    ds = A.pv.rd.defs(A.final.value)
    fresh = all(d.kind == "assign" and isinstance(d.value, ast.Call) and call_name(d.value) in ("odict", "OrderedDict", "dict", "collections.OrderedDict")
                and not d.value.args for d in ds if d.kind != "mut") and bool(ds)
    c.check("C06.R1", fresh, repo.loc(m, A.final), "apply_acl/result", "the returned container is not a fresh empty ordered dict", key_text="fresh")
    mc = A.match_call
    a0 = mc.args[0] if mc.args else None
    # the row tested is the row itself or its annotation-stripped form
    ok = False
    if a0 is not None:
        for k, n in A.pv.origins(a0, through_calls=True):
            if k == "for" and n.stmt is A.loop:
                ok = True
    c.check("C06.R1", ok, repo.loc(m, mc), "apply_acl/match(row)", "the row matched against the ACL does not derive from the iterated row", key_text="match-row")
    ok = len(mc.args) >= 2 and isinstance(mc.args[1], ast.Name) and mc.args[1].id == "rules" and A.pv.derives_from_param(mc.args[1], "rules", False)
    c.check("C06.R1", ok, repo.loc(m, mc), "apply_acl/match(rules)", "match_row_to_acl does not receive this level's rules", key_text="match-rules")


def r2(c, A):
    repo, m = c.repo, A.mod
    c.rule("C06.R2", "strict mode: every row of the input is examined (no early return/break/continue that skips rows while rules or fatal_acl are set); when "
                     "the match is falsy and fatal_acl is truthy, AclError is raised with the path _path + (row,); fatal_acl, exclusive, with_annotations "
                     "are forwarded unchanged to the recursive call and _path is extended by the row")

    def ren(s):
        s = ren_acl(s)
        if s == A.match_name:
            return "match"
        return s
    env = G.GuardEnv(rename=ren)
    # (i) nothing skips rows: leaving an iteration early is fine only for a row that is dropped by design
    #     (unmatched and not strict; or the negated form governed by cant_delete rules)
    allowed = G.Or(G.And(G.Not(G.Atom("match")), G.Not(G.Atom("fatal_acl"))), G.And(G.Atom("match"), G.Atom("is_reverse"), G.Atom("all_cant_delete")))
    bad = []
    for n in walk_no_nested(A.fn):
        if isinstance(n, ast.Break) and A.loop in A.gm.in_loop(n):
            bad.append(n)
        if isinstance(n, ast.Continue) and A.loop in A.gm.in_loop(n):
            f = A.gm.formula(n, env, skip_early=False)
            if not G.implies(f, allowed):
                bad.append(n)
        if isinstance(n, ast.Return) and n is not A.final:
            f = A.gm.formula(n, G.GuardEnv())
            # allowed: return under `not config` (nothing to examine)
            if not G.implies(f, G.Not(G.Atom("config"))):
                bad.append(n)
    c.check("C06.R2", not bad, repo.loc(m, bad[0] if bad else A.loop), "apply_acl/every-row-examined",
            f"`{norm(bad[0])[:60] if bad else ''}` under [{G.show(A.gm.formula(bad[0], env)) if bad else ''}] lets rows leave the filter unexamined: "
            "in strict mode an uncovered line would be dropped silently instead of raising", key_text="skip")
    # loop must be top-level unconditional
    f_loop = A.gm.formula(A.loop, G.GuardEnv())
    c.check("C06.R2", f_loop == G.T or G.implies(G.Atom("config"), f_loop), repo.loc(m, A.loop), "apply_acl/loop-unconditional",
            f"the loop over config.items() runs only under {G.show(f_loop)}", key_text="loop-guard")
    # (ii) fatal raise
    fatal = [r for r in A.raises if r.exc is not None and isinstance(r.exc, ast.Call) and call_name(r.exc) == "AclError"]
    if len(fatal) != 1:
        c.violated("C06.R2", repo.loc(m, A.fn), "apply_acl/fatal-raise", f"{len(fatal)} `raise AclError(...)` statements (expected one)", key_text="raise-count")
    else:
        r = fatal[0]
        f = A.gm.formula(r, env, skip_early=True)
        spec = G.And(G.Not(G.Atom("match")), G.Atom("fatal_acl"))
        c.check("C06.R2", G.equivalent(f, spec), repo.loc(m, r), "apply_acl/fatal-raise/guard",
                f"AclError raised under {G.show(f)}; expected ¬match ∧ fatal_acl", key_text="raise-guard")
        arg = r.exc.args[0] if r.exc.args else None
        txt = norm(arg) if arg is not None else ""
        ok = arg is not None and any(isinstance(n, ast.BinOp) and isinstance(n.op, ast.Add) and norm(n.left) == "_path" and A.row in norm(n.right) for n in ast.walk(arg))
        c.check("C06.R2", ok, repo.loc(m, r), "apply_acl/fatal-raise/message", f"the error `{txt[:60]}` does not name the path _path + (row,)", key_text="raise-msg")
    # (iii) forwarding
    for rc in A.rec_calls:
        b = bind_args(rc, A.fn)
        for p in ("fatal_acl", "exclusive", "with_annotations"):
            ok = p in b and isinstance(b[p], ast.Name) and b[p].id == p and A.pv.derives_from_param(b[p], p, False) and \
                all(d.kind == "param" for d in A.pv.rd.defs(b[p]))
            c.check("C06.R2", ok, repo.loc(m, rc), f"apply_acl/recursive({p}=)",
                    f"`{p}` is not forwarded unchanged to the recursive call (got `{norm(b[p]) if p in b else 'default'}`): the flag holds at the top level only",
                    key_text=f"fwd-{p}")
        p = b.get("_path")
        ok = p is not None and isinstance(p, ast.BinOp) and norm(p.left) == "_path" and A.row in norm(p.right)
        c.check("C06.R2", ok, repo.loc(m, rc), "apply_acl/recursive(_path=)", "_path is not extended by the current row", key_text="fwd-path")


def r3(c):
    repo = c.repo
    c.rule("C06.R3", "_select_match merges rules['global'] into the returned children rules on every path that returns a match; _rules_local_global yields "
                     "all local then all global rules; _compile_acl compiles no children for a %global rule and files rules under 'global'/'local' by the same flag")
    m = repo.module(PATCHING)
    fn = repo.func(PATCHING, "_select_match")
    c.count("functions")
    gm = GuardMap(fn)
    pv = Provenance(fn)
    rets = [n for n in walk_no_nested(fn) if isinstance(n, ast.Return) and isinstance(n.value, ast.Tuple) and len(n.value.elts) == 2
            and not (isinstance(n.value.elts[0], ast.Constant) and n.value.elts[0].value is None)]
    if not rets:
        raise AnchorError("_select_match: no `return match, children_rules`")
    for r in rets:
        cr = r.value.elts[1]
        # children_rules['global'] derives from merge_dicts(..., rules['global'])
        ok = False
        for call in pv.origin_calls(cr, through_calls=True):
            if call_name(call).split(".")[-1] == "merge_dicts" and any(norm(a).replace('"', "'") == "rules['global']" for a in call.args):
                # and that merge is unconditional w.r.t. the path to this return
                f = gm.formula(call, G.GuardEnv())
                fr = gm.formula(r, G.GuardEnv())
                if G.implies(fr, f):
                    ok = True
        c.check("C06.R3", ok, repo.loc(m, r), "_select_match/global-inheritance",
                "the returned children rules do not (on every path) include the inherited rules['global']: a %global rule would stop covering the subtree",
                key_text="global-inherit")
    from sa.canon import unroll_literal_loops
    lg = unroll_literal_loops(repo.func(PATCHING, "_rules_local_global"))
    c.count("functions")
    loops = [st for st in lg.body if isinstance(st, ast.For)]
    srcs = []
    for st in loops:
        it = st.iter
        if isinstance(it, ast.Call) and isinstance(it.func, ast.Attribute) and it.func.attr == "items" and isinstance(it.func.value, ast.Subscript) \
                and isinstance(it.func.value.slice, ast.Constant):
            ys = [n for n in walk_no_nested(st) if isinstance(n, ast.Yield)]
            flag = None
            if ys and isinstance(ys[0].value, ast.Tuple) and isinstance(ys[0].value.elts[-1], ast.Constant):
                flag = ys[0].value.elts[-1].value
            cond = [n for n in walk_no_nested(st) if isinstance(n, (ast.If, ast.Break, ast.Continue))]
            srcs.append((it.func.value.slice.value, flag, bool(cond)))
    ok = srcs == [("local", False, False), ("global", True, False)]
    c.check("C06.R3", ok, repo.loc(m, lg), "_rules_local_global", f"expected all local rules (is_global=False) then all global rules (True), unfiltered; found {srcs}", key_text="local-global")
    # _compile_acl: enumerate the paths through one iteration of the loop over the merged rows
    from sa import symexec
    am = repo.module(ACL)
    ca = repo.func(ACL, "_compile_acl")
    c.count("functions")
    loops = [n for n in ca.body if isinstance(n, ast.For) and isinstance(n.target, ast.Tuple) and len(n.target.elts) == 2]
    if len(loops) != 1:
        raise AnchorError("_compile_acl: loop over the merged rows not found")
    loop = loops[0]
    idv, av = loop.target.elts[0].id, loop.target.elts[1].id
    rets = [n for n in walk_no_nested(ca) if isinstance(n, ast.Return) and n.value is not None]
    pvc = Provenance(ca)
    rv = pvc.resolve_alias(rets[-1].value) if rets else None
    if isinstance(rv, ast.Name):
        inits = [d.value for d in pvc.rd.defs(rv) if d.kind == "assign" and d.value is not None]
        rv = inits[0] if len(inits) == 1 else rv
    if not isinstance(rv, ast.Dict):
        raise AnchorError("_compile_acl: the returned {'local': ..., 'global': ...} mapping not found")
    keyed = {k.value: norm(v) for k, v in zip(rv.keys, rv.values) if isinstance(k, ast.Constant)}
    holder = norm(rets[-1].value) if isinstance(rets[-1].value, ast.Name) else None

    def ren(s_):
        s_ = s_.replace('"', "'")
        return {f"{av}['params']['global']": "global", f"{av}['type'] == 'ignore'": "ignore", f"'ignore' == {av}['type']": "ignore"}.get(s_, s_)
    env = G.GuardEnv(rename=ren)
    ok_children, ok_filing, nfiled = True, True, 0
    for p_ in symexec.paths(loop.body):
        if any(k == "raise" for k, _, _ in p_.events):
            continue
        f = G.And(*[(G.formula(t, env) if pol else G.Not(G.formula(t, env))) for t, pol in p_.conds])
        if not G.satisfiable(f):
            continue
        filed = []
        for kind, orig, sub in p_.events:
            if kind == "call" and call_name(orig) == "_compile_acl":
                if not G.implies(f, G.Not(G.Atom("global"))):
                    ok_children = False
            if kind == "store" and isinstance(sub.targets[0], ast.Subscript) and norm(sub.targets[0].slice) == idv:
                tgt = sub.targets[0].value
                # rules['global'][id] / rules['global' if g else 'local'][id] / global_rules[id]
                if isinstance(tgt, ast.Subscript) and holder and norm(tgt.value) == holder:
                    sel = tgt.slice
                    if isinstance(sel, ast.Constant):
                        filed.append((sel.value, f))
                    elif isinstance(sel, ast.IfExp) and isinstance(sel.body, ast.Constant) and isinstance(sel.orelse, ast.Constant):
                        t_ = G.formula(sel.test, env)
                        filed.append((sel.body.value, G.And(f, t_)))
                        filed.append((sel.orelse.value, G.And(f, G.Not(t_))))
                    else:
                        ok_filing = False
                elif isinstance(tgt, ast.Name):
                    ks = [k for k, v in keyed.items() if v == tgt.id]
                    if len(ks) == 1:
                        filed.append((ks[0], f))
                    else:
                        ok_filing = False
        if not filed:
            ok_filing = False
        for where, ff in filed:
            if not G.satisfiable(ff):
                continue
            nfiled += 1
            if where == "global" and not G.implies(ff, G.Atom("global")):
                ok_filing = False
            if where == "local" and not G.implies(ff, G.Not(G.Atom("global"))):
                ok_filing = False
            if where not in ("global", "local"):
                ok_filing = False
    rec = [x for x in calls_in(ca) if call_name(x) == "_compile_acl"]
    c.check("C06.R3", ok_children and len(rec) >= 1, repo.loc(am, rec[0] if rec else ca), "_compile_acl/children", "children of a %global rule are compiled (or the recursion is missing): its subtree must be governed by inheritance",
            key_text="compile-children")
    c.check("C06.R3", ok_filing and nfiled >= 2, repo.loc(am, ca), "_compile_acl/filing", "rules are not filed under 'global' iff their %global flag is set", key_text="filing")


def r4(c):
    repo = c.repo
    c.rule("C06.R4", "_merge_toplevel unites every parameter of a repeated row with the scheme's uniter and appends every non-empty children tree; no row is skipped")
    am = repo.module(ACL)
    fn = repo.func(ACL, "_merge_toplevel")
    c.count("functions")
    gm = GuardMap(fn)
    conts = [n for n in walk_no_nested(fn) if isinstance(n, (ast.Continue, ast.Break, ast.Return))]
    # the only allowed `continue` is the one ending the first-seen branch (after storing attrs)
    bad = []
    for n in conts:
        if isinstance(n, ast.Return) and n is fn.body[-1]:
            continue
        f = gm.formula(n, G.GuardEnv())
        if isinstance(n, ast.Continue) and G.equivalent(f, G.Not(G.Atom("rule_id in merged"))):
            # must be preceded by the store merged[rule_id] = attrs in the same block
            parent = n._parent
            body = parent.body if hasattr(parent, "body") else []
            if any(isinstance(s, ast.Assign) and norm(s.targets[0]) == "merged[rule_id]" for s in body):
                continue
        bad.append(n)
    c.check("C06.R4", not bad, repo.loc(am, bad[0] if bad else fn), "_merge_toplevel/no-drop",
            f"`{norm(bad[0]) if bad else ''}` under [{G.show(gm.formula(bad[0], G.GuardEnv())) if bad else ''}] drops a rule while merging generators' ACLs", key_text="drop")
    uses_uniter = any(isinstance(n, ast.Subscript) and isinstance(n.slice, ast.Constant) and n.slice.value == "uniter" for n in ast.walk(fn))
    c.check("C06.R4", uses_uniter, repo.loc(am, fn), "_merge_toplevel/uniter", "parameters of a repeated row are not united with the scheme's uniter", key_text="uniter")
    app = [x for x in calls_in(fn) if isinstance(x.func, ast.Attribute) and x.func.attr == "append" and "children" in norm(x.func.value)]
    ok = bool(app)
    if ok:
        chal = {n.targets[0].id for n in walk_no_nested(fn) if isinstance(n, ast.Assign) and isinstance(n.targets[0], ast.Name) and norm(n.value).replace('"', "'") == "attrs['children']"}
        f = gm.formula(app[0], G.GuardEnv(rename=lambda s: "attrs['children']" if s in chal else s.replace('"', "'")))
        ok = G.implies(G.And(G.Atom("rule_id in merged"), G.Atom("attrs['children']")), f)
    c.check("C06.R4", ok, repo.loc(am, app[0] if app else fn), "_merge_toplevel/children", "children trees of a repeated row are not all appended", key_text="children")
    pv4 = Provenance(fn)
    stored_as_is = any(isinstance(n, ast.Assign) and norm(n.targets[0]) == "merged[rule_id]" and norm(n.value) == "attrs" for n in walk_no_nested(fn))
    first = [n for n in walk_no_nested(fn) if isinstance(n, ast.Assign) and (norm(n.targets[0]).replace('"', "'") == "merged[rule_id]['children']"
                                                                              or (stored_as_is and norm(n.targets[0]).replace('"', "'") == "attrs['children']"))]
    ok = bool(first) and isinstance(first[0].value, ast.IfExp) and isinstance(first[0].value.body, ast.List) and len(first[0].value.body.elts) == 1 \
        and norm(pv4.resolve_alias(first[0].value.body.elts[0])).replace('"', "'") == "attrs['children']" \
        and norm(pv4.resolve_alias(first[0].value.test)).replace('"', "'") == "attrs['children']" and isinstance(first[0].value.orelse, ast.List) and not first[0].value.orelse.elts
    c.check("C06.R4", ok, repo.loc(am, first[0] if first else fn), "_merge_toplevel/first-children", "children of the first occurrence are not kept", key_text="first-children")


def r5(c):
    repo = c.repo
    c.rule("C06.R5", "in _select_match the statements accumulating local/global children rules from the matching rules may be guarded only by a property of the "
                     "rule being accumulated (its own is_cr_allowed), never by data of the winning match (matches[0]); every matching rule is visited (no break)")
    m = repo.module(PATCHING)
    fn = repo.func(PATCHING, "_select_match")
    gm = GuardMap(fn)
    pv = Provenance(fn)
    # names derived from matches[0]
    first_names = set()
    for n in walk_no_nested(fn):
        if isinstance(n, ast.Assign) and isinstance(n.value, ast.Subscript) and norm(n.value) == "matches[0]":
            for t in ast.walk(n.targets[0]):
                if isinstance(t, ast.Name):
                    first_names.add(t.id)
    if not first_names:
        raise AnchorError("_select_match: unpacking of matches[0] not found")
    acc = [x for x in calls_in(fn) if call_name(x).split(".")[-1] == "merge_dicts" and any("children" in norm(a) and "rules[" not in norm(a).replace("rule[", "") for a in x.args)]
    acc = [x for x in calls_in(fn) if call_name(x).split(".")[-1] == "merge_dicts" and any(norm(a).replace('"', "'").startswith("rule['children']") for a in x.args)]
    if len(acc) < 2:
        raise AnchorError("_select_match: accumulation of rule['children']['local'/'global'] not found")
    for call in acc:
        conds = gm.of(call)
        dep = []
        for t, pol in conds:
            if "['type']" in norm(t).replace('"', "'") and "ignore" in norm(t):
                continue  # the winning rule being an ignore rule ends the function with no match at all (exempt, filter-acl only)
            for nm in ast.walk(t):
                if isinstance(nm, ast.Name) and nm.id in first_names and norm(t) not in dep:
                    dep.append(norm(t))
        which = "local" if "'local'" in norm(call).replace('"', "'") else "global"
        c.check("C06.R5", not dep, repo.loc(m, call), f"_select_match/accumulate-{which}",
                f"children rules of matching rules are merged only under `{dep[0] if dep else ''}` — a property of the winning match: when a rule without children rights "
                "(e.g. a %global row) wins, children allowed by another matching rule are dropped, so the merged ACL passes less than one of its parts",
                key_text=f"dep-on-winner-{which}")
    loops = [st for st in walk_no_nested(fn) if isinstance(st, ast.For) and any(n is acc[0] for n in ast.walk(st))]
    if loops:
        brk = [n for n in walk_no_nested(loops[0]) if isinstance(n, (ast.Break, ast.Return))]
        c.check("C06.R5", not brk, repo.loc(m, brk[0] if brk else loops[0]), "_select_match/visit-all-matches",
                "the loop over matching rules stops early: children rules of later (less specific) matching rules are lost", key_text="break")
        it = loops[0].iter
        ok = any(isinstance(n, ast.Name) and n.id == "matches" for n in ast.walk(it))
        c.check("C06.R5", ok, repo.loc(m, loops[0]), "_select_match/loop-source", "accumulation does not iterate all matches", key_text="loop-src")


def r6(c):
    repo = c.repo
    c.rule("C06.R6", "match_row_to_acl: every return of a match hands back the (match, children rules) pair computed by _select_match(matches, rules) over all matches found by "
                     "_find_acl_matches — no shortcut builds its own children rules (they would lack the inherited %global rules and the merged local rules); "
                     "_find_acl_matches collects every direct match before any reverse match (outer loop over ['direct_regexp', 'reverse_regexp'], rules inside): the stable sort "
                     "by (prio, specificity) leaves ties in collection order and _select_match treats the first entry as the governing match")
    m = repo.module(PATCHING)
    fn = repo.func(PATCHING, "match_row_to_acl")
    c.count("functions", 2)
    pv = Provenance(fn)
    rets = [n for n in walk_no_nested(fn) if isinstance(n, ast.Return) and n.value is not None]
    if not rets:
        raise AnchorError("match_row_to_acl: no return")
    fam = [x for x in calls_in(fn) if call_name(x) == "_find_acl_matches"]
    for r in rets:
        v = pv.resolve_alias(r.value)
        if isinstance(v, ast.Tuple) and all(isinstance(e, ast.Constant) and e.value is None for e in v.elts):
            continue
        ok = isinstance(v, ast.Call) and call_name(v) == "_select_match" and len(v.args) >= 2 and norm(v.args[1]) == fn.args.args[1].arg \
            and bool(fam) and any(x is fam[0] for x in pv.origin_calls(v.args[0], through_calls=False))
        c.check("C06.R6", ok, repo.loc(m, r), "match_row_to_acl/return-through-select", f"`return {norm(r.value)[:60]}` does not come from _select_match(<all matches>, rules): the children rules of "
                "this path are assembled by hand, without the inherited rules['global'] / the union of the local rules of all equal matches", key_text="return-select")
    fa = repo.func(PATCHING, "_find_acl_matches")
    gm = GuardMap(fa)
    pva = Provenance(fa)

    def over_rules(l):
        return any("_rules_local_global" in b for b in pva.iteration_bases(l.iter)[0])
    sorted_lists = {norm(x.func.value) for x in calls_in(fa) if isinstance(x.func, ast.Attribute) and x.func.attr == "sort"} | \
        {norm(pva.resolve_alias(x.args[0])) for x in calls_in(fa) if call_name(x) == "sorted" and x.args}
    apps = [x for x in calls_in(fa) if isinstance(x.func, ast.Attribute) and x.func.attr == "append" and any(over_rules(l) for l in gm.in_loop(x) if isinstance(l, ast.For))
            and (not sorted_lists or norm(x.func.value) in sorted_lists)]
    if len(apps) != 1:
        raise AnchorError("_find_acl_matches: collection of the candidates not found")
    loops = [l for l in gm.in_loop(apps[0]) if isinstance(l, ast.For)]
    def _first(e):
        # the kind itself, or a record that starts with it (`("direct_regexp", False)`)
        return e.value if isinstance(e, ast.Constant) else (_first(e.elts[0]) if isinstance(e, (ast.Tuple, ast.List)) and e.elts else None)
    kinds = [i for i, l in enumerate(loops) if isinstance(l.iter, (ast.List, ast.Tuple)) and [_first(e) for e in l.iter.elts] == ["direct_regexp", "reverse_regexp"]]
    ruleloops = [i for i, l in enumerate(loops) if over_rules(l)]
    # a sort key that itself separates direct from reverse matches makes the collection order irrelevant
    sorts = [x for x in calls_in(fa) if isinstance(x.func, ast.Attribute) and x.func.attr == "sort" or call_name(x) == "sorted"]
    if not kinds or not ruleloops:
        raise AnchorError("_find_acl_matches: loops over the regexp kinds / the rules not found")
    c.check("C06.R6", kinds[0] < ruleloops[0], repo.loc(m, loops[0]), "_find_acl_matches/direct-before-reverse", "candidates are collected rule by rule (direct and reverse match of one rule "
            "together) instead of all direct matches first: with equal (prio, specificity) the reverse match of an earlier rule now precedes the direct match of a later one and "
            "governs the row — its block is kept without the children rules of the direct match", key_text="collection-order")


def r7(c):
    """apply_acl(t, A) is a function of t and A only if matching leaves A as it found it: the compiled ACL is shared (lru_cache) by every row, tree and run of the process"""
    from sa.effects import Effects
    repo = c.repo
    c.rule("C06.R7", "matching leaves the ACL as it found it, in depth: _select_match, match_row_to_acl and _find_acl_matches (with every helper they hand parts of the ACL to, "
                     "e.g. lib.merge_dicts through its *args) write nothing that is reachable from their `matches` / `rules` arguments — field-insensitive may-mutate analysis: a "
                     "value stored into a fresh container still aliases the rule it came from — except the scratch field ['attrs']['match']; otherwise the parameters of a "
                     "rule (cant_delete, generator_names, children) change with the rows filtered before, and apply_acl(t, A) depends on history")
    m = repo.module(PATCHING)
    eff = Effects(repo, mode="contents", max_depth=6)
    for q in ("_select_match", "match_row_to_acl", "_find_acl_matches"):
        fn = repo.func(PATCHING, q)
        c.count("functions")
        mut = eff.mutated_params(m, q, fn)
        bad = []
        for p_, sites in sorted(mut.items()):
            for s_ in sites:
                wn = s_.root[3]
                scratch = acl_scratch_write(repo, wn)
                if not scratch:
                    bad.append((p_, s_))
        if bad:
            p_, s_ = bad[0]
            c.violated("C06.R7", f"{repo.module(s_.root[0]).rel}:{getattr(s_.root[3], 'lineno', 0)}", f"{q}({p_})", f"{s_.how[:110]}: an object of the compiled ACL reached through `{p_}` is "
                       "written while a row is matched; every later row (tree, device) filtered with the same cached ACL sees the changed rule", key_text=f"acl-write:{p_}")
        else:
            c.holds("C06.R7", repo.loc(m, fn), q, "no write reaches the compiled ACL (scratch field ['attrs']['match'] aside)")
