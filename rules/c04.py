"""C04 -- vendor text and config trees round-trip for every supported vendor (structural clauses of the shared machinery)."""
import ast

from sa import guards as G
from sa.flow import GuardMap, Provenance, Typestate
from sa.repo import AnchorError, call_name, calls_in, dotted, norm, walk_no_nested, kwarg
from sa.vendors import load_vendors
from rules.c09 import formatter_classes

TAB = "annet.annlib.tabparser"


def run(c):
    c.explanation = ("Clauses of the block machinery every vendor shares, decided on the AST: class-hierarchy resolution of join/_blocks per vendor formatter, typestate pairing of "
                     "BlockBegin/BlockEnd in every blocks_and_context, indentation following the markers, provenance of the splitter handed to parse_to_tree at every production "
                     "call site, role flow of RouterOS section paths across the recursion, and freshness of the formatter a vendor hands out.")
    c.decides = ("configs are rendered from the block stream with is_patch=False (no block-exit words); BlockBegin/BlockEnd are paired on every path; indentation follows the markers; "
                 "the parser gets the split of the device's own formatter; RouterOS section headers carry the full path of the enclosing section; make_formatter returns a fresh object")
    c.does_not_decide = "every vendor-specific syntax half (Juniper braces/semicolons, Nokia configure{} wrapper, Cisco exit-address-family re-indent, RouterOS leaf syntax) and equality on values"
    r1(c)
    r2(c)
    r3(c)
    r4(c)
    r5(c)
    r6(c)
    r7(c)
    r8(c)


def r1(c):
    repo = c.repo
    c.rule("C04.R1", "for every vendor's formatter class the resolved join obtains its rows from self._blocks(config, is_patch=False) (directly or through _indented_blocks); "
                     "BlockExitFormatter emits the exit statement only under is_patch (with is_patch=True in join every block would gain a quit/exit child)")
    tm = repo.module(TAB)
    fc = formatter_classes(repo)
    c.floor("C04.R1", "formatter classes", len(fc), 12)
    seen = set()
    for name, (m, cls, vns) in sorted(fc.items()):
        j = repo.class_attr(m, cls, "join")
        if not j or not isinstance(j[2], ast.FunctionDef):
            raise AnchorError(f"{name}.join not resolvable")
        fn = repo.canon(j[0], j[2])
        if id(j[2]) in seen:
            c.holds("C04.R1", repo.loc(m, cls), f"{name}({','.join(vns)})", f"inherits {j[1].name}.join", trivial=True)
            continue
        seen.add(id(j[2]))
        ok = False
        for call in calls_in(fn):
            if norm(call.func) == "self._blocks":
                v = kwarg(call, "is_patch", 1)
                ok = isinstance(v, ast.Constant) and v.value is False
            elif norm(call.func) == "self._indented_blocks":
                ib = repo.class_attr(m, cls, "_indented_blocks")
                for c2 in calls_in(repo.canon(ib[0], ib[2])):
                    if norm(c2.func) == "self._blocks":
                        v = kwarg(c2, "is_patch", 1)
                        ok = isinstance(v, ast.Constant) and v.value is False
        c.check("C04.R1", ok, repo.loc(j[0], fn), f"{j[1].name}.join", "join does not render the block stream with is_patch=False: rendered configs contain block-exit words that parse back as rows",
                key_text="join-is_patch")
    be = repo.func(TAB, "BlockExitFormatter.blocks_and_context")
    gm = GuardMap(be)
    ex = [x for x in calls_in(be) if norm(x.func) == "self.block_exit"]
    ok = len(ex) == 1 and G.implies(gm.formula(ex[0]), G.Atom("is_patch"))
    c.check("C04.R1", ok, repo.loc(tm, be), "BlockExitFormatter/exit-only-in-patch", "block exit statements are emitted for configs as well", key_text="exit-config")


def r2(c):
    repo = c.repo
    c.rule("C04.R2", "block markers are paired: in every implementation of blocks_and_context each yielded BlockBegin is followed, after the descent into the sub-tree, by exactly one "
                     "BlockEnd on every path (depth counter returns to its entry value and never goes negative) — an unpaired marker makes the following siblings children of the block")
    tm = repo.module(TAB)
    impls = [(q, d) for q, d in tm.defs.items() if isinstance(d, ast.FunctionDef) and d.name == "blocks_and_context"
             and any(isinstance(n, ast.Yield) and "BlockBegin" in norm(n) for n in walk_no_nested(d))]
    c.floor("C04.R2", "blocks_and_context implementations yielding markers", len(impls), 2)
    for q, fn in impls:
        c.count("functions")
        bad = []

        def on_stmt(node, st, ts):
            if isinstance(node, ast.Expr) and isinstance(node.value, ast.Yield) and isinstance(node.value.value, ast.Tuple) and node.value.value.elts:
                first = norm(node.value.value.elts[0])
                if first == "BlockBegin":
                    return [min(st + 1, 3)]
                if first == "BlockEnd":
                    if st - 1 < 0:
                        bad.append(("negative", node))
                    return [max(st - 1, -1)]
            return [st]
        ts = Typestate(on_stmt)
        res = ts.run(fn.body, 0)
        ends = {rs for k in ("fall", "return") for (rs, _f) in res[k]}
        ok = ends <= {0} and not bad
        c.check("C04.R2", ok, repo.loc(tm, fn), q, f"paths leave the function with marker depth {sorted(ends)} (expected 0 only){' / BlockEnd before BlockBegin' if bad else ''}", key_text="unpaired")


def r3(c):
    repo = c.repo
    c.rule("C04.R3", "indentation follows the markers: _indent_blocks increases the level on BlockBegin, decreases it on BlockEnd and prefixes every row with self._indent * level; "
                     "every production caller of parse_to_tree hands it the split of the formatter the vendor registry makes for that device/hardware")
    tm = repo.module(TAB)
    fn = repo.func(TAB, "CommonFormatter._indent_blocks")
    c.count("functions")
    gm = GuardMap(fn)
    loops = [n for n in walk_no_nested(fn) if isinstance(n, ast.For) and isinstance(n.target, ast.Name)]
    augs = [n for n in walk_no_nested(fn) if isinstance(n, ast.AugAssign) and isinstance(n.target, ast.Name)]
    if len(loops) != 1 or not augs or len({n.target.id for n in augs}) != 1:
        raise AnchorError("_indent_blocks: the loop over the block stream / the level counter not found")
    E, L = loops[0].target.id, augs[0].target.id

    def ren(s):
        return {f"{E} is BlockBegin": "begin", f"BlockBegin is {E}": "begin", f"{E} is BlockEnd": "end", f"BlockEnd is {E}": "end"}.get(s, s)
    env = G.GuardEnv(rename=ren)
    begin, end = G.Atom("begin"), G.Atom("end")
    inc = [n for n in augs if isinstance(n.op, ast.Add)]
    dec = [n for n in augs if isinstance(n.op, ast.Sub)]
    ok = len(inc) == 1 and len(dec) == 1 and len(augs) == 2 and norm(inc[0].value) == "1" and norm(dec[0].value) == "1"
    if ok:
        ok = G.equivalent(gm.formula(inc[0], env), begin) and G.equivalent(gm.formula(dec[0], env), G.And(G.Not(begin), end))
    ys = [n for n in walk_no_nested(fn) if isinstance(n, ast.Yield)]
    yg = [gm.formula(y, env) for y in ys]
    # where the indented form `self._indent * level + row` is built and which yield passes it on
    indented = []
    for n in walk_no_nested(fn):
        if isinstance(n, ast.BinOp) and isinstance(n.op, ast.Add) and norm(n).replace(" ", "") in (f"self._indent*{L}+{E}", f"{L}*self._indent+{E}"):
            st = gm.stmt(n)
            if isinstance(st, ast.Assign) and isinstance(st.targets[0], ast.Name):
                g = gm.formula(st, env)
                if any(isinstance(y.value, ast.Name) and y.value.id == st.targets[0].id and G.implies(g, f) for y, f in zip(ys, yg)):
                    indented.append(g)
            elif isinstance(st, ast.Expr) and st.value in ys:
                indented.append(gm.formula(st, env))
    ok = ok and bool(indented) and G.equivalent(G.Or(*indented), G.And(G.Not(begin), G.Not(end)))
    c.check("C04.R3", ok, repo.loc(tm, fn), "_indent_blocks", "the indentation level is not +1 on BlockBegin / -1 on BlockEnd / prefix on rows", key_text="indent")
    once = all(not G.satisfiable(G.And(yg[i], yg[j])) for i in range(len(yg)) for j in range(i + 1, len(yg)))
    c.check("C04.R3", bool(ys) and G.equivalent(G.Or(*yg), G.T) and once and all(gm.in_loop(y) for y in ys), repo.loc(tm, fn), "_indent_blocks/yield-all",
            "not every element of the block stream is passed on exactly once", key_text="indent-yield")
    # parse_to_tree callers
    sites = []
    for m, q, f in repo.all_functions():
        if m.name.startswith("annet.annlib.rbparser") or m.name == TAB:
            continue
        for call in calls_in(f):
            if call_name(call).split(".")[-1] == "parse_to_tree" and repo.enclosing_func(call) is f:
                sites.append((m, q, f, call))
    c.floor("C04.R3", "parse_to_tree call sites", len(sites), 5)
    for m, q, f, call in sites:
        sp = kwarg(call, "splitter", 1)
        pv = Provenance(f)
        ok = False
        detail = norm(sp) if sp is not None else "nothing"
        if isinstance(sp, ast.Attribute) and sp.attr == "split":
            for x in [sp.value] + pv.origin_calls(sp.value, through_calls=False):
                xs = norm(x)
                if "make_formatter(" in xs:
                    ok = True
            if not ok and isinstance(sp.value, ast.Name):
                # a formatter handed in as parameter (library helpers: filter_acl) is the caller's own formatter
                if any(d.kind == "param" for d in pv.rd.defs(sp.value)):
                    ok = True
                    detail += " (formatter parameter)"
        c.check("C04.R3", ok, repo.loc(m, call), f"{m.name.split('.', 1)[-1]}:{q}/parse_to_tree(splitter=)", f"the text is split by `{detail}`, which is not the split of a formatter made by the vendor "
                "registry for this hardware: the tree would be built with another vendor's block syntax", key_text="splitter")


def r4(c):
    repo = c.repo
    c.rule("C04.R4", "RouterOS section paths accumulate: in both traversals of RosFormatter — blocks_and_context (join) and cmd_paths (patch) — the prefix put in front of a nested "
                     "section's word is the path the enclosing invocation computed for itself and handed down (cmd_paths: the _prev argument is the caller's block_cmd; "
                     "blocks_and_context: the `current` of the FormatterContext built at the recursive call), not the path of the level above")
    tm = repo.module(TAB)
    fn = repo.func(TAB, "RosFormatter.blocks_and_context")
    c.count("functions", 2)
    # what is handed down
    rec = [x for x in calls_in(fn) if norm(x.func) == "self.blocks_and_context"]
    if len(rec) != 1:
        raise AnchorError("RosFormatter.blocks_and_context: recursive call not found")
    ctx = kwarg(rec[0], "context", 2)
    ok = isinstance(ctx, ast.Call) and call_name(ctx) == "FormatterContext"
    cur = kwarg(ctx, "current") if ok else None
    par = kwarg(ctx, "parent") if ok else None
    path_var = cur.elts[0].id if isinstance(cur, ast.Tuple) and isinstance(cur.elts[0], ast.Name) else None
    c.check("C04.R4", ok and path_var is not None and norm(par) == "context", repo.loc(tm, rec[0]), "RosFormatter.blocks_and_context/hand-down",
            "the recursive call does not hand its own section path down as FormatterContext(parent=context, current=(<path>, ...))", key_text="hand-down")
    # every nested section opened for a row is filled by the walk made for that very row
    gm4 = GuardMap(fn)
    pv4 = Provenance(fn)
    lp = [l for l in gm4.in_loop(rec[0]) if isinstance(l, ast.For)]
    ok = bool(lp)
    detail = "the recursive walk is outside the loop over the rows"
    if ok:
        inner = lp[-1]
        begins = [y for y in walk_no_nested(inner) if isinstance(y, ast.Yield) and isinstance(y.value, ast.Tuple) and y.value.elts and norm(y.value.elts[0]) == "BlockBegin"]
        yfs = [y for y in walk_no_nested(inner) if isinstance(y, ast.YieldFrom)]
        ok = len(begins) == 1 and len(yfs) == 1
        detail = f"{len(begins)} BlockBegin / {len(yfs)} nested streams in the row loop"
        if ok:
            src = pv4.resolve_alias(yfs[0].value)
            while isinstance(src, ast.Call) and call_name(src) in ("list", "tuple", "iter") and src.args:
                src = pv4.resolve_alias(src.args[0])
            ok = src is rec[0] and G.equivalent(gm4.formula(rec[0]), gm4.formula(begins[0])) and G.equivalent(gm4.formula(yfs[0]), gm4.formula(begins[0])) \
                and gm4.in_loop(rec[0])[-1] is gm4.in_loop(begins[0])[-1]
            detail = f"the stream yielded between BlockBegin and BlockEnd is `{norm(yfs[0].value)[:50]}` (walk made under {G.show(gm4.formula(rec[0]))})"
    c.check("C04.R4", ok, repo.loc(tm, rec[0]), "RosFormatter.blocks_and_context/walk-per-row", f"{detail}; expected: the recursive walk made for this row, with this row's path, under the same "
            "condition as its BlockBegin — a walk reused for another row carries the first row's path into the other section", key_text="walk-per-row")
    if path_var:
        # how is the path built:  f"{<prefix>} {row}"  -- the prefix must read this level's context (context.row / context.current[0]), not context.parent.*
        defs = [n for n in walk_no_nested(fn) if isinstance(n, ast.Assign) and norm(n.targets[0]) == path_var]
        prefixes = []
        for d in defs:
            if isinstance(d.value, ast.JoinedStr):
                for v in d.value.values:
                    if isinstance(v, ast.FormattedValue) and norm(v.value) != "row":
                        prefixes.append((d, norm(v.value)))
        ok = bool(prefixes) and all(p in ("context.row", "context.current[0]") for _, p in prefixes)
        c.check("C04.R4", ok, repo.loc(tm, prefixes[0][0] if prefixes else fn), "RosFormatter.blocks_and_context/prefix",
                f"a nested section is prefixed with `{prefixes[0][1] if prefixes else '?'}`; the path handed down for this level is context.row (FormatterContext.current) — "
                "context.parent.row is the level above, so '/ip firewall filter' is printed as '/ip filter' and 'ip -> address' as '/address'", key_text="prefix-level")
    cp = repo.func(TAB, "RosFormatter.cmd_paths")
    rec = [x for x in calls_in(cp) if norm(x.func) == "self.cmd_paths"]
    ok = len(rec) == 1 and len(rec[0].args) >= 2
    if ok:
        handed = norm(rec[0].args[1])
        defs = [n for n in walk_no_nested(cp) if isinstance(n, ast.Assign) and norm(n.targets[0]) == handed and isinstance(n.value, ast.JoinedStr)]
        pre = {norm(v.value) for d in defs for v in d.value.values if isinstance(v, ast.FormattedValue)} - {"key"}
        ok = bool(defs) and pre == {"_prev"}
    c.check("C04.R4", ok, repo.loc(tm, cp), "RosFormatter.cmd_paths/prefix", "cmd_paths does not extend the caller's own path (_prev) by the section word", key_text="cmd-prefix")
    fcx = repo.cls(TAB, "FormatterContext")
    rowp = [st for st in fcx.body if isinstance(st, ast.FunctionDef) and st.name == "row"]
    ok = bool(rowp) and "self.current" in norm(rowp[0]) and "[0]" in norm(rowp[0])
    c.check("C04.R4", ok, repo.loc(tm, fcx), "FormatterContext.row", "FormatterContext.row is not the first element of `current`", key_text="ctx-row")


def r5(c):
    repo = c.repo
    c.rule("C04.R5", "every vendor's make_formatter returns a freshly constructed formatter built from the arguments of this call (no instance kept on the vendor object): a cached "
                     "instance made with other options (indent='') would silently become the default renderer for later calls")
    vendors = load_vendors(repo)
    for vn, v in sorted(vendors.items()):
        mf = [st for st in v.cls.body if isinstance(st, ast.FunctionDef) and st.name == "make_formatter"]
        if not mf:
            raise AnchorError(f"vendor {vn}: make_formatter not found")
        fn = mf[0]
        rets = [n for n in walk_no_nested(fn) if isinstance(n, ast.Return)]
        fresh = all(isinstance(r.value, ast.Call) and not isinstance(r.value.func, ast.Attribute) or
                    (isinstance(r.value, ast.Call) and isinstance(r.value.func, ast.Attribute) and norm(r.value.func.value) not in ("self",)) for r in rets) and bool(rets)
        fresh = fresh and all(isinstance(r.value, ast.Call) and (dotted(r.value.func) or "").endswith("Formatter") for r in rets)
        stores = [n for n in walk_no_nested(fn) if isinstance(n, (ast.Assign, ast.AugAssign)) and any(isinstance(t, ast.Attribute) and norm(t.value) in ("self", "cls", "type(self)")
                                                                                                   for t in (n.targets if isinstance(n, ast.Assign) else [n.target]))]
        c.check("C04.R5", fresh and not stores, repo.loc(v.mod, fn), f"{v.cls.name}.make_formatter", f"make_formatter {'stores an instance on the vendor object' if stores else 'does not return a fresh Formatter(**kwargs)'}: "
                "the result of make_formatter() depends on earlier calls in the process", key_text="cached-formatter")
    c.floor("C04.R5", "vendors", len(vendors), 14)


# per formatter class: how split() recognises the terminator lines it drops, as confirmed by reading today's tree (a wider or different predicate is a new claim)
TERMINATOR_PREDICATE = {
    "HuaweiFormatter": "startswith",   # str(x).strip().startswith(words): old VRP prints the terminators with varying indentation
    "AsrFormatter": "endswith",        # x.endswith(words): IOS-XR terminators end the line; rows such as `end-policy-map` merely begin with one
}


def _terminator_filters(repo, m, cls):
    """(predicate kind, words, node) for every row filter in the resolved split of a class, following one level of self.<helper>(...)"""
    sp = repo.class_attr(m, cls, "split")
    if not sp or not isinstance(sp[2], ast.FunctionDef):
        return None
    out = []

    def scan(fn, binding, depth):
        pv = Provenance(fn)

        def words_of(e):
            e = pv.resolve_alias(e)
            if isinstance(e, ast.Name) and e.id in binding:
                e = binding[e.id]
            if isinstance(e, ast.Call) and call_name(e) == "tuple" and e.args:
                return words_of(e.args[0])
            if isinstance(e, (ast.Tuple, ast.List, ast.Set)) and e.elts and all(isinstance(x, ast.Constant) and isinstance(x.value, str) for x in e.elts):
                return tuple(x.value for x in e.elts)
            if isinstance(e, ast.Constant) and isinstance(e.value, str):
                return (e.value,)
            return None
        for n in ast.walk(fn):
            if isinstance(n, ast.Call) and isinstance(n.func, ast.Attribute) and n.func.attr in ("startswith", "endswith") and n.args:
                w = words_of(n.args[0])
                if w and any("end" in x for x in w):
                    out.append((n.func.attr, w, n, fn))
            elif isinstance(n, ast.Compare) and len(n.ops) == 1 and isinstance(n.ops[0], (ast.In, ast.NotIn, ast.Eq, ast.NotEq)):
                w = words_of(n.comparators[0])
                if w and any("end" in x for x in w):
                    out.append(("equals", w, n, fn))
        if depth < 2:
            for call in calls_in(fn):
                if isinstance(call.func, ast.Attribute) and isinstance(call.func.value, ast.Name) and call.func.value.id == "self" and call.func.attr != fn.name:
                    h = repo.class_attr(m, cls, call.func.attr)
                    if h and isinstance(h[2], ast.FunctionDef) and h[0].name == TAB:
                        ps = [a.arg for a in h[2].args.args][1:]
                        b = {}
                        for i, a in enumerate(call.args):
                            if i < len(ps):
                                ra = pv.resolve_alias(a)
                                b[ps[i]] = binding.get(ra.id, ra) if isinstance(ra, ast.Name) else ra
                        for k in call.keywords:
                            if k.arg:
                                b[k.arg] = pv.resolve_alias(k.value)
                        scan(h[2], b, depth + 1)
    scan(sp[2], {}, 0)
    return out


def _exit_words(repo, m, cls):
    be = repo.class_attr(m, cls, "block_exit")
    words = set()
    if be and isinstance(be[2], ast.FunctionDef):
        fn = repo.canon(be[0], be[2])
        pv = Provenance(fn)

        def consts(e, depth=0):
            e = pv.resolve_alias(e)
            if isinstance(e, ast.Name) and depth < 4:
                for d in pv.rd.defs(e):
                    if d.value is not None and d.kind == "assign":
                        consts(d.value, depth + 1)
                return
            for x in ast.walk(e):
                if isinstance(x, ast.Constant) and isinstance(x.value, str):
                    # only values, not the operands of tests
                    p_ = getattr(x, "_parent", None)
                    if isinstance(p_, (ast.Compare, ast.Call)) and not (isinstance(p_, ast.Call) and call_name(p_) == "block_wrapper"):
                        continue
                    if isinstance(p_, ast.Tuple) and isinstance(getattr(p_, "_parent", None), ast.Call):
                        continue
                    words.add(x.value)
        for n in ast.walk(fn):
            if isinstance(n, ast.Call) and call_name(n) == "block_wrapper" and n.args:
                consts(n.args[0])
            elif isinstance(n, ast.Yield) and n.value is not None:
                consts(n.value)
    return words


def r6(c):
    repo = c.repo
    c.rule("C04.R6", "block terminators: a formatter whose split() drops terminator lines of policy blocks drops exactly the words its own block_exit() re-creates (sibling agreement), "
                     "and recognises them with the predicate confirmed for that vendor (HuaweiFormatter: stripped line starts with a word; AsrFormatter: line ends with a word) or with "
                     "an exact match; any other predicate drops rows that are not terminators")
    fc = formatter_classes(repo)
    n = 0
    for name, (m, cls, vns) in sorted(fc.items()):
        fl = _terminator_filters(repo, m, cls)
        if not fl:
            if name in TERMINATOR_PREDICATE:
                raise AnchorError(f"{name}.split: terminator filter not found")
            continue
        n += 1
        ex = _exit_words(repo, m, cls)
        for kind, words, node, fn in fl:
            miss = [w for w in words if w not in ex]
            c.check("C04.R6", not miss, repo.loc(m, node), f"{name}.split/terminator-words", f"split drops lines by {list(words)} but block_exit of the class never produces {miss}: such rows are lost "
                    "from the tree and not restored on rendering", key_text="words")
            want = TERMINATOR_PREDICATE.get(name)
            ok = kind == "equals" or kind == want
            if want is None and kind != "equals":
                c.undecided("C04.R6", repo.loc(m, node), f"{name}.split/terminator-predicate", f"new terminator filter `{norm(node)[:60]}`: confirm the predicate for this vendor and add it to the table")
                continue
            c.check("C04.R6", ok, repo.loc(m, node), f"{name}.split/terminator-predicate", f"terminator lines are recognised with `{kind}` ({norm(node)[:60]}); the predicate confirmed for {name} is "
                    f"`{want}`: rows that only {'begin' if kind == 'startswith' else 'end'} with a terminator word (e.g. `end-policy-map` for end-policy) are dropped by split and vanish from the tree",
                    key_text="predicate")
    c.floor("C04.R6", "formatters with terminator filters", n, 2)


def pairwise_truncations(fn):
    """for-loops over zip(X, X[1:]) / zip(X, islice(X, 1, None)) whose body consumes the first component, with no later use of X[-1]: the last element of X is never processed"""
    out = []
    for lp in [n for n in ast.walk(fn) if isinstance(n, ast.For)]:
        it = lp.iter
        if not (isinstance(it, ast.Call) and call_name(it) == "zip" and len(it.args) == 2):
            continue
        a, b = it.args
        shifted = (isinstance(b, ast.Subscript) and isinstance(b.slice, ast.Slice) and norm(b.value) == norm(a) and b.slice.lower is not None and norm(b.slice.lower) == "1"
                   and b.slice.upper is None) or \
                  (isinstance(b, ast.Call) and call_name(b).split(".")[-1] == "islice" and len(b.args) >= 2 and norm(b.args[0]) == norm(a) and norm(b.args[1]) == "1")
        if not shifted:
            continue
        tail = any(isinstance(n, ast.Subscript) and norm(n.value) == norm(a) and norm(n.slice) == "-1" for n in ast.walk(fn))
        if not tail:
            out.append(lp)
    return out


def r7(c):
    import os
    repo = c.repo
    c.rule("C04.R7", "a splitter passes every line of the text on: no function of annlib.tabparser walks its lines as zip(lines, lines[1:]) (which never yields the last line as the "
                     "current one) without handling lines[-1] — a config whose last top-level item is a leaf would lose it on parsing. Expected count 0; a positive fixture proves "
                     "the matcher alive")
    fx = os.path.join(os.path.dirname(os.path.dirname(os.path.abspath(__file__))), "fixtures", "c04_pairwise_zip.py")
    tree = ast.parse(open(fx).read())
    nfx = sum(len(pairwise_truncations(f)) for f in tree.body if isinstance(f, ast.FunctionDef))
    if nfx != 2:
        raise AnchorError(f"C04.R7: positive fixture matched {nfx} constructs, expected 2 (matcher broken)")
    tm = repo.module(TAB)
    n = 0
    for q, d in tm.defs.items():
        if not isinstance(d, ast.FunctionDef):
            continue
        n += 1
        for lp in pairwise_truncations(d):
            c.violated("C04.R7", repo.loc(tm, lp), f"{q}/pairwise-walk", f"`for {norm(lp.target)} in {norm(lp.iter)[:60]}` never processes the last element: the last line of the text is dropped "
                       "(a tree ending in a leaf statement does not parse back)", key_text="pairwise-zip")
    c.count("functions", n)
    c.floor("C04.R7", "tabparser functions", n, 60)
    c.holds("C04.R7", tm.rel, "tabparser/pairwise-walks", f"{n} functions, none walks its input in truncating pairs") if not [1 for v in c.instances if v["rule"] == "C04.R7" and v["verdict"] != "HOLDS"] else None


STREAM_STAGES = {"_filtered_block_marks", "_formatted_blocks", "_indented_blocks", "_indent_blocks", "_blocks", "blocks_and_context", "filter", "map", "list", "tuple", "iter", "join"}


def r8(c):
    repo = c.repo
    c.rule("C04.R8", "join renders the block stream in stream order: in every vendor's resolved join the text is '\\n'.join(...) of a stream that comes from _blocks / "
                     "blocks_and_context through per-line stages only; a stage that files lines into a mapping and re-emits them group by group changes the order of rows "
                     "(parse(join(t)) has the rows of t in another order)")
    tm = repo.module(TAB)
    fc = formatter_classes(repo)
    seen = set()
    for name, (m, cls, vns) in sorted(fc.items()):
        j = repo.class_attr(m, cls, "join")
        if not j or id(j[2]) in seen:
            continue
        seen.add(id(j[2]))
        fn = repo.canon(j[0], j[2])
        c.count("functions")
        joins = [x for x in calls_in(fn) if isinstance(x.func, ast.Attribute) and x.func.attr == "join" and isinstance(x.func.value, ast.Constant) and x.args]
        if not joins:
            c.holds("C04.R8", repo.loc(j[0], j[2]), f"{j[1].name}.join", "no text join in this method (delegates)", trivial=True)
            continue
        pv = Provenance(fn)
        stages = []
        for x in [joins[0].args[0]] + pv.origin_calls(joins[0].args[0], through_calls=True):
            if isinstance(x, ast.Call):
                stages.append(x)
        bad = None
        for x in stages:
            nm = call_name(x).split(".")[-1]
            if nm in STREAM_STAGES:
                continue
            r = repo.resolve_call(j[0], x)
            if r is None and isinstance(x.func, ast.Attribute) and isinstance(x.func.value, ast.Name) and x.func.value.id == "self":
                rr = repo.class_attr(m, cls, x.func.attr)
                r = (rr[0], rr[1].name + "." + x.func.attr, rr[2]) if rr else None
            if r and isinstance(r[2], ast.FunctionDef):
                f2 = r[2]
                # files the lines it is given into a mapping keyed by something read from them, then walks the mapping
                maps = {n.targets[0].id for n in ast.walk(f2) if isinstance(n, ast.Assign) and isinstance(n.targets[0], ast.Name) and isinstance(n.value, ast.Call)
                        and call_name(n.value) in ("odict", "dict", "OrderedDict", "defaultdict", "collections.defaultdict") or
                        isinstance(n, ast.Assign) and isinstance(n.targets[0], ast.Name) and isinstance(n.value, ast.Dict)}
                files = [n for n in ast.walk(f2) if (isinstance(n, ast.Call) and isinstance(n.func, ast.Attribute) and n.func.attr == "setdefault" and norm(n.func.value) in maps) or
                         (isinstance(n, ast.Assign) and isinstance(n.targets[0], ast.Subscript) and norm(n.targets[0].value) in maps)]
                walks = [n for n in ast.walk(f2) if isinstance(n, ast.For) and any(isinstance(y, ast.Name) and y.id in maps for y in ast.walk(n.iter))]
                if files and walks:
                    bad = (x, f2)
        if bad:
            c.violated("C04.R8", repo.loc(j[0], bad[0]), f"{j[1].name}.join({','.join(vns)})", f"the rendered lines pass through `{norm(bad[0])[:50]}`, which files them into a mapping and "
                       "re-emits them group by group: rows of a block that follow one of its sub-blocks are moved in front of it, so the text does not parse back to the same ordered tree",
                       key_text="regrouped")
        else:
            c.holds("C04.R8", repo.loc(j[0], j[2]), f"{j[1].name}.join({','.join(vns)})", "stream order kept")
