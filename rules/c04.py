"""C04 -- vendor text and config trees round-trip for every supported vendor (structural clauses of the shared machinery)."""
import ast

from sa import guards as G
from sa.flow import GuardMap, Provenance, Typestate
from sa.repo import AnchorError, call_name, calls_in, dotted, norm, walk_no_nested, kwarg
from sa.vendors import load_vendors
from rules.c09 import formatter_classes

TAB = "annet.annlib.tabparser"


def run(c):
    c.explanation = ("Clauses of the block machinery every vendor shares, decided on the AST: class-hierarchy resolution of join/_blocks per vendor formatter, typestate pairing of "
                     "BlockBegin/BlockEnd in every blocks_and_context, indentation following the markers, provenance of the splitter handed to parse_to_tree at every production "
                     "call site, role flow of RouterOS section paths across the recursion, and freshness of the formatter a vendor hands out.")
    c.decides = ("configs are rendered from the block stream with is_patch=False (no block-exit words); BlockBegin/BlockEnd are paired on every path; indentation follows the markers; "
                 "the parser gets the split of the device's own formatter; RouterOS section headers carry the full path of the enclosing section; make_formatter returns a fresh object")
    c.does_not_decide = "every vendor-specific syntax half (Juniper braces/semicolons, Nokia configure{} wrapper, Cisco exit-address-family re-indent, RouterOS leaf syntax) and equality on values"
    r1(c)
    r2(c)
    r3(c)
    r4(c)
    r5(c)


def r1(c):
    repo = c.repo
    c.rule("C04.R1", "for every vendor's formatter class the resolved join obtains its rows from self._blocks(config, is_patch=False) (directly or through _indented_blocks); "
                     "BlockExitFormatter emits the exit statement only under is_patch (with is_patch=True in join every block would gain a quit/exit child)")
    tm = repo.module(TAB)
    fc = formatter_classes(repo)
    c.floor("C04.R1", "formatter classes", len(fc), 12)
    seen = set()
    for name, (m, cls, vns) in sorted(fc.items()):
        j = repo.class_attr(m, cls, "join")
        if not j or not isinstance(j[2], ast.FunctionDef):
            raise AnchorError(f"{name}.join not resolvable")
        fn = j[2]
        if id(fn) in seen:
            c.holds("C04.R1", repo.loc(m, cls), f"{name}({','.join(vns)})", f"inherits {j[1].name}.join", trivial=True)
            continue
        seen.add(id(fn))
        ok = False
        for call in calls_in(fn):
            if norm(call.func) == "self._blocks":
                v = kwarg(call, "is_patch", 1)
                ok = isinstance(v, ast.Constant) and v.value is False
            elif norm(call.func) == "self._indented_blocks":
                ib = repo.class_attr(m, cls, "_indented_blocks")
                for c2 in calls_in(ib[2]):
                    if norm(c2.func) == "self._blocks":
                        v = kwarg(c2, "is_patch", 1)
                        ok = isinstance(v, ast.Constant) and v.value is False
        c.check("C04.R1", ok, repo.loc(j[0], fn), f"{j[1].name}.join", "join does not render the block stream with is_patch=False: rendered configs contain block-exit words that parse back as rows",
                key_text="join-is_patch")
    be = repo.func(TAB, "BlockExitFormatter.blocks_and_context")
    gm = GuardMap(be)
    ex = [x for x in calls_in(be) if norm(x.func) == "self.block_exit"]
    ok = len(ex) == 1 and G.implies(gm.formula(ex[0]), G.Atom("is_patch"))
    c.check("C04.R1", ok, repo.loc(tm, be), "BlockExitFormatter/exit-only-in-patch", "block exit statements are emitted for configs as well", key_text="exit-config")


def r2(c):
    repo = c.repo
    c.rule("C04.R2", "block markers are paired: in every implementation of blocks_and_context each yielded BlockBegin is followed, after the descent into the sub-tree, by exactly one "
                     "BlockEnd on every path (depth counter returns to its entry value and never goes negative) — an unpaired marker makes the following siblings children of the block")
    tm = repo.module(TAB)
    impls = [(q, d) for q, d in tm.defs.items() if isinstance(d, ast.FunctionDef) and d.name == "blocks_and_context"
             and any(isinstance(n, ast.Yield) and "BlockBegin" in norm(n) for n in walk_no_nested(d))]
    c.floor("C04.R2", "blocks_and_context implementations yielding markers", len(impls), 2)
    for q, fn in impls:
        c.count("functions")
        bad = []

        def on_stmt(node, st, ts):
            if isinstance(node, ast.Expr) and isinstance(node.value, ast.Yield) and isinstance(node.value.value, ast.Tuple) and node.value.value.elts:
                first = norm(node.value.value.elts[0])
                if first == "BlockBegin":
                    return [min(st + 1, 3)]
                if first == "BlockEnd":
                    if st - 1 < 0:
                        bad.append(("negative", node))
                    return [max(st - 1, -1)]
            return [st]
        ts = Typestate(on_stmt)
        res = ts.run(fn.body, 0)
        ends = {rs for k in ("fall", "return") for (rs, _f) in res[k]}
        ok = ends <= {0} and not bad
        c.check("C04.R2", ok, repo.loc(tm, fn), q, f"paths leave the function with marker depth {sorted(ends)} (expected 0 only){' / BlockEnd before BlockBegin' if bad else ''}", key_text="unpaired")


def r3(c):
    repo = c.repo
    c.rule("C04.R3", "indentation follows the markers: _indent_blocks increases the level on BlockBegin, decreases it on BlockEnd and prefixes every row with self._indent * level; "
                     "every production caller of parse_to_tree hands it the split of the formatter the vendor registry makes for that device/hardware")
    tm = repo.module(TAB)
    fn = repo.func(TAB, "CommonFormatter._indent_blocks")
    c.count("functions")
    gm = GuardMap(fn)
    loops = [n for n in walk_no_nested(fn) if isinstance(n, ast.For) and isinstance(n.target, ast.Name)]
    augs = [n for n in walk_no_nested(fn) if isinstance(n, ast.AugAssign) and isinstance(n.target, ast.Name)]
    if len(loops) != 1 or not augs or len({n.target.id for n in augs}) != 1:
        raise AnchorError("_indent_blocks: the loop over the block stream / the level counter not found")
    E, L = loops[0].target.id, augs[0].target.id

    def ren(s):
        return {f"{E} is BlockBegin": "begin", f"BlockBegin is {E}": "begin", f"{E} is BlockEnd": "end", f"BlockEnd is {E}": "end"}.get(s, s)
    env = G.GuardEnv(rename=ren)
    begin, end = G.Atom("begin"), G.Atom("end")
    inc = [n for n in augs if isinstance(n.op, ast.Add)]
    dec = [n for n in augs if isinstance(n.op, ast.Sub)]
    ok = len(inc) == 1 and len(dec) == 1 and len(augs) == 2 and norm(inc[0].value) == "1" and norm(dec[0].value) == "1"
    if ok:
        ok = G.equivalent(gm.formula(inc[0], env), begin) and G.equivalent(gm.formula(dec[0], env), G.And(G.Not(begin), end))
    ys = [n for n in walk_no_nested(fn) if isinstance(n, ast.Yield)]
    yg = [gm.formula(y, env) for y in ys]
    # where the indented form `self._indent * level + row` is built and which yield passes it on
    indented = []
    for n in walk_no_nested(fn):
        if isinstance(n, ast.BinOp) and isinstance(n.op, ast.Add) and norm(n).replace(" ", "") in (f"self._indent*{L}+{E}", f"{L}*self._indent+{E}"):
            st = gm.stmt(n)
            if isinstance(st, ast.Assign) and isinstance(st.targets[0], ast.Name):
                g = gm.formula(st, env)
                if any(isinstance(y.value, ast.Name) and y.value.id == st.targets[0].id and G.implies(g, f) for y, f in zip(ys, yg)):
                    indented.append(g)
            elif isinstance(st, ast.Expr) and st.value in ys:
                indented.append(gm.formula(st, env))
    ok = ok and bool(indented) and G.equivalent(G.Or(*indented), G.And(G.Not(begin), G.Not(end)))
    c.check("C04.R3", ok, repo.loc(tm, fn), "_indent_blocks", "the indentation level is not +1 on BlockBegin / -1 on BlockEnd / prefix on rows", key_text="indent")
    once = all(not G.satisfiable(G.And(yg[i], yg[j])) for i in range(len(yg)) for j in range(i + 1, len(yg)))
    c.check("C04.R3", bool(ys) and G.equivalent(G.Or(*yg), G.T) and once and all(gm.in_loop(y) for y in ys), repo.loc(tm, fn), "_indent_blocks/yield-all",
            "not every element of the block stream is passed on exactly once", key_text="indent-yield")
    # parse_to_tree callers
    sites = []
    for m, q, f in repo.all_functions():
        if m.name.startswith("annet.annlib.rbparser") or m.name == TAB:
            continue
        for call in calls_in(f):
            if call_name(call).split(".")[-1] == "parse_to_tree" and repo.enclosing_func(call) is f:
                sites.append((m, q, f, call))
    c.floor("C04.R3", "parse_to_tree call sites", len(sites), 5)
    for m, q, f, call in sites:
        sp = kwarg(call, "splitter", 1)
        pv = Provenance(f)
        ok = False
        detail = norm(sp) if sp is not None else "nothing"
        if isinstance(sp, ast.Attribute) and sp.attr == "split":
            for x in [sp.value] + pv.origin_calls(sp.value, through_calls=False):
                xs = norm(x)
                if "make_formatter(" in xs:
                    ok = True
            if not ok and isinstance(sp.value, ast.Name):
                # a formatter handed in as parameter (library helpers: filter_acl) is the caller's own formatter
                if any(d.kind == "param" for d in pv.rd.defs(sp.value)):
                    ok = True
                    detail += " (formatter parameter)"
        c.check("C04.R3", ok, repo.loc(m, call), f"{m.name.split('.', 1)[-1]}:{q}/parse_to_tree(splitter=)", f"the text is split by `{detail}`, which is not the split of a formatter made by the vendor "
                "registry for this hardware: the tree would be built with another vendor's block syntax", key_text="splitter")


def r4(c):
    repo = c.repo
    c.rule("C04.R4", "RouterOS section paths accumulate: in both traversals of RosFormatter — blocks_and_context (join) and cmd_paths (patch) — the prefix put in front of a nested "
                     "section's word is the path the enclosing invocation computed for itself and handed down (cmd_paths: the _prev argument is the caller's block_cmd; "
                     "blocks_and_context: the `current` of the FormatterContext built at the recursive call), not the path of the level above")
    tm = repo.module(TAB)
    fn = repo.func(TAB, "RosFormatter.blocks_and_context")
    c.count("functions", 2)
    # what is handed down
    rec = [x for x in calls_in(fn) if norm(x.func) == "self.blocks_and_context"]
    if len(rec) != 1:
        raise AnchorError("RosFormatter.blocks_and_context: recursive call not found")
    ctx = kwarg(rec[0], "context", 2)
    ok = isinstance(ctx, ast.Call) and call_name(ctx) == "FormatterContext"
    cur = kwarg(ctx, "current") if ok else None
    par = kwarg(ctx, "parent") if ok else None
    path_var = cur.elts[0].id if isinstance(cur, ast.Tuple) and isinstance(cur.elts[0], ast.Name) else None
    c.check("C04.R4", ok and path_var is not None and norm(par) == "context", repo.loc(tm, rec[0]), "RosFormatter.blocks_and_context/hand-down",
            "the recursive call does not hand its own section path down as FormatterContext(parent=context, current=(<path>, ...))", key_text="hand-down")
    if path_var:
        # how is the path built:  f"{<prefix>} {row}"  -- the prefix must read this level's context (context.row / context.current[0]), not context.parent.*
        defs = [n for n in walk_no_nested(fn) if isinstance(n, ast.Assign) and norm(n.targets[0]) == path_var]
        prefixes = []
        for d in defs:
            if isinstance(d.value, ast.JoinedStr):
                for v in d.value.values:
                    if isinstance(v, ast.FormattedValue) and norm(v.value) != "row":
                        prefixes.append((d, norm(v.value)))
        ok = bool(prefixes) and all(p in ("context.row", "context.current[0]") for _, p in prefixes)
        c.check("C04.R4", ok, repo.loc(tm, prefixes[0][0] if prefixes else fn), "RosFormatter.blocks_and_context/prefix",
                f"a nested section is prefixed with `{prefixes[0][1] if prefixes else '?'}`; the path handed down for this level is context.row (FormatterContext.current) — "
                "context.parent.row is the level above, so '/ip firewall filter' is printed as '/ip filter' and 'ip -> address' as '/address'", key_text="prefix-level")
    cp = repo.func(TAB, "RosFormatter.cmd_paths")
    rec = [x for x in calls_in(cp) if norm(x.func) == "self.cmd_paths"]
    ok = len(rec) == 1 and len(rec[0].args) >= 2
    if ok:
        handed = norm(rec[0].args[1])
        defs = [n for n in walk_no_nested(cp) if isinstance(n, ast.Assign) and norm(n.targets[0]) == handed and isinstance(n.value, ast.JoinedStr)]
        pre = {norm(v.value) for d in defs for v in d.value.values if isinstance(v, ast.FormattedValue)} - {"key"}
        ok = bool(defs) and pre == {"_prev"}
    c.check("C04.R4", ok, repo.loc(tm, cp), "RosFormatter.cmd_paths/prefix", "cmd_paths does not extend the caller's own path (_prev) by the section word", key_text="cmd-prefix")
    fcx = repo.cls(TAB, "FormatterContext")
    rowp = [st for st in fcx.body if isinstance(st, ast.FunctionDef) and st.name == "row"]
    ok = bool(rowp) and "self.current" in norm(rowp[0]) and "[0]" in norm(rowp[0])
    c.check("C04.R4", ok, repo.loc(tm, fcx), "FormatterContext.row", "FormatterContext.row is not the first element of `current`", key_text="ctx-row")


def r5(c):
    repo = c.repo
    c.rule("C04.R5", "every vendor's make_formatter returns a freshly constructed formatter built from the arguments of this call (no instance kept on the vendor object): a cached "
                     "instance made with other options (indent='') would silently become the default renderer for later calls")
    vendors = load_vendors(repo)
    for vn, v in sorted(vendors.items()):
        mf = [st for st in v.cls.body if isinstance(st, ast.FunctionDef) and st.name == "make_formatter"]
        if not mf:
            raise AnchorError(f"vendor {vn}: make_formatter not found")
        fn = mf[0]
        rets = [n for n in walk_no_nested(fn) if isinstance(n, ast.Return)]
        fresh = all(isinstance(r.value, ast.Call) and not isinstance(r.value.func, ast.Attribute) or
                    (isinstance(r.value, ast.Call) and isinstance(r.value.func, ast.Attribute) and norm(r.value.func.value) not in ("self",)) for r in rets) and bool(rets)
        fresh = fresh and all(isinstance(r.value, ast.Call) and (dotted(r.value.func) or "").endswith("Formatter") for r in rets)
        stores = [n for n in walk_no_nested(fn) if isinstance(n, (ast.Assign, ast.AugAssign)) and any(isinstance(t, ast.Attribute) and norm(t.value) in ("self", "cls", "type(self)")
                                                                                                   for t in (n.targets if isinstance(n, ast.Assign) else [n.target]))]
        c.check("C04.R5", fresh and not stores, repo.loc(v.mod, fn), f"{v.cls.name}.make_formatter", f"make_formatter {'stores an instance on the vendor object' if stores else 'does not return a fresh Formatter(**kwargs)'}: "
                "the result of make_formatter() depends on earlier calls in the process", key_text="cached-formatter")
    c.floor("C04.R5", "vendors", len(vendors), 14)
