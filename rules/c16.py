"""C16 -- file mode and device mode compute the same diff and the same patch (structural clauses)."""
import ast

from sa import guards as G
from sa.flow import GuardMap, Provenance
from sa.repo import ordk, AnchorError, call_name, calls_in, dotted, norm, walk_no_nested, kwarg
from sa.util import bind_args
from sa.vendors import load_rule_texts
from rules.c18 import resolve_rulebook_function

API = "annet.api"
RENDERERS = ("gen_pre_as_diff", "_print_pre_as_diff")
BUILDERS = ("patch_from_pre", "make_patch")


def unchanged_readers(repo):
    """registered %logic functions that read the UNCHANGED bucket (directly, by iterating the diff, or via rule_pre/root_pre)"""
    out = []
    seen = set()
    for t in load_rule_texts(repo):
        if t.kind != "rul":
            continue
        for r in t.all_rows():
            name = r.params.get("logic")
            if not name or name in seen:
                continue
            seen.add(name)
            res = resolve_rulebook_function(repo, name)
            if not res:
                continue
            m, q, fn = res
            how = reads_unchanged(repo, m, fn)
            if how:
                out.append((name, m, fn, how))
    return out, len(seen)


def reads_unchanged(repo, m, fn, depth=0, seen=None):
    seen = seen if seen is not None else set()
    if id(fn) in seen or depth > 3:
        return None
    seen.add(id(fn))
    params = [a.arg for a in fn.args.args + fn.args.kwonlyargs]
    for n in walk_no_nested(fn):
        if isinstance(n, ast.Attribute) and n.attr == "UNCHANGED" and isinstance(n.value, ast.Name) and n.value.id == "Op":
            par = getattr(n, "_parent", None)
            if isinstance(par, ast.Subscript) and par.slice is n and isinstance(par.ctx, ast.Load):
                return f"reads [Op.UNCHANGED] at line {n.lineno}"
        if isinstance(n, ast.Name) and isinstance(n.ctx, ast.Load) and n.id in ("rule_pre", "root_pre") and n.id in params:
            par = getattr(n, "_parent", None)
            # forwarding it untouched to common.default(**kwargs) does not count; a subscript/attribute/iteration does
            if isinstance(par, (ast.Subscript, ast.Attribute)) or isinstance(par, ast.For):
                return f"reads {n.id} at line {n.lineno}"
        if isinstance(n, ast.Call) and isinstance(n.func, ast.Attribute) and n.func.attr in ("items", "values") and isinstance(n.func.value, ast.Name) \
                and len(params) > 2 and n.func.value.id == params[2]:
            return f"iterates every bucket of the diff at line {n.lineno}"
        if isinstance(n, ast.Call):
            r = repo.resolve_call(m, n)
            if r and isinstance(r[2], ast.FunctionDef) and r[0].name.startswith("annet.rulebook"):
                h = reads_unchanged(repo, r[0], r[2], depth + 1, seen)
                if h:
                    return f"via {r[1]}: {h}"
    return None


def run(c):
    c.explanation = ("Discovery of the registered logic functions that read UNCHANGED rows, flow-sensitive provenance of make_pre's argument in both front ends, "
                     "stage/flag agreement of the two front ends, and an ownership rule for the `pre` object consumed by the patch builder.")
    c.decides = ("no strip_unchanged upstream of make_pre on a path feeding the patch builder while any logic reads UNCHANGED; both front ends build the patch through "
                 "patch_from_pre with the hardware's rulebook and the same flags; a pre consumed by the patch builder is not rendered afterwards")
    c.does_not_decide = "equality of outputs on all inputs"
    readers, n_logic = unchanged_readers(c.repo)
    c.analysed["logic_functions"] = n_logic
    c.analysed["unchanged_readers"] = [r[0] + ": " + r[3] for r in readers]
    r1(c, readers, n_logic)
    r2(c)
    r3(c)
    r4(c)
    r5(c)
    r6(c)


def r1(c, readers, n_logic):
    repo = c.repo
    c.rule("C16.R1", "let U = registered %logic functions that read the UNCHANGED bucket (directly, by iterating the diff, or through rule_pre/root_pre). If U is not empty, "
                     "then in every function where a make_pre result flows into patch_from_pre/make_patch, the argument of that make_pre does not derive from strip_unchanged")
    if n_logic < 40:
        raise AnchorError(f"C16.R1: only {n_logic} %logic references resolved (expected >= 40)")
    if not readers:
        c.holds("C16.R1", "annet/rulebook", "U=∅", "no registered logic reads UNCHANGED: stripping before make_pre is harmless")
        return
    m = repo.module(API)
    sites = 0
    for q, fn0 in m.defs.items():
        if not isinstance(fn0, ast.FunctionDef):
            continue
        # canonical form: a tail shared by the front ends (one helper doing make_diff -> make_pre -> patch -> strip) is read in each of them
        fn = repo.func(API, q)
        nested = {id(x) for d in ast.walk(fn) if isinstance(d, (ast.FunctionDef, ast.Lambda)) and d is not fn for x in ast.walk(d)}
        builders = [x for x in calls_in(fn) if call_name(x).split(".")[-1] in BUILDERS and id(x) not in nested]
        mps = [x for x in calls_in(fn) if call_name(x).split(".")[-1] == "make_pre" and id(x) not in nested]
        if not builders or not mps:
            continue
        pv = Provenance(fn)
        for b in builders:
            a0 = b.args[0] if b.args else kwarg(b, "pre")
            if a0 is None:
                continue
            feeding = [x for x in pv.origin_calls(a0, through_calls=False) if x in mps]
            for mp in feeding:
                sites += 1
                arg = mp.args[0] if mp.args else kwarg(mp, "diff")
                names = [call_name(x).split(".")[-1] for x in pv.origin_calls(arg, through_calls=True)] if arg is not None else []
                c.check("C16.R1", "strip_unchanged" not in names, repo.loc(m, mp), f"{q}/make_pre->{call_name(b).split('.')[-1]}",
                        f"the pre handed to the patch builder is made from a diff that went through strip_unchanged, but {len(readers)} registered logic function(s) read UNCHANGED rows "
                        f"(e.g. {readers[0][0]}: {readers[0][3]}): this front end builds a different patch than the one that strips afterwards", key_text="strip-before-pre")
                # the rows that reach make_pre are all the rows of the diff: no filtering comprehension / filter() between make_diff and make_pre (rows of one rule key are
                # grouped across the whole level, so dropping UNCHANGED siblings row by row is stripping under another name)
                if arg is not None:
                    filt = [n_ for k_, n_ in pv.origins(arg, through_calls=False)
                            if (k_ == "comp" and any(g.ifs for g in n_.generators)) or (k_ == "call" and call_name(n_) in ("filter", "itertools.filterfalse", "filterfalse"))]
                    # the same in loop form (the canonical form of a filtering comprehension): `N = []; for r in D: if <cond>: N.append(r)`
                    if isinstance(arg, ast.Name):
                        for lp in [x for x in ast.walk(fn) if isinstance(x, ast.For) and id(x) not in nested]:
                            for cond in [y for y in ast.walk(lp) if isinstance(y, ast.If)]:
                                for ap in ast.walk(cond):
                                    if isinstance(ap, ast.Call) and isinstance(ap.func, ast.Attribute) and ap.func.attr in ("append", "extend", "add") \
                                            and isinstance(ap.func.value, ast.Name) and ap.func.value.id == arg.id:
                                        filt.append(cond)
                    c.check("C16.R1", not filt, repo.loc(m, filt[0] if filt else mp), f"{q}/make_pre-gets-every-row",
                            f"the diff handed to make_pre is filtered first (`{(norm(filt[0].test) if isinstance(filt[0], ast.If) else norm(filt[0]))[:90] if filt else ''}`), but {len(readers)} registered logic function(s) read the "
                            "UNCHANGED rows of their rule key: this front end builds a different patch than the one that hands over the whole diff", key_text="filtered-before-pre")
    c.floor("C16.R1", "make_pre->patch builder flows", sites, 2)


def r2(c):
    repo = c.repo
    c.rule("C16.R2", "stage agreement: _read_old_new_diff_patch and _diff_and_patch both obtain the diff from make_diff(old, new, rb, ...) with rb = get_rulebook(<hw>), build the "
                     "patch through patch_from_pre(pre, hw, rb, add_comments, ...), return the stripped diff; constants passed to patch_from_pre by the file front end equal the "
                     "defaults the device front end uses (do_commit)")
    m = repo.module(API)
    dev = repo.func(API, "_diff_and_patch")
    fil = repo.func(API, "_read_old_new_diff_patch")
    pfp = repo.func(API, "patch_from_pre")
    c.count("functions", 3)
    seqs = {}
    for name, fn in (("device", dev), ("file", fil)):
        calls = sorted([x for x in calls_in(fn) if call_name(x).split(".")[-1] in ("make_diff", "make_pre", "patch_from_pre", "make_patch", "strip_unchanged", "get_rulebook")],
                       key=ordk)
        seqs[name] = [call_name(x).split(".")[-1] for x in calls]
        pcs = [x for x in calls if call_name(x).split(".")[-1] == "patch_from_pre"]
        ok = len(pcs) == 1 and "make_patch" not in seqs[name]
        c.check("C16.R2", ok, repo.loc(m, fn), f"{name}/builds-through-patch_from_pre", f"{name} front end does not build its patch through patch_from_pre (ref-tracked ordering would be skipped)", key_text=f"{name}-pfp")
        if not ok:
            continue
        b = bind_args(pcs[0], pfp)
        pv = Provenance(fn)
        ok = "rb" in b and any(call_name(x).endswith("get_rulebook") for x in pv.origin_calls(b["rb"], through_calls=False)) or \
            ("rb" in b and pv.derives_from_param(b["rb"], "rb", False))
        c.check("C16.R2", ok, repo.loc(m, pcs[0]), f"{name}/rulebook", "patch is not built with the rulebook of the hardware", key_text=f"{name}-rb")
        mds = [x for x in calls if call_name(x).split(".")[-1] == "make_diff"]
        ok = len(mds) == 1 and len(mds[0].args) >= 3 and "rb" in b and norm(mds[0].args[2]) == norm(b["rb"])
        c.check("C16.R2", ok, repo.loc(m, fn), f"{name}/same-rb", "diff and patch do not use one rulebook", key_text=f"{name}-same-rb")
        # returned diff is stripped
        rets = [n for n in walk_no_nested(fn) if isinstance(n, ast.Return) and isinstance(n.value, ast.Tuple)]
        ok = False
        for r in rets:
            for e in r.value.elts:
                names = [call_name(x).split(".")[-1] for x in pv.origin_calls(e, through_calls=True)]
                if "strip_unchanged" in names and "make_diff" in names and "make_pre" not in names:
                    ok = True
        c.check("C16.R2", ok, repo.loc(m, fn), f"{name}/returns-stripped-diff", "the diff returned for display is not strip_unchanged(make_diff(...))", key_text=f"{name}-ret")
    # flag agreement
    pcs = [x for x in calls_in(fil) if call_name(x).split(".")[-1] == "patch_from_pre"]
    if pcs:
        b = bind_args(pcs[0], pfp)
        dflt = {}
        a = dev.args
        for arg, d in zip(a.args[len(a.args) - len(a.defaults):], a.defaults):
            dflt[arg.arg] = d
        pa = pfp.args
        pd = {arg.arg: d for arg, d in zip(pa.args[len(pa.args) - len(pa.defaults):], pa.defaults)}
        for p in ("do_commit",):
            passed = b.get(p, pd.get(p))
            want = dflt.get(p)
            ok = passed is not None and want is not None and norm(passed) == norm(want)
            c.check("C16.R2", ok, repo.loc(m, pcs[0]), f"file/patch_from_pre({p}=)", f"file front end builds its patch with {p}={norm(passed) if passed is not None else None} while the device front end "
                    f"defaults to {norm(want) if want is not None else None}: force_commit entries (e.g. `undo bgp` + commit) would differ between the two", key_text=f"flag-{p}")
        for p in ("add_comments",):
            e = b.get(p)
            ok = isinstance(e, ast.Name) and e.id == p
            c.check("C16.R2", ok, repo.loc(m, pcs[0]), f"file/patch_from_pre({p}=)", f"{p} is not forwarded", key_text=f"flag-{p}")


def r3(c):
    repo = c.repo
    c.rule("C16.R3", "ownership: make_patch hands each bucket dict of `pre` to logic functions that write to it (common.permanent moves REMOVED into AFFECTED, ...); so a `pre` "
                     "passed to patch_from_pre/make_patch must not be rendered for the operator (gen_pre_as_diff, _print_pre_as_diff) afterwards on the same path, including "
                     "through a return value")
    m = repo.module(API)
    # (a) functions returning a consumed pre: tuple index -> True
    consumed_ret = {}
    for q, fn in m.defs.items():
        if not isinstance(fn, ast.FunctionDef):
            continue
        builders = [x for x in calls_in(fn) if call_name(x).split(".")[-1] in BUILDERS and repo.enclosing_func(x) is fn]
        if not builders:
            continue
        pv = Provenance(fn)
        consumed_defs = set()
        for b in builders:
            a0 = b.args[0] if b.args else kwarg(b, "pre")
            if isinstance(a0, ast.Name):
                for d in pv.rd.defs(a0):
                    consumed_defs.add((d, b))
        # same function: rendered later
        for x in calls_in(fn):
            if call_name(x).split(".")[-1] in RENDERERS and x.args and isinstance(x.args[0], ast.Name):
                for d in pv.rd.defs(x.args[0]):
                    for (cd, ln) in consumed_defs:
                        if d == cd and ordk(x) > ordk(ln):
                            c.violated("C16.R3", repo.loc(m, x), f"{q}/render-after-build", f"`{norm(x)[:60]}` renders a pre that was handed to the patch builder at line {ln.lineno}", key_text="same-fn")
        for r in [n for n in walk_no_nested(fn) if isinstance(n, ast.Return) and n.value is not None]:
            elts = r.value.elts if isinstance(r.value, ast.Tuple) else [r.value]
            for i, e in enumerate(elts):
                if isinstance(e, ast.Name):
                    for d in pv.rd.defs(e):
                        for (cd, ln) in consumed_defs:
                            if d == cd and ordk(r) > ordk(ln):
                                consumed_ret.setdefault(q, set()).add(i if isinstance(r.value, ast.Tuple) else None)
    c.analysed["functions_returning_consumed_pre"] = {k: sorted(str(x) for x in v) for k, v in consumed_ret.items()}
    n_sites = 0
    for q, fn in m.defs.items():
        if not isinstance(fn, ast.FunctionDef):
            continue
        pv = None
        for x in calls_in(fn):
            if call_name(x).split(".")[-1] not in RENDERERS or not x.args:
                continue
            if repo.enclosing_func(x) is not fn:
                continue
            n_sites += 1
            pv = pv or Provenance(fn)
            a0 = x.args[0]
            bad = None
            if isinstance(a0, ast.Name):
                for d in pv.rd.defs(a0):
                    if d.kind == "unpack" and isinstance(d.value, ast.Call):
                        callee = call_name(d.value).split(".")[-1]
                        if callee in consumed_ret and d.index and d.index[0] in consumed_ret[callee]:
                            bad = (callee, d.index[0])
            c.check("C16.R3", bad is None, repo.loc(m, x), f"{q}/{call_name(x).split('.')[-1]}",
                    f"the pre rendered here is element {bad[1] if bad else ''} of {bad[0] if bad else ''}(...), which already passed it to the patch builder: logic functions have "
                    "rewritten its buckets (e.g. a removed block shown as affected)", key_text="render-consumed-pre")
    c.floor("C16.R3", "render sites in annet.api", n_sites, 1)


def r4(c):
    from sa.effects import Effects
    repo = c.repo
    c.rule("C16.R4", "the un-stripped diff reaches the patch builder intact: in both front ends, no function that may mutate its argument (may-mutate analysis through aliases, "
                     "element iteration and resolved callees) receives the make_diff result before make_pre(<that diff>) is evaluated for patch_from_pre — in-place pruning of "
                     "nested unchanged rows would reach the patch through the shared child lists")
    m = repo.module(API)
    eff = Effects(repo, mode="contents", max_depth=5)
    for name, q in (("device", "_diff_and_patch"), ("file", "_read_old_new_diff_patch")):
        fn = repo.func(API, q)
        c.count("functions")
        pv = Provenance(fn)
        mds = [x for x in calls_in(fn) if call_name(x).split(".")[-1] == "make_diff"]
        pcs = [x for x in calls_in(fn) if call_name(x).split(".")[-1] == "patch_from_pre"]
        if len(mds) != 1 or len(pcs) != 1:
            # C16.R2 reports a front end that does not build through make_diff / patch_from_pre
            continue
        # the make_pre call feeding patch_from_pre
        pre_arg = kwarg(pcs[0], "pre", 0)
        pre_calls = [x for x in ([pre_arg] + pv.origin_calls(pre_arg, through_calls=False)) if isinstance(x, ast.Call) and call_name(x).split(".")[-1] == "make_pre"] if pre_arg is not None else []
        if not pre_calls:
            raise AnchorError(f"{q}: make_pre feeding patch_from_pre not found")
        use_line = min(ordk(x) for x in pre_calls)
        bad = None
        for x in calls_in(fn):
            if x is mds[0] or x in pre_calls or ordk(x) >= use_line:
                continue
            for i, a in enumerate(x.args):
                if isinstance(a, ast.Name) and any(o is mds[0] for o in pv.origin_calls(a, through_calls=False)) and isinstance(pv.resolve_alias(a), ast.Call) and pv.resolve_alias(a) is mds[0]:
                    r = repo.resolve_call(m, x)
                    if r and isinstance(r[2], ast.FunctionDef):
                        ps = [p.arg for p in r[2].args.args]
                        mut = eff.mutated_params(r[0], r[1], r[2])
                        if i < len(ps) and ps[i] in mut:
                            bad = (x, r[1], mut[ps[i]][0])
        if bad:
            x, callee, site = bad
            c.violated("C16.R4", repo.loc(m, x), f"{name}/diff-intact-until-patch", f"`{norm(x)[:50]}` runs before the patch is built and {callee} may mutate the diff it is given "
                       f"({site.how[:80]} at {site.at()}): the nested rows it removes are gone from the diff make_pre then reads for the patch", key_text="mutated-before-patch")
        else:
            c.holds("C16.R4", repo.loc(m, fn), f"{name}/diff-intact-until-patch", "nothing that may mutate the diff touches it before the patch is built")


def r5(c):
    repo = c.repo
    c.rule("C16.R5", "the two front ends diff the same trees for the same hardware: old and new reach make_diff in _diff_and_patch through apply_acl only and in "
                     "_read_old_new_diff_patch untouched — no further rewriting (ordering, completion, normalisation) in one front end only; and the file front end keeps the "
                     "hardware it was given: _read_old_new_hw hands _read_device_config args.hw itself (or HardwareView(args.hw, ...)), never a reduction of it (vendor only)")
    m = repo.module(API)
    for name, q, allowed in (("device", "_diff_and_patch", {"apply_acl"}), ("file", "_read_old_new_diff_patch", set())):
        fn = repo.func(API, q)
        c.count("functions")
        pv = Provenance(fn)
        mds = [x for x in calls_in(fn) if call_name(x).split(".")[-1] == "make_diff"]
        if len(mds) != 1 or len(mds[0].args) < 2:
            continue   # C16.R2 reports a front end without its make_diff
        for i, side in ((0, "old"), (1, "new")):
            extra = [call_name(x) for x in pv.origin_calls(mds[0].args[i], through_calls=False) if call_name(x).split(".")[-1] not in allowed]
            c.check("C16.R5", not extra, repo.loc(m, mds[0]), f"{name}/make_diff({side})", f"in the {name} front end `{side}` passes through {extra} before make_diff; the other front end "
                    "does not do that — entries come in another order (ties in the patch sort follow diff order) or differ outright", key_text=f"{name}-{side}-rewritten")
    fn = repo.func(API, "_read_old_new_hw")
    c.count("functions")
    pv = Provenance(fn)
    rd = [x for x in calls_in(fn) if call_name(x) == "_read_device_config" and len(x.args) >= 2]
    if len(rd) < 2:
        raise AnchorError("_read_old_new_hw: _read_device_config(path, hw) calls not found")
    for x in rd:
        extra = [call_name(y) for y in pv.origin_calls(x.args[1], through_calls=False) if call_name(y).split(".")[-1] not in ("HardwareView",)]
        srcs = {norm(o) for k, o in pv.origins(x.args[1], through_calls=False) if k in ("attr", "other", "param")}
        c.check("C16.R5", not extra, repo.loc(m, x), "_read_old_new_hw/hw-as-given", f"the hardware handed to _read_device_config comes through {extra}: a model given with --hw is reduced "
                "(e.g. to its vendor), so model-conditional rules (%if hw....) and logic are evaluated for another hardware than in device mode", key_text="hw-reduced")


def r6(c):
    repo = c.repo
    c.rule("C16.R6", "the file workers compute the diff / the patch for every pair of configuration files they are given: in file_diff_worker and file_patch_worker the call of "
                     "_read_old_new_diff_patch is reached whenever the pair is not a pair of directories — no further shortcut (byte-identical files, equal texts, equal trees). "
                     "Equal inputs do not mean an empty patch: logic functions may emit commands from unchanged rows (C16.R1's set U), and the device front end has no such shortcut")
    m = repo.module(API)
    n = 0
    for q in ("file_diff_worker", "file_patch_worker"):
        fn = repo.func(API, q)
        c.count("functions")
        gm = GuardMap(fn)
        calls = [x for x in calls_in(fn) if call_name(x).split(".")[-1] == "_read_old_new_diff_patch"]
        if not calls:
            # the work may be delegated once more; follow one level of same-module helpers
            for x in calls_in(fn):
                r_ = repo.resolve_call(m, x)
                if r_ and isinstance(r_[2], ast.FunctionDef) and r_[0] is m and any(call_name(y).split(".")[-1] == "_read_old_new_diff_patch" for y in calls_in(r_[2])):
                    calls.append(x)
        if not calls:
            raise AnchorError(f"{q}: the call of _read_old_new_diff_patch not found")
        for x in calls:
            n += 1
            f = gm.formula(x, G.GuardEnv())
            extra = sorted(a for a in G.atoms(f) if "isdir" not in a)
            c.check("C16.R6", not extra, repo.loc(m, x), f"{q}/always-computed", f"the diff/patch of a file pair is computed only under {G.show(f)}: pairs for which [{', '.join(extra)[:120]}] "
                    "decides otherwise are skipped, while the device front end would still emit the commands the logic functions derive from unchanged rows", key_text="shortcut")
    c.floor("C16.R6", "file worker computations", n, 2)
