"""C13 -- JSON fragments stay inside their pointers; JSON patches reproduce the target."""
import ast

from sa.effects import Effects, is_copier
from sa.flow import GuardMap, Provenance
from sa import guards as G
from sa.repo import AnchorError, call_name, calls_in, dotted, norm, walk_no_nested

MOD = "annet.annlib.jsontools"
REORDER = {"sorted", "reversed", "set", "frozenset", "random.shuffle", "shuffle"}


def run(c):
    repo = c.repo
    m = repo.module(MOD)
    c.explanation = ("Structural necessary conditions of the JSON fragment/patch laws, decided on the AST of "
                     "annet/annlib/jsontools.py with reaching definitions, taint and may-mutate effects.")
    c.decides = ("R1 the RFC 6902 operation list returned by make_patch is the library's list in the library's order; "
                 "R2 JSON pointers built from document keys are escaped; R3 apply_json_fragment/apply_acl_filters/"
                 "make_patch do not mutate their inputs; R4 writes/deletions in apply_json_fragment only happen at "
                 "pointers resolved from the ACL item")
    c.does_not_decide = "the three equalities on documents (value-level)"
    c.assumptions = ["jsonpatch.make_patch returns operations in an order that applies sequentially (RFC 6902)",
                     "JsonPointer.set(doc, v) and dict.pop mutate doc; JsonPatch.apply copies its argument",
                     "jsonpointer.escape / JsonPointer.from_parts produce valid reference tokens"]
    c.rule("C13.R1", "RFC 6902 operations are order-sensitive: the value returned by jsontools.make_patch derives "
                     "from jsonpatch.make_patch(old,new).patch through no reordering primitive (sorted, .sort, reversed, set)")
    c.rule("C13.R2", "a string handed to jsonpointer.JsonPointer(...) that derives from document keys passes through "
                     "jsonpointer.escape or is built with JsonPointer.from_parts")
    c.rule("C13.R3", "apply_json_fragment does not mutate old/new_fragment, apply_acl_filters does not mutate content, "
                     "make_patch mutates neither argument (aliases followed; copy.deepcopy is the shield)")
    c.rule("C13.R4", "in apply_json_fragment every write (pointer.set) and deletion (pop/del) on the result document uses "
                     "a pointer that derives from _resolve_json_pointers(<the ACL item of the loop>, ...); every ACL item runs both steps "
                     "(no early continue/break/return in the per-item iteration)")
    c.count("modules", 1)

    # ---------------- R1
    fn = repo.func(MOD, "make_patch")
    c.count("functions")
    prov = Provenance(fn)
    rets = [n for n in walk_no_nested(fn) if isinstance(n, ast.Return) and n.value is not None]
    if not rets:
        raise AnchorError("C13.R1: make_patch has no return value")
    for r in rets:
        origin_calls = prov.origin_calls(r.value, through_calls=True)
        lib = [x for x in origin_calls if call_name(x).endswith("make_patch") or call_name(x).endswith("from_diff")
               or call_name(x).endswith("JsonPatch")]
        if not lib:
            raise AnchorError("C13.R1: returned value does not derive from jsonpatch.make_patch/JsonPatch.from_diff")
        bad = [x for x in origin_calls if call_name(x) in REORDER or call_name(x).split(".")[-1] in ("sorted", "reversed")]
        # in-place sorts of a name that flows into the return
        for n in walk_no_nested(fn):
            if isinstance(n, ast.Call) and isinstance(n.func, ast.Attribute) and n.func.attr in ("sort", "reverse") \
                    and isinstance(n.func.value, ast.Name):
                names = {x.id for x in ast.walk(r.value) if isinstance(x, ast.Name)}
                if n.func.value.id in names:
                    bad.append(n)
        c.count("call_sites", len(origin_calls))
        if bad:
            b = bad[0]
            c.violated("C13.R1", repo.loc(m, b), "make_patch/return",
                       f"return value passes through {call_name(b)}(...): operations are re-ordered "
                       f"(e.g. '/a/10' sorts before '/a/9'; add/remove on one array no longer apply in sequence)",
                       key_text="reorder:" + call_name(b).split(".")[-1])
        else:
            c.holds("C13.R1", repo.loc(m, r), "make_patch/return", "library order preserved")

    # ---------------- R2
    n_sinks = 0
    for q, d in m.defs.items():
        if not isinstance(d, ast.FunctionDef):
            continue
        pv = None
        for call in calls_in(d):
            cn = call_name(call)
            if not (cn.endswith("JsonPointer") and call.args):
                continue
            n_sinks += 1
            pv = pv or Provenance(d)

            def sanit(cl):
                n_ = call_name(cl)
                return n_.endswith("escape") or n_.endswith("from_parts") or n_.endswith("quote")
            tainted = None
            for k, n in pv.origins(call.args[0], through_calls=True, stop_at=sanit):
                if k == "for":
                    it = n.value
                    txt = norm(it) if it is not None else ""
                    if isinstance(it, ast.Call) and isinstance(it.func, ast.Attribute) and it.func.attr in ("keys", "items"):
                        tainted = f"loop variable `{n.name}` over `{txt}`"
                        break
            if tainted:
                c.violated("C13.R2", repo.loc(m, call), f"{q}/JsonPointer(...)",
                           f"`{norm(call)[:80]}` is built from raw document keys ({tainted}) without "
                           f"jsonpointer.escape / JsonPointer.from_parts: a key containing '/' or '~' gives a wrong or invalid pointer",
                           key_text="unescaped-keys")
            else:
                c.holds("C13.R2", repo.loc(m, call), f"{q}/JsonPointer(...)", "no unescaped document key reaches the constructor")
    for q, d in m.defs.items():
        if isinstance(d, ast.FunctionDef):
            for call in calls_in(d):
                if call_name(call).endswith("from_parts"):
                    n_sinks += 1
                    c.holds("C13.R2", repo.loc(m, call), f"{q}/JsonPointer.from_parts", "escaping constructor")
    c.floor("C13.R2", "pointer constructions", n_sinks, 2)

    # ---------------- R3
    eff = Effects(repo)
    for q, protected in (("apply_json_fragment", ["old", "new_fragment"]), ("apply_acl_filters", ["content"]),
                         ("make_patch", ["old", "new"])):
        f = repo.func(MOD, q)
        c.count("functions")
        pn = [a.arg for a in f.args.args]
        for p in protected:
            if p not in pn:
                raise AnchorError(f"C13.R3: {q} has no parameter {p}")
        mut = eff.mutated_params(m, q, f)
        for p in protected:
            if p in mut:
                s = mut[p][0]
                c.violated("C13.R3", s.at(), f"{q}/{p}", f"input `{p}` may be mutated: {s.how}", key_text=f"mutates:{p}")
            else:
                c.holds("C13.R3", repo.loc(m, f), f"{q}/{p}", "no mutation reaches the parameter")
    # the shield itself must exist where a mutation of the working copy happens
    f = repo.func(MOD, "apply_json_fragment")
    shields = [x for x in calls_in(f) if is_copier(x)]
    c.analysed["shields"] = len(shields)

    # ---------------- R4
    pv = Provenance(f)
    acl_loops = [st for st in walk_no_nested(f) if isinstance(st, ast.For) and isinstance(st.iter, ast.Name) and st.iter.id == "acl"]
    if not acl_loops:
        raise AnchorError("C13.R4: loop over `acl` not found in apply_json_fragment")
    acl_var = acl_loops[0].target.id if isinstance(acl_loops[0].target, ast.Name) else None
    sites = 0
    for call in calls_in(f):
        fa = call.func
        if not isinstance(fa, ast.Attribute):
            continue
        kind = None
        if fa.attr == "set" and len(call.args) == 2:
            kind, ptr_expr = "write", fa.value
        elif fa.attr in ("pop", "popitem", "clear", "remove"):
            kind, ptr_expr = "delete", fa.value
        if not kind:
            continue
        sites += 1
        ocalls = pv.origin_calls(ptr_expr, through_calls=True)
        res = [x for x in ocalls if call_name(x).endswith("_resolve_json_pointers")]
        ok = bool(res) and all(isinstance(x.args[0], ast.Name) and x.args[0].id == acl_var for x in res if x.args)
        # a deletion must not iterate the document's own keys
        raw = [n for k, n in pv.origins(ptr_expr, through_calls=True)
               if k == "for" and isinstance(n.value, ast.Call) and isinstance(n.value.func, ast.Attribute)
               and n.value.func.attr in ("keys", "items", "values")]
        c.check("C13.R4", ok and not raw, repo.loc(m, call), f"apply_json_fragment/{kind}:{norm(call)[:50]}",
                f"{kind} `{norm(call)[:70]}` is not confined to pointers resolved from the ACL item "
                f"({'iterates the document itself' if raw else 'no _resolve_json_pointers(acl_item, ...) in its provenance'})",
                key_text=kind)
    for st in walk_no_nested(f):
        if isinstance(st, ast.Delete):
            sites += 1
            for t in st.targets:
                if isinstance(t, ast.Subscript):
                    ocalls = pv.origin_calls(t.value, through_calls=True) + pv.origin_calls(t.slice, through_calls=True)
                    ok = any(call_name(x).endswith("_resolve_json_pointers") for x in ocalls)
                    c.check("C13.R4", ok, repo.loc(m, st), "apply_json_fragment/del", f"`{norm(st)}` not confined to ACL-resolved pointers", key_text="del")
    c.floor("C13.R4", "write/delete sites", sites, 2)
    # every ACL item goes through both steps: nothing leaves the iteration early
    from sa.flow import GuardMap
    from sa import guards as G
    gm = GuardMap(f)
    for n in walk_no_nested(acl_loops[0]):
        if isinstance(n, (ast.Continue, ast.Break, ast.Return)) and gm.in_loop(n) and gm.in_loop(n)[-1] is acl_loops[0]:
            c.violated("C13.R4", repo.loc(m, n), "apply_json_fragment/acl-loop-exit",
                       f"`{norm(n)}` under [{G.show(gm.formula(n))}] leaves the iteration of an ACL item early: the write or the "
                       "delete-what-the-fragment-lacks step is skipped for that pattern", key_text="loop-exit")
            break
    else:
        c.holds("C13.R4", repo.loc(m, acl_loops[0]), "apply_json_fragment/acl-loop-complete", "no early exit from the per-ACL-item iteration")

    r5(c)
    r1b(c)
    r6(c)
    r7(c)


def none_sentinel_sites(fn):
    """lookups into a document with a None default (or dict.get without default) whose result is then tested for None-ness / truth: JSON null is taken for 'absent'"""
    pv = Provenance(fn)
    out = []
    lookups = []
    for x in calls_in(fn):
        f = x.func
        if isinstance(f, ast.Attribute) and f.attr in ("resolve", "get") and 1 <= len(x.args) <= 2:
            if len(x.args) == 2 and isinstance(x.args[1], ast.Constant) and x.args[1].value is None:
                lookups.append(x)
            elif len(x.args) == 1 and f.attr == "get" and not x.keywords and not (isinstance(f.value, ast.Name) and f.value.id in ("pointer", "ptr")):
                lookups.append(x)
        elif call_name(x).endswith("resolve_pointer") and len(x.args) == 3 and isinstance(x.args[2], ast.Constant) and x.args[2].value is None:
            lookups.append(x)
    if not lookups:
        return out
    for n in ast.walk(fn):
        if isinstance(n, ast.Compare) and len(n.ops) == 1 and isinstance(n.ops[0], (ast.Is, ast.IsNot, ast.Eq, ast.NotEq)) \
                and isinstance(n.comparators[0], ast.Constant) and n.comparators[0].value is None:
            v = pv.resolve_alias(n.left)
            if any(v is lk for lk in lookups) or (isinstance(n.left, ast.Name) and any(d.value is lk for d in pv.rd.defs(n.left) for lk in lookups)):
                lk = [lk for lk in lookups if v is lk or isinstance(n.left, ast.Name)][0]
                # "create the container if it is missing or null": `if d.get(k) is None: d[k] = <new>` replaces a null by design (the explicit spelling is
                # `k not in d or d[k] is None`); nothing is *read* as absent there
                holder = getattr(n, "_parent", None)
                while holder is not None and not isinstance(holder, (ast.If, ast.stmt)):
                    holder = getattr(holder, "_parent", None)
                if isinstance(holder, ast.If) and holder.test is n and isinstance(n.ops[0], ast.Is) and isinstance(lk.func, ast.Attribute) and lk.func.attr == "get" and len(lk.args) == 1 \
                        and len(holder.body) == 1 and isinstance(holder.body[0], ast.Assign) and isinstance(holder.body[0].targets[0], ast.Subscript) \
                        and norm(holder.body[0].targets[0].value) == norm(lk.func.value) and norm(holder.body[0].targets[0].slice) == norm(lk.args[0]):
                    continue
                out.append((n, lk))
    return out


def r5(c):
    import os
    repo = c.repo
    c.rule("C13.R5", "JSON null is a value: in annlib.jsontools the presence of a pointer in a document is never decided by looking it up with a None default (pointer.resolve(doc, "
                     "None), resolve_pointer(doc, p, None), dict.get) and testing the result against None — a null stored exactly at an ACL pointer would count as absent (not "
                     "removed / not set). Expected count 0; a positive fixture under /verif/fixtures proves the matcher alive")
    m = repo.module(MOD)
    fx = os.path.join(os.path.dirname(os.path.dirname(os.path.abspath(__file__))), "fixtures", "c13_none_sentinel.py")
    tree = ast.parse(open(fx).read())
    for n_ in ast.walk(tree):
        for ch in ast.iter_child_nodes(n_):
            ch._parent = n_
    nfx = sum(len(none_sentinel_sites(f)) for f in tree.body if isinstance(f, ast.FunctionDef))
    if nfx < 3:
        raise AnchorError(f"C13.R5: positive fixture matched only {nfx} constructs (matcher dead)")
    c.analysed["fixture_matches"] = nfx
    n = 0
    for q, d in m.defs.items():
        if not isinstance(d, ast.FunctionDef):
            continue
        n += 1
        c.count("functions")
        sites = none_sentinel_sites(repo.func(MOD, q, canon=False))
        for node, lk in sites:
            c.violated("C13.R5", repo.loc(m, node), f"{q}/presence-by-None", f"`{norm(node)[:70]}` decides presence from `{norm(lk)[:50]}`: a document holding null at that pointer is treated as "
                       "not having it, so filtering / applying a fragment drops or keeps the key contrary to the ACL", key_text="none-sentinel")
        if not sites:
            c.holds("C13.R5", repo.loc(m, d), f"{q}/presence-by-None", "no None-sentinel presence test", trivial=True)
    c.floor("C13.R5", "jsontools functions", n, 6)


def r1b(c):
    repo = c.repo
    c.rule("C13.R1b", "jsontools.make_patch returns the library's operations themselves: it builds no operation of its own whose value is read from the original documents "
                      "(paths of later operations refer to the document as already changed by the earlier ones, so a value resolved against `old`/`new` is the wrong element)")
    m = repo.module(MOD)
    fn = repo.func(MOD, "make_patch", canon=False)
    pv = Provenance(fn)
    ps = [a.arg for a in fn.args.args]
    own = [d for d in ast.walk(fn) if isinstance(d, ast.Dict) and any(isinstance(k, ast.Constant) and k.value == "op" for k in d.keys)]
    bad = None
    for d in own:
        for k, v in zip(d.keys, d.values):
            if isinstance(k, ast.Constant) and k.value == "value":
                if any(pv.derives_from_param(v, p, through_calls=True) for p in ps):
                    bad = (d, v)
    if bad:
        c.violated("C13.R1b", repo.loc(m, bad[0]), "make_patch/synthesised-operation", f"make_patch builds `{norm(bad[0])[:70]}` with a value read from the original document (`{norm(bad[1])[:40]}`): "
                   "after earlier add/remove operations on the same array the index in `from` denotes another element, so applying the patch does not give `new`", key_text="stale-value")
    else:
        c.holds("C13.R1b", repo.loc(m, fn), "make_patch/synthesised-operation", "no operation built from the original documents" if not own else "synthesised operations carry no document value")


def r6(c):
    from sa.flow import GuardMap
    from sa import guards as G
    repo = c.repo
    c.rule("C13.R6", "an empty or falsy JSON document is still a document, and Python equality is not JSON equality: (a) RunGeneratorResult.new_json_fragment_files chooses the "
                     "document a generator's fragment is merged into by presence (in / is None), never by the truth value of a document (`a or b or {}` restarts from the old "
                     "file when an earlier generator legitimately emptied it); (b) the two callers that turn (old, new) JSON documents into a patch — api._patch_worker and "
                     "PCDeployerJob.parse_result — call jsontools.make_patch for every fragment file, not guarded by `old == new` (1 == True, 2 == 2.0: a type-only change "
                     "would be skipped by one front end and sent by the other)")
    RES = "annet.generators.result"
    rm = repo.module(RES)
    fn = repo.func(RES, "RunGeneratorResult.new_json_fragment_files")
    c.count("functions", 3)
    pv = Provenance(fn)
    calls = [x for x in calls_in(fn) if call_name(x).endswith("apply_json_fragment")]
    if len(calls) != 1:
        raise AnchorError("new_json_fragment_files: apply_json_fragment call not found")
    prev = calls[0].args[0] if calls[0].args else None
    for k in calls[0].keywords:
        if k.arg in ("old", "previous", "previous_config"):
            prev = k.value
    bad = None
    todo, seen_ = [prev], set()
    while todo:
        e = todo.pop()
        if e is None or id(e) in seen_:
            continue
        seen_.add(id(e))
        for y in ast.walk(e):
            if isinstance(y, ast.BoolOp) and isinstance(y.op, ast.Or) and len(y.values) >= 2:
                bad = y
            if isinstance(y, ast.IfExp) and isinstance(y.test, (ast.Name, ast.Subscript, ast.Call)) and not isinstance(y.test, ast.Compare):
                bad = y
            if isinstance(y, ast.Name):
                for d in pv.rd.defs(y):
                    if d.value is not None and d.kind == "assign":
                        todo.append(d.value)
    c.check("C13.R6", bad is None, repo.loc(rm, bad if bad is not None else calls[0]), "new_json_fragment_files/previous-by-presence", f"the document the fragment is merged into is chosen by "
            f"`{norm(bad)[:70] if bad is not None else ''}` (truth value): an intermediate document that is empty counts as missing", key_text="doc-truthiness")
    am = repo.module("annet.api")
    for q in ("_patch_worker", "PCDeployerJob.parse_result"):
        f2 = repo.func("annet.api", q)
        gm = GuardMap(f2)
        mp = [x for x in calls_in(f2) if call_name(x).endswith("make_patch") and len(x.args) + len(x.keywords) == 2]
        if not mp:
            raise AnchorError(f"{q}: jsontools.make_patch(old, new) call not found")
        for x in mp:
            two = list(x.args) + [k.value for k in x.keywords]
            a, b = norm(two[0]), norm(two[1])
            eqs = []
            for t, pol in gm.of(x):
                for cm_ in ast.walk(t):
                    if isinstance(cm_, ast.Compare) and len(cm_.ops) == 1 and isinstance(cm_.ops[0], (ast.Eq, ast.NotEq)) and {norm(cm_.left), norm(cm_.comparators[0])} == {a, b}:
                        eqs.append(cm_)
            c.check("C13.R6", not eqs, repo.loc(am, x), f"{q}/make_patch-unconditional", f"make_patch({a}, {b}) is skipped when `{norm(eqs[0]) if eqs else ''}`: documents that differ only in "
                    "scalar types compare equal in Python, so no patch is produced although the JSON differs", key_text="py-equality")


def r7(c):
    repo = c.repo
    c.rule("C13.R7", "applying a fragment never destroys what the ACL does not name: (a) _ensure_pointer_exists creates an empty object only where the parent member is missing or "
                     "null — an existing array or scalar on the way is left alone (replacing `PORTS: [...]` by `{'0': ...}` loses every other member of its items); (b) the "
                     "delete-what-the-fragment-lacks step of apply_json_fragment removes object members only: every deletion there is under isinstance(<parent>, dict) — array "
                     "elements addressed by position shift when their predecessors are deleted in the same pass, so a second application deletes more (not idempotent)")
    m = repo.module(MOD)
    fn = repo.func(MOD, "_ensure_pointer_exists")
    c.count("functions", 2)
    gm = GuardMap(fn)
    stores = [n for n in walk_no_nested(fn) if isinstance(n, ast.Assign) and isinstance(n.targets[0], ast.Subscript) and isinstance(n.value, (ast.Dict, ast.Call))
              and (isinstance(n.value, ast.Dict) and not n.value.keys or isinstance(n.value, ast.Call) and call_name(n.value) in ("dict", "odict", "OrderedDict") and not n.value.args)]
    if not stores:
        raise AnchorError("_ensure_pointer_exists: creation of the empty object not found")
    for st in stores:
        D, K = norm(st.targets[0].value), norm(st.targets[0].slice)

        def ren(s_):
            t = s_.replace(" ", "").replace('"', "'")
            if t in (f"{K}in{D}", f"{K}in{D}.keys()"):
                return "present"
            if t in (f"{D}[{K}]isNone", f"{D}.get({K})isNone", f"{D}.get({K},None)isNone"):
                return "null_or_absent"
            if t in (f"{D}[{K}]isnotNone", f"{D}.get({K})isnotNone"):
                return "has_value"
            return s_
        f = gm.formula(st, G.GuardEnv(rename=ren), alias=True)
        # under `present` the only admissible reason is a null value
        ok = G.implies(f, G.Or(G.Not(G.Atom("present")), G.Atom("null_or_absent"), G.Not(G.Atom("has_value")))) and \
            (("present" in G.atoms(f)) or ("null_or_absent" in G.atoms(f)) or ("has_value" in G.atoms(f)))
        c.check("C13.R7", ok, repo.loc(m, st), "_ensure_pointer_exists/create-only-if-missing-or-null", f"`{norm(st)}` runs under {G.show(f)}, which is not `member missing or null`: an existing array "
                "or scalar that lies on the pointer's way is replaced by an empty object and everything it held outside the ACL is lost", key_text="create-guard")
    af = repo.func(MOD, "apply_json_fragment")
    gma = GuardMap(af)
    dels = []
    for n in walk_no_nested(af):
        if isinstance(n, ast.Delete) and any(isinstance(t, ast.Subscript) for t in n.targets):
            dels.append((n, n.targets[0].value))
        elif isinstance(n, ast.Call) and isinstance(n.func, ast.Attribute) and n.func.attr in ("pop", "remove", "popitem", "clear") and gma.in_loop(n):
            dels.append((n, n.func.value))
    if not dels:
        raise AnchorError("apply_json_fragment: the deletion of members absent from the fragment not found")
    for n, recv in dels:
        R = norm(recv)
        f = gma.formula(n, G.GuardEnv(rename=lambda s_, R=R: "is_object" if s_.replace(" ", "") in (f"isinstance({R},dict)", f"isinstance({R},(dict,odict))", f"isinstance({R},Mapping)") else s_))
        c.check("C13.R7", G.implies(f, G.Atom("is_object")), repo.loc(m, n), "apply_json_fragment/delete-object-members-only", f"`{norm(n)[:60]}` deletes from `{R}` under {G.show(f)}, "
                "which does not imply that it is an object: array items are addressed by position, deleting them one by one in pointer order shifts the rest, and applying the "
                "same fragment again removes further items", key_text="delete-non-object")
