"""small shared helpers for the rule modules"""
from __future__ import annotations

import ast
from typing import Dict, Iterable, List, Optional, Sequence, Tuple

from .repo import AnchorError, Module, Repo, call_name, calls_in, dotted, norm, walk_no_nested, kwarg

FuncT = (ast.FunctionDef, ast.AsyncFunctionDef)


def calls_to(repo: Repo, mod: Module, scope: ast.AST, targets: Sequence[str]) -> List[ast.Call]:
    """calls inside `scope` whose callee resolves to (or, unresolved, is named like) one of `targets`
    (plain function names, e.g. 'make_diff')"""
    out = []
    for c in calls_in(scope):
        r = repo.resolve_call(mod, c)
        if r is not None and isinstance(r[2], FuncT + (ast.ClassDef,)):
            q = r[1]
            if q.split(".")[-1] in targets or q in targets:
                out.append(c)
            continue
        nm = call_name(c).split(".")[-1]
        if nm in targets:
            out.append(c)
    return out


def one(items: Sequence, what: str):
    if len(items) != 1:
        raise AnchorError(f"expected exactly one {what}, found {len(items)}")
    return items[0]


def arg_of(call: ast.Call, fn: Optional[ast.FunctionDef], pname: str, pos_hint: Optional[int] = None) -> Optional[ast.AST]:
    """the argument expression bound to parameter `pname` of `fn` at `call` (keyword or positional)"""
    for k in call.keywords:
        if k.arg == pname:
            return k.value
    pos = pos_hint
    if fn is not None:
        names = [a.arg for a in fn.args.posonlyargs + fn.args.args]
        if names and names[0] in ("self", "cls") and isinstance(call.func, ast.Attribute):
            names = names[1:]
        if pname in names:
            pos = names.index(pname)
        else:
            pos = None
    if pos is not None and pos < len(call.args) and not any(isinstance(a, ast.Starred) for a in call.args[:pos + 1]):
        return call.args[pos]
    return None


def bind_args(call: ast.Call, fn: ast.FunctionDef) -> Dict[str, ast.AST]:
    """parameter name -> argument expression, following Python's binding rules for positional/keyword args"""
    names = [a.arg for a in fn.args.posonlyargs + fn.args.args]
    if names and names[0] in ("self", "cls") and isinstance(call.func, ast.Attribute):
        names = names[1:]
    out: Dict[str, ast.AST] = {}
    for i, a in enumerate(call.args):
        if isinstance(a, ast.Starred):
            break
        if i < len(names):
            out[names[i]] = a
    for k in call.keywords:
        if k.arg:
            out[k.arg] = k.value
    return out


def is_name(e: Optional[ast.AST], name: str) -> bool:
    return isinstance(e, ast.Name) and e.id == name


def const_str(e: Optional[ast.AST]) -> Optional[str]:
    if isinstance(e, ast.Constant) and isinstance(e.value, str):
        return e.value
    return None


def stmts_of(fn: ast.AST) -> List[ast.stmt]:
    return [n for n in walk_no_nested(fn) if isinstance(n, ast.stmt) and n is not fn]


def op_const(e: ast.AST) -> Optional[str]:
    """Op.ADDED -> 'ADDED' (also accepts the string constants)"""
    if isinstance(e, ast.Attribute) and isinstance(e.value, ast.Name) and e.value.id == "Op":
        return e.attr
    if isinstance(e, ast.Constant) and isinstance(e.value, str) and e.value.upper() in ("ADDED", "REMOVED", "AFFECTED", "MOVED", "UNCHANGED"):
        return e.value.upper()
    return None


def as_lambda(repo: Repo, mod: Module, e: Optional[ast.AST]) -> Optional[ast.Lambda]:
    """a callable written in a table either as a lambda or as the name of a module-level function whose (canonical) body is one
    returned expression: both come back as an ast.Lambda (module-level string/number constants substituted)"""
    if e is None:
        return None
    if isinstance(e, ast.Lambda):
        return e
    if isinstance(e, ast.Name) and isinstance(mod.defs.get(e.id), ast.FunctionDef):
        f = repo.canon(mod, mod.defs[e.id])
        body = [s for s in f.body if not (isinstance(s, ast.Expr) and isinstance(s.value, ast.Constant))]
        if len(body) == 1 and isinstance(body[0], ast.Return) and body[0].value is not None and not f.args.vararg and not f.args.kwarg:
            lam = ast.Lambda(args=f.args, body=body[0].value)
            ast.copy_location(lam, mod.defs[e.id])
            return lam
    return None


def inlined_into(repo: Repo, mod: Module, qual: str, hosts) -> bool:
    """True when function `qual` of `mod` is only called from functions listed in `hosts` ((module name, qualname) pairs, same module) and the
    canonical form of each of those no longer contains a call to it: its body is analysed where the canonicaliser inlined it"""
    me = mod.defs.get(qual)
    if me is None:
        return False
    callers = set()
    for q2, f2 in mod.defs.items():
        if isinstance(f2, FuncT) and f2 is not me:
            for x2 in calls_in(f2):
                r2 = repo.resolve_call(mod, x2)
                if r2 and r2[2] is me:
                    callers.add((mod.name, q2))
    if not callers:
        return False
    for k in callers:
        if k not in hosts:
            # a helper of a helper: accept when that one is itself inlined into a host
            if not inlined_into(repo, mod, k[1], hosts):
                return False
            continue
        if any(call_name(x3).split(".")[-1] == qual.split(".")[-1] for x3 in calls_in(repo.func(k[0], k[1]))):
            return False
    return True


def acl_scratch_write(repo: Repo, wn: ast.AST) -> bool:
    """is the primitive write `wn` the one exempt scratch store of ACL matching, <rule>['attrs']['match'] = ... ?  The base is resolved through local aliases
    (`attrs = rule['attrs']; attrs['match'] = ...` is the same write)"""
    from .flow import Provenance
    tgt = wn.targets[0] if isinstance(wn, ast.Assign) and len(wn.targets) == 1 else None
    if not (isinstance(tgt, ast.Subscript) and isinstance(tgt.slice, ast.Constant) and tgt.slice.value == "match"):
        return False
    base = tgt.value
    if norm(base).replace('"', "'").endswith("['attrs']"):
        return True
    fn = repo.enclosing_func(wn)
    if fn is None or not isinstance(base, ast.Name):
        return False
    try:
        v = Provenance(fn).resolve_alias(base)
    except Exception:
        return False
    return norm(v).replace('"', "'").endswith("['attrs']")
