"""E9 -- abstract rows: what a generator function can emit, as trees of token lists over
Const(word) / UNKNOWN, and a three-valued match of such rows against an ACL literal."""
from __future__ import annotations

import ast
from typing import Dict, List, Optional, Sequence, Tuple

from . import dsl
from .pytexts import const_text
from .repo import AnchorError, Module, Repo, call_name, norm, walk_no_nested

UNK = None   # unknown token(s)


class ARow:
    """one abstract emitted row: tokens (str constants or UNK), children, source node"""
    __slots__ = ("toks", "children", "node", "mod", "indent")

    def __init__(self, toks: List[Optional[str]], node: ast.AST, mod: Module, indent: int = 0):
        self.indent = indent
        self.toks = toks
        self.children: List["ARow"] = []
        self.node = node
        self.mod = mod

    def text(self) -> str:
        return " ".join(t if t is not None else "…" for t in self.toks)


def words_of_const(s: str) -> List[str]:
    return s.split()


def fstring_tokens(e: ast.JoinedStr) -> List[Optional[str]]:
    """'cost {x}' -> ['cost', UNK]; 'rt{x}' -> [UNK] (a hole glued to text makes that word unknown)"""
    parts: List[Tuple[str, Optional[str]]] = []
    buf = ""
    out: List[Optional[str]] = []
    pending_unknown = False
    for v in e.values:
        if isinstance(v, ast.Constant):
            s = str(v.value)
            i = 0
            while i < len(s):
                if s[i].isspace():
                    if buf or pending_unknown:
                        out.append(UNK if pending_unknown else buf)
                    buf, pending_unknown = "", False
                    i += 1
                else:
                    buf += s[i]
                    i += 1
        else:
            pending_unknown = True
    if buf or pending_unknown:
        out.append(UNK if pending_unknown else buf)
    return out


class Extractor:
    def __init__(self, repo: Repo, max_depth: int = 6):
        self.repo = repo
        self.max_depth = max_depth
        self.unresolved: List[str] = []

    # ----- tokens of one yielded value
    def value_alternatives(self, mod: Module, e: ast.AST, fn: ast.AST, depth: int = 0) -> List[List[Optional[str]]]:
        """alternatives of token lists for a yielded expression"""
        if isinstance(e, ast.Tuple):
            alts: List[List[Optional[str]]] = [[]]
            for el in e.elts:
                if isinstance(el, ast.Starred):
                    alts = [a + [UNK] for a in alts]
                    continue
                sub = self.value_alternatives(mod, el, fn, depth)
                alts = [a + s for a in alts for s in sub][:64]
            return alts
        t = const_text(e) if not isinstance(e, ast.JoinedStr) else None
        if t is not None and "\x00" not in t:
            if "\n" in t:
                return [["\n" + t]]   # multi-line literal: handled by caller
            return [words_of_const(t)]
        if isinstance(e, ast.JoinedStr):
            return [fstring_tokens(e)]
        if isinstance(e, ast.BinOp) and isinstance(e.op, ast.Mod) and isinstance(e.left, ast.Constant) and isinstance(e.left.value, str):
            # "foo %s bar" % x : keep constant words, holes unknown
            s = e.left.value
            toks: List[Optional[str]] = []
            for w in s.split():
                toks.append(UNK if "%" in w else w)
            return [toks]
        if isinstance(e, ast.Call) and isinstance(e.func, ast.Attribute) and e.func.attr == "format" and isinstance(e.func.value, ast.Constant) \
                and isinstance(e.func.value.value, str):
            toks = [UNK if "{" in w else w for w in e.func.value.value.split()]
            return [toks]
        if isinstance(e, ast.IfExp):
            return self.value_alternatives(mod, e.body, fn, depth) + self.value_alternatives(mod, e.orelse, fn, depth)
        if isinstance(e, ast.Call) and depth < self.max_depth:
            r = self.repo.resolve_call(mod, e)
            if r and isinstance(r[2], ast.FunctionDef) and not any(isinstance(n, (ast.Yield, ast.YieldFrom)) for n in walk_no_nested(r[2])):
                alts = []
                for n in walk_no_nested(r[2]):
                    if isinstance(n, ast.Return) and n.value is not None:
                        alts.extend(self.value_alternatives(r[0], n.value, r[2], depth + 1))
                if alts:
                    return alts[:64]
        if isinstance(e, ast.Name) and isinstance(fn, ast.FunctionDef):
            for a in fn.args.args + fn.args.kwonlyargs:
                if a.arg == e.id and a.annotation is not None and isinstance(a.annotation, ast.Subscript) and norm(a.annotation.value).endswith("Literal"):
                    sl = a.annotation.slice
                    vals = sl.elts if isinstance(sl, ast.Tuple) else [sl]
                    if all(isinstance(v, ast.Constant) and isinstance(v.value, str) for v in vals):
                        return [words_of_const(v.value) for v in vals]
        if isinstance(e, ast.Name) and fn is not None:
            # a local bound once to a constant / f-string
            defs = [n for n in walk_no_nested(fn) if isinstance(n, ast.Assign) and len(n.targets) == 1 and isinstance(n.targets[0], ast.Name) and n.targets[0].id == e.id]
            if defs and len(defs) <= 4 and depth < self.max_depth:
                alts = []
                for d in defs:
                    alts.extend(self.value_alternatives(mod, d.value, None, depth + 1))
                if all(a != [UNK] for a in alts):
                    return alts
        return [[UNK]]

    # ----- rows of a function body
    def rows_of(self, mod: Module, fn: ast.FunctionDef, depth: int = 0, _stack: Tuple[int, ...] = ()) -> List[ARow]:
        if id(fn) in _stack or depth > self.max_depth:
            return []
        return self._block(mod, fn, fn.body, depth, _stack + (id(fn),))

    @staticmethod
    def _lead_indent(e: ast.AST) -> int:
        first = None
        if isinstance(e, ast.Constant) and isinstance(e.value, str):
            first = e.value
        elif isinstance(e, ast.JoinedStr) and e.values and isinstance(e.values[0], ast.Constant):
            first = str(e.values[0].value)
        elif isinstance(e, ast.Tuple) and e.elts:
            return Extractor._lead_indent(e.elts[0])
        if first is None or "\n" in first:
            return 0
        return len(first) - len(first.lstrip(" "))

    def _emit(self, mod, fn, e: ast.AST, node: ast.AST, depth) -> List[ARow]:
        out = []
        ind = self._lead_indent(e)
        for toks in self.value_alternatives(mod, e, fn, depth):
            if len(toks) == 1 and isinstance(toks[0], str) and toks[0].startswith("\n"):
                out.extend(self._multiline(mod, toks[0], node))
            else:
                out.append(ARow(toks, node, mod, ind))
        return out

    def _multiline(self, mod, text: str, node) -> List[ARow]:
        lines, _ = dsl.read_lines(text, comments=(), mako=False)
        roots: List[ARow] = []
        stack: List[Tuple[int, ARow]] = []
        for ln in lines:
            r = ARow([w if "\x00" not in w else UNK for w in ln.text.split()], node, mod)
            while stack and stack[-1][0] >= ln.indent:
                stack.pop()
            (stack[-1][1].children if stack else roots).append(r)
            stack.append((ln.indent, r))
        return roots

    def _block(self, mod, fn, stmts: Sequence[ast.stmt], depth, stack) -> List[ARow]:
        out: List[ARow] = []
        for st in stmts:
            out.extend(self._stmt(mod, fn, st, depth, stack))
        return self._fold_indented(out)

    @staticmethod
    def _fold_indented(rows: List[ARow]) -> List[ARow]:
        """leading blanks inside a yielded literal are nesting: the generator's text is offside-parsed"""
        if not any(r.indent for r in rows):
            return rows
        roots: List[ARow] = []
        stack: List[ARow] = []
        for r in rows:
            while stack and stack[-1].indent >= r.indent:
                stack.pop()
            if stack and r.indent > 0:
                stack[-1].children = list(stack[-1].children) + [r]
            else:
                roots.append(r)
            stack.append(r)
        return roots

    def _stmt(self, mod, fn, st: ast.stmt, depth, stack) -> List[ARow]:
        if isinstance(st, ast.Expr) and isinstance(st.value, ast.Yield):
            if st.value.value is None:
                return []
            return self._emit(mod, fn, st.value.value, st, depth)
        if isinstance(st, ast.Expr) and isinstance(st.value, ast.YieldFrom):
            return self._from_iterable(mod, fn, st.value.value, st, depth, stack)
        if isinstance(st, (ast.With, ast.AsyncWith)):
            inner = self._block(mod, fn, st.body, depth, stack)
            # nested context managers: innermost last
            for item in reversed(st.items):
                ce = item.context_expr
                if isinstance(ce, ast.Call) and isinstance(ce.func, ast.Attribute) and ce.func.attr in ("block", "block_if", "multiblock", "multiblock_if"):
                    if ce.func.attr in ("block", "block_if"):
                        alts = self.value_alternatives(mod, ast.Tuple(elts=list(ce.args), ctx=ast.Load()), fn, depth)
                        blocks = []
                        for toks in alts:
                            b = ARow(toks, st, mod)
                            b.children = inner
                            blocks.append(b)
                        inner = blocks + (inner if ce.func.attr == "block_if" else [])
                    else:
                        cur = inner
                        for a in reversed(ce.args):
                            alts = self.value_alternatives(mod, a if isinstance(a, ast.Tuple) else ast.Tuple(elts=[a], ctx=ast.Load()), fn, depth)
                            nb = []
                            for toks in alts:
                                b = ARow(toks, st, mod)
                                b.children = cur
                                nb.append(b)
                            cur = nb
                        inner = cur
            return inner
        if isinstance(st, ast.If):
            return self._block(mod, fn, st.body, depth, stack) + self._block(mod, fn, st.orelse, depth, stack)
        if isinstance(st, (ast.For, ast.AsyncFor)):
            rows = []
            # for row in self.helper(...): yield row   /  yield (..., *row)
            it = st.iter
            tgt = st.target.id if isinstance(st.target, ast.Name) else None
            body_rows = self._block(mod, fn, st.body, depth, stack)
            if tgt and isinstance(it, ast.Call):
                r = self.repo.resolve_call(mod, it)
                if r and isinstance(r[2], ast.FunctionDef) and any(isinstance(n, (ast.Yield, ast.YieldFrom)) for n in walk_no_nested(r[2])):
                    # bare `yield row` of the loop variable: substitute the helper's rows
                    bare = [b for b in body_rows if b.toks == [UNK] and isinstance(b.node, ast.Expr) and isinstance(b.node.value, ast.Yield)
                            and isinstance(b.node.value.value, ast.Name) and b.node.value.value.id == tgt]
                    if bare:
                        helper_rows = self.rows_of(r[0], r[2], depth + 1, stack)
                        body_rows = [b for b in body_rows if b not in bare] + helper_rows
            return body_rows + self._block(mod, fn, st.orelse, depth, stack)
        if isinstance(st, ast.While):
            return self._block(mod, fn, st.body, depth, stack)
        if isinstance(st, ast.Try):
            out = self._block(mod, fn, st.body, depth, stack)
            for h in st.handlers:
                out += self._block(mod, fn, h.body, depth, stack)
            return out + self._block(mod, fn, st.orelse, depth, stack) + self._block(mod, fn, st.finalbody, depth, stack)
        if isinstance(st, ast.Match):
            out = []
            for cs in st.cases:
                out += self._block(mod, fn, cs.body, depth, stack)
            return out
        return []

    def _from_iterable(self, mod, fn, it: ast.AST, node, depth, stack) -> List[ARow]:
        if isinstance(it, ast.Call):
            r = self.repo.resolve_call(mod, it)
            if r and isinstance(r[2], ast.FunctionDef):
                return self.rows_of(r[0], r[2], depth + 1, stack)
            self.unresolved.append(f"{mod.rel}:{getattr(it, 'lineno', 0)} {norm(it)[:60]}")
        return [ARow([UNK], node, mod)]


# ------------------------------------------------------------------ matching against an ACL literal
COVERED, NOT_COVERED, UNKNOWN = "covered", "definitely-not", "unknown"


def acl_tree(text: str) -> List[dsl.Row]:
    lines, _ = dsl.read_lines(text, mako=False)
    rows, _ = dsl.build_tree(lines)
    return rows


def match_tokens(toks: List[Optional[str]], acl_row: dsl.Row) -> str:
    """three-valued: does the abstract row start like the ACL row?"""
    atoks = dsl.tokenize_row(acl_row.row)
    i = 0
    for at in atoks:
        if at.cls in (dsl.T_TILDE, dsl.T_ELLIPSIS):
            return COVERED if i <= len(toks) else UNKNOWN
        if i >= len(toks):
            # the emitted row is shorter than the ACL row's mandatory words
            return NOT_COVERED if all(t is not None for t in toks) else UNKNOWN
        t = toks[i]
        if at.cls == dsl.T_WORD:
            if t is None:
                return UNKNOWN
            if t != at.text:
                return NOT_COVERED
        elif at.cls in (dsl.T_STAR, dsl.T_STAR_RE, dsl.T_NAMED, dsl.T_REGEX, dsl.T_TILDE_RE, dsl.T_GLUED_STAR, dsl.T_GLUED_TILDE):
            if at.cls == dsl.T_TILDE_RE:
                return UNKNOWN
            # any single word (regex tokens: cannot decide)
            if at.cls != dsl.T_STAR:
                if t is None:
                    return UNKNOWN
                return UNKNOWN
        i += 1
    return COVERED


def check_row(row: ARow, acl_rows: List[dsl.Row], reverse_prefix: str, inherited_global: List[dsl.Row]):
    """-> (status, matching acl rows). A row is NOT_COVERED only if every candidate definitely mismatches."""
    toks = list(row.toks)
    if toks and toks[0] == reverse_prefix:
        toks = toks[1:]
    cands = list(acl_rows) + list(inherited_global)
    if not cands:
        return NOT_COVERED, []
    best = NOT_COVERED
    hits = []
    for ar in cands:
        if ar.type != "normal":
            continue
        s = match_tokens(toks, ar)
        if s == COVERED:
            hits.append(ar)
            best = COVERED
        elif s == UNKNOWN and best != COVERED:
            best = UNKNOWN
            hits.append(ar)
    return best, hits


def check_tree(rows: List[ARow], acl_rows: List[dsl.Row], reverse_prefix: str, inherited_global: Optional[List[dsl.Row]] = None, path: Tuple[str, ...] = ()):
    """yields (status, row, path) for every abstract row"""
    inherited_global = inherited_global or []
    for r in rows:
        status, hits = check_row(r, acl_rows, reverse_prefix, inherited_global)
        yield status, r, path
        if status == NOT_COVERED:
            continue
        if any(h.params.get("global") in ("1", "true", "True", "yes") for h in hits if status == COVERED):
            continue  # a %global rule covers the whole subtree
        child_acl: List[dsl.Row] = []
        glob = list(inherited_global)
        for h in hits:
            child_acl.extend(h.children)
        glob += [x for x in child_acl if x.params.get("global") in ("1", "true", "True", "yes")]
        if r.children:
            yield from check_tree(r.children, child_acl, reverse_prefix, glob, path + (r.text(),))
