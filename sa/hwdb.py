"""E8d -- model of the device database (annet/annlib/netdev/devdb/data/devdb.json): keys, parent closure,
the addressable-name table (specification of annlib/netdev/db.py's addressing rule) and constant-folded
evaluation of a model string against the regex tree."""
from __future__ import annotations

import collections
import json
import os
import re
from typing import Dict, FrozenSet, List, Optional, Set, Tuple

from .repo import AnchorError, Repo

DEVDB = "annet/annlib/netdev/devdb/data/devdb.json"
Seq = Tuple[str, ...]


class HwDb:
    def __init__(self, repo: Repo):
        p = os.path.join(repo.root, DEVDB)
        if not os.path.isfile(p):
            raise AnchorError(f"{DEVDB} not found")
        with open(p, encoding="utf-8") as f:
            raw = json.load(f)
        self.raw: Dict[str, str] = raw
        self.keys: Dict[Seq, str] = {tuple(k.split(".")): v for k, v in raw.items()}
        self.regex_errors: List[Tuple[str, str]] = []
        self.compiled: Dict[Seq, "re.Pattern"] = {}
        for k, v in self.keys.items():
            try:
                self.compiled[k] = re.compile(v)
            except re.error as e:
                self.regex_errors.append((".".join(k), str(e)))
        # addressing rule (spec): variants of a key = a contiguous run of its components (not including the last)
        # followed by the last component; a variant is addressable only if exactly one key produces it
        cnt: collections.Counter = collections.Counter()
        self.variants: Dict[Seq, Set[Seq]] = {}
        for seq in self.keys:
            vs = set(seq[left:len(seq) - right] + (seq[-1],) for left in range(len(seq)) for right in range(1, len(seq[left:]) + 1))
            self.variants[seq] = vs
            cnt.update(vs)
        self.allowed: Dict[Seq, Set[Seq]] = {seq: {v for v in vs if cnt[v] <= 1} for seq, vs in self.variants.items()}
        self.addressable: Dict[Seq, Seq] = {}
        for seq, vs in self.allowed.items():
            for v in vs:
                self.addressable[v] = seq
        self.ambiguous: Set[Seq] = {v for v, n in cnt.items() if n > 1}

    def missing_parents(self) -> List[str]:
        return [".".join(k) for k in self.keys if len(k) > 1 and k[:-1] not in self.keys]

    def chain_ok(self, chain: Seq) -> Optional[str]:
        """None if every prefix of the attribute chain resolves (HardwareLeaf.__getattr__ is applied step by step);
        else the first failing prefix"""
        for i in range(1, len(chain) + 1):
            if chain[:i] not in self.addressable:
                return ".".join(chain[:i])
        return None

    def true_set_for_key(self, key: Seq) -> Set[Seq]:
        """synthetic model 'exactly this key's chain is true': addressable names of the key and of its ancestors"""
        out: Set[Seq] = set()
        for i in range(1, len(key) + 1):
            out |= self.allowed.get(key[:i], set())
        return out

    def true_keys_for_model(self, model: str) -> Set[Seq]:
        """constant folding of find_true_sequences for a literal model string (nested descent: a key is true iff
        its regex and all its ancestors' regexes are found in the model)"""
        out = set()
        for k in self.keys:
            if all(self.compiled.get(k[:i]) is not None and self.compiled[k[:i]].search(model) for i in range(1, len(k) + 1)):
                out.add(k)
        return out

    def true_set_for_model(self, model: str) -> Set[Seq]:
        out: Set[Seq] = set()
        for k in self.true_keys_for_model(model):
            out |= self.allowed.get(k, set())
        return out

    def eval_chain(self, chain: Seq, true_set: Set[Seq]) -> Optional[bool]:
        if self.chain_ok(chain) is not None:
            return None
        return chain in true_set


# ---- Mako condition grammar actually used:  hw.A.B  and / or / not  parentheses
def eval_cond(cond: str, db: HwDb, true_set: Set[Seq]):
    """evaluate a Mako condition; returns (value|None, list of chains used, error|None)"""
    import ast as _ast
    try:
        tree = _ast.parse(cond.strip(), mode="eval")
    except SyntaxError as e:
        return None, [], f"condition does not parse: {e.msg}"
    chains: List[Seq] = []
    err: List[str] = []

    def chain_of(n):
        parts = []
        while isinstance(n, _ast.Attribute):
            parts.append(n.attr)
            n = n.value
        if isinstance(n, _ast.Name) and n.id == "hw":
            return tuple(reversed(parts))
        return None

    def ev(n):
        if isinstance(n, _ast.BoolOp):
            # short-circuit like Python
            if isinstance(n.op, _ast.And):
                res = True
                for v in n.values:
                    r = ev(v)
                    if r is None:
                        return None
                    if not r:
                        return False
                return res
            for v in n.values:
                r = ev(v)
                if r is None:
                    return None
                if r:
                    return True
            return False
        if isinstance(n, _ast.UnaryOp) and isinstance(n.op, _ast.Not):
            r = ev(n.operand)
            return None if r is None else (not r)
        ch = chain_of(n)
        if ch is not None:
            chains.append(ch)
            bad = db.chain_ok(ch)
            if bad:
                err.append(f"hw.{bad} is not addressable (AttributeError at render time)")
                return None
            return ch in true_set if ch else True
        err.append(f"unsupported expression in Mako condition: {_ast.unparse(n)}")
        return None
    val = ev(tree.body)
    return val, chains, (err[0] if err else None)


def all_chains(cond: str) -> List[Seq]:
    import ast as _ast
    out = []
    try:
        tree = _ast.parse(cond.strip(), mode="eval")
    except SyntaxError:
        return out
    for n in _ast.walk(tree):
        if isinstance(n, _ast.Attribute):
            parts = []
            m = n
            while isinstance(m, _ast.Attribute):
                parts.append(m.attr)
                m = m.value
            if isinstance(m, _ast.Name) and m.id == "hw":
                # only maximal chains
                par = getattr(n, "_p", None)
                out.append(tuple(reversed(parts)))
    # keep maximal
    mx = [c for c in out if not any(o != c and o[:len(c)] == c for o in out)]
    return sorted(set(mx))
