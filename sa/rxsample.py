"""Finite witness sets for regular expressions, from the regex syntax tree (re._parser), never by running the analysed program.
`samples(pattern)` returns a small set of strings each of which is *intended* to be in the language; callers confirm a witness
with `re.match` on the specification regex before reporting it, so an imprecise sample can only lose a witness, never invent one.
`overlap(p1, f1, p2, f2)` = a string matched by both patterns (a definite witness) or None (none among the samples)."""
from __future__ import annotations

import re
from typing import List, Optional

try:                                            # 3.11+
    from re import _parser as sre_parse, _constants as sre_c
except ImportError:                             # pragma: no cover
    import sre_parse                            # type: ignore
    import sre_constants as sre_c               # type: ignore

CAP = 48
PROBES = "a0/-. _XzZ9:@"


def _cat_chars(cat) -> str:
    name = str(cat)
    if "NOT_DIGIT" in name:
        return "a/"
    if "DIGIT" in name:
        return "09"
    if "NOT_SPACE" in name:
        return "a0/"
    if "SPACE" in name:
        return " "
    if "NOT_WORD" in name:
        return "/-"
    if "WORD" in name:
        return "a0_"
    return "a"


def _in_chars(items) -> str:
    neg = False
    out: List[str] = []
    for op, av in items:
        if op is sre_c.NEGATE:
            neg = True
        elif op is sre_c.LITERAL:
            out.append(chr(av))
        elif op is sre_c.RANGE:
            lo, hi = av
            out += [chr(lo), chr(hi)]
        elif op is sre_c.CATEGORY:
            out += list(_cat_chars(av))
    if not neg:
        seen = []
        for ch in out:
            if ch not in seen:
                seen.append(ch)
        return "".join(seen[:4])
    # negated class: probe characters that the positive part does not mention (confirmed by the caller's re.match anyway)
    pos = set(out)
    ranges = [av for op, av in items if op is sre_c.RANGE]
    cats = [av for op, av in items if op is sre_c.CATEGORY]

    def inside(ch):
        if ch in pos or any(lo <= ord(ch) <= hi for lo, hi in ranges):
            return True
        for cat in cats:
            n = str(cat)
            if ("NOT_" not in n) and ((("DIGIT" in n) and ch.isdigit()) or (("SPACE" in n) and ch.isspace()) or (("WORD" in n) and (ch.isalnum() or ch == "_"))):
                return True
            if "NOT_DIGIT" in n and not ch.isdigit() or "NOT_SPACE" in n and not ch.isspace() or "NOT_WORD" in n and not (ch.isalnum() or ch == "_"):
                return True
        return False
    return "".join([ch for ch in PROBES if not inside(ch)][:3])


def _cap(xs: List[str]) -> List[str]:
    seen, out = set(), []
    for x in xs:
        if x not in seen:
            seen.add(x)
            out.append(x)
        if len(out) >= CAP:
            break
    return out


def _seq(nodes, groups) -> List[str]:
    acc = [""]
    for op, av in nodes:
        part = _node(op, av, groups)
        if not part:
            return []
        acc = _cap([a + p for a in acc for p in part])
    return acc


def _node(op, av, groups) -> List[str]:
    if op is sre_c.LITERAL:
        return [chr(av)]
    if op is sre_c.NOT_LITERAL:
        return [ch for ch in "a0" if ord(ch) != av][:1]
    if op is sre_c.ANY:
        return ["a", "0", "/"]
    if op is sre_c.IN:
        return list(_in_chars(av))
    if op is sre_c.BRANCH:
        out: List[str] = []
        for alt in av[1]:
            out += _seq(alt, groups)[:8]
        return _cap(out)
    if op is sre_c.SUBPATTERN:
        sub = _seq(av[3], groups)
        if av[0]:
            groups[av[0]] = sub
        return sub
    if op in (sre_c.MAX_REPEAT, sre_c.MIN_REPEAT) or str(op) == "POSSESSIVE_REPEAT":
        lo, hi, body = av
        hi = min(int(hi), lo + 2) if hi is not sre_c.MAXREPEAT else lo + 2
        b = _seq(body, groups)
        out = []
        for k in range(lo, hi + 1):
            if k == 0:
                out.append("")
                continue
            for s in b[:6]:
                out.append(s * k)
            if k >= 2 and len(b) >= 2:
                out.append((b[0] + b[1]) * (k // 2) + (b[0] if k % 2 else ""))
                if len(b) >= 3:
                    out.append((b[0] + b[2]) * (k // 2) + (b[1] if k % 2 else ""))
        return _cap(out)
    if op is sre_c.AT:
        return [""]
    if op in (sre_c.ASSERT, sre_c.ASSERT_NOT):
        return [""]                             # zero-width; the caller's confirmation filters wrong guesses
    if op is sre_c.GROUPREF:
        return groups.get(av, [""])[:1]
    if str(op) == "ATOMIC_GROUP":
        return _seq(av, groups)
    if op is sre_c.CATEGORY:
        return list(_cat_chars(av))
    return []


def samples(pattern: str, flags: int = 0) -> List[str]:
    try:
        tree = sre_parse.parse(pattern, flags)
    except re.error:
        return []
    return _cap(_seq(list(tree), {}))


def overlap(p1: str, f1: int, p2: str, f2: int) -> Optional[str]:
    """a line both patterns match (re.match, as implicit.config / match_row_to_acl apply them), or None"""
    try:
        r1, r2 = re.compile(p1, f1), re.compile(p2, f2)
    except re.error:
        return None
    for s in samples(p1, f1) + samples(p2, f2):
        s = s.rstrip()
        if s and r1.match(s) and r2.match(s):
            return s
    return None
