"""Verdict collection, known-findings matching, evidence writing, exit codes."""
from __future__ import annotations

import json
import os
import sys
import time
from typing import Any, Dict, List, Optional

from .repo import AnchorError, Repo

VERIF = os.path.dirname(os.path.dirname(os.path.abspath(__file__)))
HOLDS, VIOLATED, UNDECIDED = "HOLDS", "VIOLATED", "UNDECIDED"


def load_known() -> List[Dict[str, Any]]:
    p = os.path.join(VERIF, "known_findings.json")
    if not os.path.isfile(p):
        return []
    with open(p, encoding="utf-8") as f:
        data = json.load(f)
    return data.get("findings", [])


class Check:
    def __init__(self, pid: str, tier: str, repo: Repo, quiet: bool = False):
        self.pid = pid
        self.tier = tier
        self.repo = repo
        self.quiet = quiet
        self.t0 = time.time()
        self.rules: Dict[str, str] = {}
        self.instances: List[Dict[str, Any]] = []
        self.analysed: Dict[str, Any] = {}
        self.notes: List[str] = []
        self.assumptions: List[str] = []
        self.explanation = ""
        self.decides = ""
        self.does_not_decide = ""
        self.exhaustive = True
        self.known = [k for k in load_known() if k.get("property") == pid and k.get("status", "open") == "open"]
        self.known_seen: Dict[str, Dict[str, Any]] = {}
        self._trivial = 0

    # ----- registration
    def rule(self, rid: str, text: str) -> None:
        self.rules[rid] = " ".join(text.split())

    def count(self, key: str, n: int = 1) -> None:
        self.analysed[key] = self.analysed.get(key, 0) + n

    def floor(self, rid: str, what: str, n: int, minimum: int) -> None:
        """fail closed when fewer instances than confirmed by hand were located"""
        self.analysed[f"{rid}:{what}"] = n
        if n < minimum:
            raise AnchorError(f"rule {rid}: found {n} {what}, expected at least {minimum} "
                              f"(anchor moved or matcher dead)")

    # ----- verdicts
    def _add(self, rid: str, verdict: str, at: str, construct: str, detail: str, key: Optional[str],
             path: Optional[List[str]], trivial: bool = False) -> Dict[str, Any]:
        if rid not in self.rules:
            raise RuntimeError(f"rule {rid} not registered")
        inst = {"rule": rid, "verdict": verdict, "at": at, "construct": construct, "detail": detail}
        if key is not None:
            inst["key"] = key
        if path:
            inst["path"] = path
        if trivial:
            inst["trivial"] = True
        self.instances.append(inst)
        return inst

    def holds(self, rid: str, at: str, construct: str, detail: str = "", trivial: bool = False) -> None:
        self._add(rid, HOLDS, at, construct, detail, None, None, trivial)

    def undecided(self, rid: str, at: str, construct: str, why: str) -> None:
        self._add(rid, UNDECIDED, at, construct, why, None, None)

    def violated(self, rid: str, at: str, construct: str, what: str, key_text: str = "",
                 path: Optional[List[str]] = None) -> None:
        key = f"{rid}|{construct}|{' '.join(key_text.split())}"
        inst = self._add(rid, VIOLATED, at, construct, what, key, path)
        for k in self.known:
            if k.get("key") == key:
                inst["known"] = True
                self.known_seen[key] = k
                break

    def check(self, rid: str, ok: Optional[bool], at: str, construct: str, what_if_bad: str, key_text: str = "",
              detail: str = "", path: Optional[List[str]] = None) -> bool:
        if ok is None:
            self.undecided(rid, at, construct, what_if_bad)
            return False
        if ok:
            self.holds(rid, at, construct, detail)
            return True
        self.violated(rid, at, construct, what_if_bad, key_text or what_if_bad, path)
        return False

    # ----- finish
    def finish(self) -> int:
        new = [i for i in self.instances if i["verdict"] == VIOLATED and not i.get("known")]
        knownv = [i for i in self.instances if i["verdict"] == VIOLATED and i.get("known")]
        und = [i for i in self.instances if i["verdict"] == UNDECIDED]
        out = []
        nfun = self.analysed.get("functions", 0)
        out.append(f"{self.pid} {self.tier}: {len(self.rules)} rules, {len(self.instances)} obligations; analysed "
                   + ", ".join(f"{k}={v}" for k, v in sorted(self.analysed.items()) if ":" not in k))
        per_rule: Dict[str, Dict[str, int]] = {}
        for i in self.instances:
            per_rule.setdefault(i["rule"], {}).setdefault(i["verdict"], 0)
            per_rule[i["rule"]][i["verdict"]] += 1
        for rid in self.rules:
            c = per_rule.get(rid, {})
            out.append(f"  {rid}: " + (", ".join(f"{v} {k}" for k, v in sorted(c.items())) or "no instances"))
        for i in self.instances:
            if i["verdict"] == VIOLATED:
                tag = "   [known]" if i.get("known") else ""
                out.append(f"{i['rule']} VIOLATED {i['at']} {i['construct']}: {i['detail']}{tag}")
                for p in i.get("path", [])[:40]:
                    out.append(f"      | {p}")
            elif i["verdict"] == UNDECIDED:
                out.append(f"{i['rule']} UNDECIDED {i['at']} {i['construct']}: {i['detail']}")
        seen_whats = []
        for k in self.known_seen.values():
            if k["what"] not in seen_whats:
                seen_whats.append(k["what"])
                out.append(f"KNOWN-FINDING: property={self.pid} {k['what']}")
        stale = [k for k in self.known if k["key"] not in self.known_seen]
        for k in stale:
            out.append(f"note: listed finding no longer observed: {k['key']}")
        vio_path = os.path.join(VERIF, "evidence", f"{self.pid}.violations.json")
        code = 0
        if new:
            os.makedirs(os.path.dirname(vio_path), exist_ok=True)
            with open(vio_path, "w", encoding="utf-8") as f:
                json.dump({"property": self.pid, "tier": self.tier, "repo": self.repo.root,
                           "rules": {r: self.rules[r] for r in sorted({i["rule"] for i in new})},
                           "violations": new}, f, indent=1, ensure_ascii=False)
            out.append(f"VIOLATION property={self.pid} replay={vio_path}")
            code = 1
        elif os.path.isfile(vio_path) and not os.environ.get("VF_KEEP_VIOLATIONS"):
            try:
                os.remove(vio_path)
            except OSError:
                pass
        if code == 0 and und:
            # an obligation the analysis claims but could not decide is not a pass
            out.append(f"ANALYSIS-ERROR property={self.pid} {len(und)} obligation(s) undecided (first: {und[0]['rule']} {und[0]['construct']})")
            code = 2
        if code == 0:
            low = self.below_baseline(per_rule)
            if low:
                out.append(f"ANALYSIS-ERROR property={self.pid} rule instance counts fell below the confirmed baseline: " + "; ".join(low))
                code = 2
        out.append(f"{self.pid}: {len(new)} new violations, {len(seen_whats)} known findings, "
                   f"{len(und)} undecided, exit {code}")
        if not self.quiet:
            print("\n".join(out))
        self.write_evidence(len(new), knownv, und)
        return code

    def below_baseline(self, per_rule) -> List[str]:
        """rules whose number of located instances dropped below half of what was confirmed on the reference tree (tools/gen_baseline.py):
        a rule that silently stops finding its constructs would otherwise pass vacuously.  (Half, not more: de-duplicating copies of one loop into a shared
        helper legitimately removes instances — twin W0/C14_1 goes from 30 to 20 — while a dead matcher finds none or a small fraction; the hand-confirmed
        minimums of individual rules are stated separately with Check.floor.)"""
        path = os.path.join(VERIF, "baseline_counts.json")
        if not os.path.isfile(path) or os.environ.get("VF_NO_BASELINE"):
            return []
        with open(path, encoding="utf-8") as f:
            base = json.load(f).get(f"{self.pid}:{self.tier}", {})
        low = []
        for rid, n in sorted(base.items()):
            got = sum(per_rule.get(rid, {}).values())
            need = -(-n // 2)
            if got < need:
                low.append(f"{rid}: {got} < {need} (baseline {n})")
        return low

    def write_evidence(self, nviol: int, knownv, und, error: Optional[str] = None) -> None:
        ev_dir = os.environ.get("VF_EVIDENCE_DIR") or os.path.join(VERIF, "evidence")
        os.makedirs(ev_dir, exist_ok=True)
        nontrivial = {(i["rule"], i["construct"], i.get("at")) for i in self.instances if not i.get("trivial")}
        samples = []
        seen_rules = set()
        for i in self.instances:  # one sample per rule first, then violations
            if i["rule"] not in seen_rules:
                seen_rules.add(i["rule"])
                samples.append({k: i[k] for k in ("rule", "at", "construct", "verdict", "detail") if k in i})
        for i in self.instances:
            if i["verdict"] != HOLDS and len(samples) < 60:
                s = {k: i[k] for k in ("rule", "at", "construct", "verdict", "detail", "known") if k in i}
                if s not in samples:
                    samples.append(s)
        discharged = sum(1 for i in self.instances if i["verdict"] == HOLDS)
        cov = {
            "explanation": self.explanation or "static analysis of /repo's working tree (see DESIGN.md)",
            "decides": self.decides,
            "does_not_decide": self.does_not_decide,
            "rules": self.rules,
            "obligations": len(self.instances),
            "discharged": discharged,
            "evaluations": max(len(self.instances), 1) if not error else max(len(self.instances), 1),
            "distinct_nontrivial": len(nontrivial),
            "rule": "an obligation is one (rule, located construct) pair found in the analysed source; "
                    "non-trivial = the rule located a construct and had something to decide about it "
                    "(instances marked trivial, e.g. a class inheriting an already-checked method, are excluded); "
                    "distinct = distinct (rule, construct, location)",
            "samples": samples,
            "analysed": self.analysed,
            "undecided": [{k: i[k] for k in ("rule", "at", "construct", "detail")} for i in und],
            "known_findings_seen": len(self.known_seen),
            "known_violations": [{k: i[k] for k in ("rule", "at", "construct", "detail")} for i in knownv],
            "exhaustive": bool(self.exhaustive and not error),
            "repo_root": self.repo.root if self.repo else None,
            "notes": self.notes,
        }
        if error:
            cov["analysis_error"] = error
        ev = {
            "property_id": self.pid,
            "tier": self.tier,
            "seed": int(os.environ.get("VERIF_SEED", "0") or 0),
            "level": "other",
            "coverage": cov,
            "assumptions": self.assumptions,
            "wall_s": round(time.time() - self.t0, 3),
            "violations": nviol,
        }
        with open(os.path.join(ev_dir, f"{self.pid}.json"), "w", encoding="utf-8") as f:
            json.dump(ev, f, indent=1, ensure_ascii=False)
