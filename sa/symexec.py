"""Path enumeration with symbolic substitution over loop-free statement lists (the body of one loop iteration, a small helper):
every local is replaced by the expression that computed it, so that what reaches a call or a return is an expression over the
*inputs* of the region (loop variables, parameters, names assigned outside).  Conditions of the path are kept as (test, polarity).

Supported: assignments to names and to tuples of names (from tuple values), augmented assignments, if/elif/else, with (body),
expression statements (recorded as events when they contain a call), return (recorded, ends the path), pass/assert.
Anything else (loops, try, nested defs) makes the names it may assign unknown and is recorded as an opaque event."""
from __future__ import annotations

import ast
from typing import Dict, List, Optional, Sequence, Tuple

from .repo import norm


class Unknown(ast.expr):
    """placeholder for a value the enumeration cannot express"""
    _fields = ()


class _Lit(ast.expr):
    """an already substituted value (kept as is by subst)"""
    _fields = ()

    def __init__(self, node=None):
        super().__init__()
        self.node = node


def _depth_ifexp(e) -> int:
    return 1 + max(_depth_ifexp(e.body), _depth_ifexp(e.orelse)) if isinstance(e, ast.IfExp) else 0


def _split_ifexp(e: ast.AST):
    """(condition, e with the first embedded conditional expression replaced by its true arm, ... by its false arm), or None"""
    target = None
    for n in ast.walk(e):
        if isinstance(n, ast.IfExp):
            target = n
            break
    if target is None:
        return None

    def repl(node, new):
        if node is target:
            return _clone(new)
        if isinstance(node, ast.AST) and not isinstance(node, (_Lit, Unknown)):
            c = node.__class__()
            for f, v in ast.iter_fields(node):
                if isinstance(v, list):
                    setattr(c, f, [repl(x, new) for x in v])
                else:
                    setattr(c, f, repl(v, new) if isinstance(v, ast.AST) else v)
            return c
        return node
    return target.test, simplify(repl(e, target.body)), simplify(repl(e, target.orelse))


def _static_truth(t: ast.AST) -> Optional[bool]:
    """truth of a test that only compares constants (after substitution): X is None, X is not None, ==, != on literals; not/and/or thereof"""
    if isinstance(t, ast.Constant):
        return bool(t.value)
    if isinstance(t, ast.UnaryOp) and isinstance(t.op, ast.Not):
        v = _static_truth(t.operand)
        return None if v is None else (not v)
    if isinstance(t, ast.BoolOp):
        vs = [_static_truth(v) for v in t.values]
        if isinstance(t.op, ast.And):
            if any(v is False for v in vs):
                return False
            return True if all(v is True for v in vs) else None
        if any(v is True for v in vs):
            return True
        return False if all(v is False for v in vs) else None
    if isinstance(t, ast.Compare) and len(t.ops) == 1 and isinstance(t.left, ast.Constant) and isinstance(t.comparators[0], ast.Constant):
        a, b, op = t.left.value, t.comparators[0].value, t.ops[0]
        if isinstance(op, ast.Is):
            return a is b if (a is None or b is None or isinstance(a, bool) or isinstance(b, bool)) else (a == b)
        if isinstance(op, ast.IsNot):
            return a is not b if (a is None or b is None or isinstance(a, bool) or isinstance(b, bool)) else (a != b)
        if isinstance(op, ast.Eq):
            return a == b
        if isinstance(op, ast.NotEq):
            return a != b
    return None


class Path:
    def __init__(self):
        self.conds: List[Tuple[ast.AST, bool]] = []
        self.env: Dict[str, ast.AST] = {}
        self.events: List[Tuple[str, ast.AST, ast.AST]] = []   # (kind, original node, substituted node)
        self.returned: Optional[ast.AST] = None
        self.ended = False

    def fork(self) -> "Path":
        p = Path()
        p.conds = list(self.conds)
        p.env = dict(self.env)
        p.events = list(self.events)
        p.returned = self.returned
        p.ended = self.ended
        return p


def _clone(n):
    if isinstance(n, Unknown):
        return Unknown()
    if isinstance(n, ast.AST):
        new = n.__class__()
        for f, v in ast.iter_fields(n):
            if isinstance(v, list):
                setattr(new, f, [_clone(x) for x in v])
            else:
                setattr(new, f, _clone(v) if isinstance(v, ast.AST) else v)
        for a in ("lineno", "col_offset", "end_lineno", "end_col_offset"):
            if hasattr(n, a):
                setattr(new, a, getattr(n, a))
        return new
    return n


class _Sub(ast.NodeTransformer):
    def __init__(self, env):
        self.env = env
        self.bound: List[set] = []

    def visit_Name(self, node):
        if isinstance(node.ctx, ast.Load) and node.id in self.env and not any(node.id in b for b in self.bound):
            return _clone(self.env[node.id])
        return node

    def _comp(self, node):
        names = set()
        for g in node.generators:
            for t in ast.walk(g.target):
                if isinstance(t, ast.Name):
                    names.add(t.id)
        # iterables are evaluated outside the comprehension's scope only for the first generator; be conservative: bind for all parts
        self.bound.append(names)
        self.generic_visit(node)
        self.bound.pop()
        return node

    visit_ListComp = visit_SetComp = visit_DictComp = visit_GeneratorExp = _comp

    def visit_Lambda(self, node):
        self.bound.append({a.arg for a in node.args.args + node.args.kwonlyargs})
        self.generic_visit(node)
        self.bound.pop()
        return node


def subst(e: ast.AST, env: Dict[str, ast.AST]) -> ast.AST:
    if isinstance(e, _Lit):
        return e
    return _Sub(env).visit(_clone(e))


def simplify(e: ast.AST) -> ast.AST:
    """reduce constant subscripts of literal dicts/tuples, double negation"""
    for _ in range(6):
        changed = False

        class T(ast.NodeTransformer):
            def visit_Subscript(self, node):
                nonlocal changed
                self.generic_visit(node)
                k = node.slice
                v = node.value
                if isinstance(k, ast.Constant):
                    if isinstance(v, ast.Dict):
                        for kk, vv in zip(v.keys, v.values):
                            if isinstance(kk, ast.Constant) and kk.value == k.value:
                                changed = True
                                return vv
                    if isinstance(v, (ast.Tuple, ast.List)) and isinstance(k.value, int) and -len(v.elts) <= k.value < len(v.elts):
                        changed = True
                        return v.elts[k.value]
                return node

            def visit_UnaryOp(self, node):
                nonlocal changed
                self.generic_visit(node)
                if isinstance(node.op, ast.USub) and isinstance(node.operand, ast.UnaryOp) and isinstance(node.operand.op, ast.USub):
                    changed = True
                    return node.operand.operand
                if isinstance(node.op, ast.Not) and isinstance(node.operand, ast.UnaryOp) and isinstance(node.operand.op, ast.Not):
                    changed = True
                    return node.operand.operand
                return node
        e = T().visit(e)
        if not changed:
            break
    return e


def _assigned(st: ast.AST) -> List[str]:
    out = []
    for n in ast.walk(st):
        if isinstance(n, ast.Name) and isinstance(n.ctx, (ast.Store, ast.Del)):
            out.append(n.id)
    return out


def paths(stmts: Sequence[ast.stmt], env0: Optional[Dict[str, ast.AST]] = None, max_paths: int = 256, keep: Sequence[str] = ()) -> List[Path]:
    """`keep`: names that stay symbolic (never replaced by what was assigned to them)"""
    start = Path()
    start.env = dict(env0 or {})
    done: List[Path] = []

    def run(stmts, p: Path):
        if len(done) > max_paths:
            return
        for i, st in enumerate(stmts):
            if p.ended:
                break
            if isinstance(st, ast.If):
                t = st.test.node if isinstance(st.test, _Lit) else simplify(subst(st.test, p.env))
                sp = _split_ifexp(t) if len(p.conds) < 24 else None
                if sp is not None:
                    # the test embeds a conditional value: decide the embedded condition first
                    cnd, t_true, t_false = sp
                    for pol, tt in ((True, t_true), (False, t_false)):
                        q = p.fork()
                        q.conds.append((cnd, pol))
                        run([ast.If(test=_Lit(tt), body=st.body, orelse=st.orelse)] + list(stmts[i + 1:]), q)
                    return
                known = _static_truth(t)
                for pol, arm in ((True, st.body), (False, st.orelse)):
                    if known is not None and known != pol:
                        continue
                    q = p.fork()
                    q.conds.append((t, pol))
                    run(list(arm) + list(stmts[i + 1:]), q)
                return
            if isinstance(st, ast.Assign) and len(st.targets) == 1:
                t = st.targets[0]
                v = st.value if isinstance(st.value, _Lit) else simplify(subst(st.value, p.env))
                for x in ([] if isinstance(st.value, _Lit) else ast.walk(st.value)):
                    if isinstance(x, ast.Call):
                        p.events.append(("call", x, simplify(subst(x, p.env))))
                if isinstance(t, ast.Name) and isinstance(v, ast.IfExp) and _depth_ifexp(v) <= 6:
                    # a conditional value: one path per arm, so that later tests of the local can be decided
                    for pol, arm in ((True, v.body), (False, v.orelse)):
                        q = p.fork()
                        q.conds.append((v.test, pol))
                        run([ast.Assign(targets=[ast.Name(id=t.id, ctx=ast.Store())], value=_Lit(arm), lineno=getattr(st, "lineno", 0))] + list(stmts[i + 1:]), q)
                    return
                if isinstance(t, (ast.Tuple, ast.List)) and all(isinstance(e, ast.Name) for e in t.elts) and isinstance(v, ast.IfExp) and _depth_ifexp(v) <= 6 \
                        and all(isinstance(a_, (ast.Tuple, ast.List)) and len(a_.elts) == len(t.elts) for a_ in (v.body, v.orelse)):
                    # `(a, b) = (x, y) if c else (y, x)`: one path per arm
                    for pol, arm in ((True, v.body), (False, v.orelse)):
                        q = p.fork()
                        q.conds.append((v.test, pol))
                        for e, vv in zip(t.elts, arm.elts):
                            if e.id not in keep:
                                q.env[e.id] = vv
                        run(list(stmts[i + 1:]), q)
                    return
                if isinstance(t, ast.Name) and t.id in keep:
                    pass
                elif isinstance(t, ast.Name):
                    p.env[t.id] = v.node if isinstance(v, _Lit) else v
                elif isinstance(t, (ast.Tuple, ast.List)) and isinstance(v, (ast.Tuple, ast.List)) and len(t.elts) == len(v.elts) and all(isinstance(e, ast.Name) for e in t.elts):
                    for e, vv in zip(t.elts, v.elts):
                        if e.id not in keep:
                            p.env[e.id] = vv
                elif isinstance(t, (ast.Tuple, ast.List)) and all(isinstance(e, ast.Name) for e in t.elts):
                    for k, e in enumerate(t.elts):
                        if e.id not in keep:
                            p.env[e.id] = ast.Subscript(value=v, slice=ast.Constant(value=k), ctx=ast.Load())
                else:
                    p.events.append(("store", st, ast.Assign(targets=[subst(t, p.env)], value=v, lineno=getattr(st, "lineno", 0))))
                continue
            if isinstance(st, ast.AnnAssign) and isinstance(st.target, ast.Name):
                if st.value is not None:
                    p.env[st.target.id] = simplify(subst(st.value, p.env))
                continue
            if isinstance(st, ast.AugAssign) and isinstance(st.target, ast.Name):
                cur = p.env.get(st.target.id, ast.Name(id=st.target.id, ctx=ast.Load()))
                p.env[st.target.id] = simplify(ast.BinOp(left=_clone(cur), op=st.op, right=subst(st.value, p.env)))
                continue
            if isinstance(st, ast.Expr):
                for x in ast.walk(st.value):
                    if isinstance(x, ast.Call):
                        p.events.append(("call", x, simplify(subst(x, p.env))))
                if isinstance(st.value, (ast.Yield, ast.YieldFrom)):
                    p.events.append(("yield", st.value, simplify(subst(st.value, p.env))))
                continue
            if isinstance(st, ast.Return):
                for x in (ast.walk(st.value) if st.value is not None else []):
                    if isinstance(x, ast.Call):
                        p.events.append(("call", x, simplify(subst(x, p.env))))
                p.returned = simplify(subst(st.value, p.env)) if st.value is not None else ast.Constant(value=None)
                p.ended = True
                break
            if isinstance(st, (ast.Pass, ast.Assert, ast.Global, ast.Nonlocal, ast.Import, ast.ImportFrom)):
                continue
            if isinstance(st, (ast.Raise, ast.Continue, ast.Break)):
                p.events.append((type(st).__name__.lower(), st, st))
                p.ended = True
                break
            if isinstance(st, (ast.With, ast.AsyncWith)):
                run(list(st.body) + list(stmts[i + 1:]), p)
                return
            if isinstance(st, ast.Try):
                # the normal path runs the body; each handler is a path of its own (the body's effects up to the failure are over-approximated by all of them)
                for h in st.handlers:
                    q = p.fork()
                    q.events.append(("except", h, h))
                    run(list(st.body) + list(h.body) + list(st.finalbody) + list(stmts[i + 1:]), q)
                run(list(st.body) + list(st.orelse) + list(st.finalbody) + list(stmts[i + 1:]), p)
                return
            # opaque: loops, defs
            for nm in _assigned(st):
                p.env[nm] = Unknown()
            p.events.append(("opaque", st, st))
        done.append(p)

    run(list(stmts), start)
    return done
