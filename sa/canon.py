"""Canonicalisation of a function before the rules look at it, so that behaviour-preserving refactorings do not
change what the rules see:
  1. same-module helpers (functions, and methods called on self/cls) are inlined, up to depth 3:
       - expression helpers (body = `return <expr>`) anywhere in an expression,
       - statement helpers whose returns are in tail position, when called as a statement or as `x = helper(...)`,
       - generator helpers in `yield from helper(...)` position;
  2. names bound at module level exactly once to a literal (dict/tuple/str/number/Op attribute) are replaced by it;
  3. single-assignment locals bound to a call-free expression are substituted into their uses and dropped
     (copy propagation): `row_path = _path + (row,)`, `has_block = a or b`, `prefix_sp = prefix + " "`, `logic = attrs["logic"]`.
The result is a *new* AST (the module's own tree is untouched); nodes keep their original line numbers."""
from __future__ import annotations

import ast
import os
import copy
import itertools
from typing import Dict, List, Optional, Sequence, Set, Tuple

FuncT = (ast.FunctionDef, ast.AsyncFunctionDef)
PURE_CALLS = {"bool", "len", "tuple", "str", "int", "not", "isinstance", "frozenset", "min", "max", "abs"}
_counter = itertools.count(1)


def _walk_no_nested(node, include_root=True):
    stack = [node]
    first = True
    while stack:
        n = stack.pop()
        if not first and isinstance(n, FuncT + (ast.ClassDef, ast.Lambda)):
            continue
        if include_root or not first:
            yield n
        first = False
        stack.extend(reversed(list(ast.iter_child_nodes(n))))


def clone(node):
    """deep copy of an AST without the _parent back-pointers (copy.deepcopy would drag the whole module along)"""
    if isinstance(node, list):
        return [clone(x) for x in node]
    if not isinstance(node, ast.AST):
        return node
    new = node.__class__()
    for f in node._fields:
        if hasattr(node, f):
            setattr(new, f, clone(getattr(node, f)))
    for a in ("lineno", "col_offset", "end_lineno", "end_col_offset"):
        if hasattr(node, a):
            setattr(new, a, getattr(node, a))
    return new


def number_nodes(root) -> None:
    """execution-order-compatible numbering (source pre-order) of every node: inlined code keeps the line numbers of the helper it came from,
    so rules compare positions with repo.ordk(node), never with lineno"""
    k = 0
    stack = [root]
    while stack:
        n = stack.pop()
        n._ord = k
        k += 1
        stack.extend(reversed(list(ast.iter_child_nodes(n))))


def set_parents(root, parent=None):
    root._parent = parent
    for n in ast.walk(root):
        for ch in ast.iter_child_nodes(n):
            ch._parent = n


class _Subst(ast.NodeTransformer):
    def __init__(self, mapping: Dict[str, ast.AST]):
        self.mapping = mapping

    def visit_Name(self, node):
        if isinstance(node.ctx, ast.Load) and node.id in self.mapping:
            new = clone(self.mapping[node.id])
            return ast.copy_location(new, node) if not hasattr(new, "lineno") else new
        return node


class _Rename(ast.NodeTransformer):
    def __init__(self, mapping: Dict[str, str]):
        self.mapping = mapping

    def visit_Name(self, node):
        if node.id in self.mapping:
            return ast.copy_location(ast.Name(id=self.mapping[node.id], ctx=node.ctx), node)
        return node

    def visit_arg(self, node):
        return node


def _docless(body: Sequence[ast.stmt]) -> List[ast.stmt]:
    if body and isinstance(body[0], ast.Expr) and isinstance(body[0].value, ast.Constant) and isinstance(body[0].value.value, str):
        return list(body[1:])
    return list(body)


def _is_generator(fn) -> bool:
    return any(isinstance(n, (ast.Yield, ast.YieldFrom)) for n in _walk_no_nested(fn))


def _assigned_names(fn) -> Set[str]:
    out = set()
    for n in _walk_no_nested(fn):
        if isinstance(n, ast.Name) and isinstance(n.ctx, (ast.Store, ast.Del)):
            out.add(n.id)
    return out


def _bind(call: ast.Call, h: ast.FunctionDef, is_method: bool) -> Optional[Dict[str, ast.AST]]:
    a = h.args
    if a.vararg or a.kwarg or a.posonlyargs:
        return None
    names = [x.arg for x in a.args]
    defaults = dict(zip(names[len(names) - len(a.defaults):], a.defaults))
    for kw, d in zip(a.kwonlyargs, a.kw_defaults):
        names.append(kw.arg)
        if d is not None:
            defaults[kw.arg] = d
    bound: Dict[str, ast.AST] = {}
    pos = names
    if is_method and names and names[0] in ("self", "cls"):
        bound[names[0]] = call.func.value  # type: ignore[union-attr]
        pos = names[1:]
    if any(isinstance(x, ast.Starred) for x in call.args) or any(k.arg is None for k in call.keywords):
        return None
    if len(call.args) > len(pos):
        return None
    for p, x in zip(pos, call.args):
        bound[p] = x
    for k in call.keywords:
        if k.arg not in names or k.arg in bound:
            return None
        bound[k.arg] = k.value
    for p in names:
        if p not in bound:
            if p in defaults:
                bound[p] = defaults[p]
            else:
                return None
    return bound


def _simple(e: ast.AST) -> bool:
    """argument expressions that may be substituted for a parameter wherever it occurs"""
    if isinstance(e, (ast.Name, ast.Constant)):
        return True
    if isinstance(e, ast.Attribute):
        return _simple(e.value)
    if isinstance(e, ast.Subscript):
        return _simple(e.value) and _simple(e.slice)
    if isinstance(e, ast.Tuple):
        return all(_simple(x) for x in e.elts)
    return False


def _tail_returns_only(stmts: Sequence[ast.stmt]) -> bool:
    """every `return` is in tail position: last statement of the body or of a guard-`if` chain (not inside loops/try/with)"""
    for i, st in enumerate(stmts):
        if isinstance(st, ast.Return):
            return i == len(stmts) - 1
        if isinstance(st, ast.If):
            has = any(isinstance(n, ast.Return) for b in (st.body, st.orelse) for x in b for n in _walk_no_nested(x))
            if has:
                rest = stmts[i + 1:]
                from .flow import always_abrupt
                b_ends = always_abrupt(st.body) == "return" or (st.body and isinstance(st.body[-1], ast.Return))
                e_ends = bool(st.orelse) and (always_abrupt(st.orelse) == "return" or isinstance(st.orelse[-1], ast.Return))
                if not _tail_returns_only(st.body) or not _tail_returns_only(st.orelse):
                    return False
                if rest and not (b_ends or e_ends or not st.orelse):
                    return False
                if rest and st.orelse and not (b_ends and e_ends) and any(isinstance(n, ast.Return) for x in st.orelse for n in _walk_no_nested(x)) and not e_ends:
                    return False
                if rest and not b_ends and any(isinstance(n, ast.Return) for x in st.body for n in _walk_no_nested(x)):
                    return False
                if rest and st.orelse and not e_ends and any(isinstance(n, ast.Return) for x in st.orelse for n in _walk_no_nested(x)):
                    return False
        elif isinstance(st, (ast.For, ast.While, ast.Try, ast.With, ast.AsyncFor, ast.AsyncWith, ast.Match)):
            if any(isinstance(n, ast.Return) for n in _walk_no_nested(st)):
                return False
    return True


def _rewrite_returns(stmts: Sequence[ast.stmt], target: Optional[ast.AST]) -> List[ast.stmt]:
    out: List[ast.stmt] = []
    for i, st in enumerate(stmts):
        if isinstance(st, ast.Return):
            if target is not None:
                val = st.value if st.value is not None else ast.Constant(value=None)
                out.append(ast.copy_location(ast.Assign(targets=[clone(target)], value=val, lineno=st.lineno), st))
            elif st.value is not None and not isinstance(st.value, (ast.Constant, ast.Name)):
                out.append(ast.copy_location(ast.Expr(value=st.value), st))
            return out
        if isinstance(st, ast.If) and any(isinstance(n, ast.Return) for n in _walk_no_nested(st)):
            rest = list(stmts[i + 1:])
            body_ret = bool(st.body) and _ends_with_return(st.body)
            else_ret = bool(st.orelse) and _ends_with_return(st.orelse)
            nb = _rewrite_returns(st.body, target) if body_ret else _rewrite_returns(list(st.body) + rest, target)
            ne = _rewrite_returns(st.orelse, target) if else_ret else _rewrite_returns(list(st.orelse) + rest, target)
            if not nb:
                nb = [ast.copy_location(ast.Pass(), st)]
            new_if = ast.copy_location(ast.If(test=st.test, body=nb, orelse=ne), st)
            out.append(new_if)
            return out
        out.append(st)
    return out


def norm_name(e) -> str:
    return e.id if isinstance(e, ast.Name) else (e.attr if isinstance(e, ast.Attribute) else "")


def _is_const(e, val) -> bool:
    return isinstance(e, ast.Constant) and e.value is val


def _cond_expr(test: ast.AST, a: ast.AST, b: ast.AST) -> ast.AST:
    """`a if test else b`, written with and/or/not when one arm is a boolean constant (so that guard formulas see the structure)"""
    if _is_const(a, True) and _is_const(b, False):
        return test
    if _is_const(a, False) and _is_const(b, True):
        return ast.UnaryOp(op=ast.Not(), operand=test)
    if _is_const(a, False):
        return ast.BoolOp(op=ast.And(), values=[ast.UnaryOp(op=ast.Not(), operand=test), b])
    if _is_const(a, True):
        return ast.BoolOp(op=ast.Or(), values=[test, b])
    if _is_const(b, False):
        return ast.BoolOp(op=ast.And(), values=[test, a])
    if _is_const(b, True):
        return ast.BoolOp(op=ast.Or(), values=[ast.UnaryOp(op=ast.Not(), operand=test), a])
    return ast.IfExp(test=test, body=a, orelse=b)


def _body_as_expr(stmts: Sequence[ast.stmt]) -> Optional[ast.AST]:
    """the value a statement list returns, as one expression, when it consists only of guard-style `if ...: return X` chains ending in a return
    (no loops, no side-effecting statements); None otherwise"""
    if not stmts:
        return None
    st = stmts[0]
    if isinstance(st, ast.Return):
        return st.value if st.value is not None else ast.Constant(value=None)
    if isinstance(st, ast.If):
        rest = list(stmts[1:])
        a = _body_as_expr(list(st.body) + ([] if _ends_with_return(st.body) else rest))
        b = _body_as_expr(list(st.orelse) + ([] if (st.orelse and _ends_with_return(st.orelse)) else rest))
        if a is None or b is None:
            return None
        return _cond_expr(st.test, a, b)
    if isinstance(st, ast.Pass) or (isinstance(st, ast.Expr) and isinstance(st.value, ast.Constant)):
        return _body_as_expr(stmts[1:])
    if isinstance(st, ast.Assign) and len(st.targets) == 1 and isinstance(st.targets[0], ast.Name) and _side_effect_free(st.value):
        # a local computed once and only read afterwards: substitute it
        nm = st.targets[0].id
        rest = list(stmts[1:])
        if any(isinstance(n, ast.Name) and n.id == nm and isinstance(n.ctx, ast.Store) for x in rest for n in ast.walk(x)):
            return None
        e = _body_as_expr(rest)
        if e is None:
            return None
        return _Subst({nm: st.value}).visit(clone(e))
    return None


def _side_effect_free(e: ast.AST) -> bool:
    for n in ast.walk(e):
        if isinstance(n, (ast.Yield, ast.YieldFrom, ast.Await, ast.NamedExpr, ast.Lambda)):
            return False
        if isinstance(n, ast.Call):
            f = n.func
            nm = f.attr if isinstance(f, ast.Attribute) else (f.id if isinstance(f, ast.Name) else "")
            if nm not in ("strip", "lstrip", "rstrip", "lower", "upper", "startswith", "endswith", "split", "get", "len", "str", "int", "bool", "tuple", "isinstance", "keys",
                          "values", "items", "join", "format", "count", "find", "index", "replace"):
                return False
    return True


def _pure_names(e) -> bool:
    return isinstance(e, (ast.Name, ast.Constant)) or (isinstance(e, ast.Tuple) and all(_pure_names(x) for x in e.elts))


def _try_returns_to_tail(body: List[ast.stmt]) -> List[ast.stmt]:
    """[..., try: pre; if c: return X; post  except ...: raise, return Y]   (X, Y plain names / tuples of names)
    ->  [..., try: pre; if c: _r = X else: post; _r = Y   except ...: raise, return _r]
    so that the helper has its only return in tail position and can be inlined.  The handlers must not return."""
    if len(body) < 2 or not isinstance(body[-1], ast.Return) or body[-1].value is None or not _pure_names(body[-1].value) or not isinstance(body[-2], ast.Try):
        return body
    tr = body[-2]
    if tr.orelse or tr.finalbody:
        return body
    for h in tr.handlers:
        if any(isinstance(n, ast.Return) for x in h.body for n in _walk_no_nested(x)):
            return body
    idx = [i for i, st in enumerate(tr.body) if isinstance(st, ast.If) and not st.orelse and len(st.body) == 1 and isinstance(st.body[0], ast.Return)
           and st.body[0].value is not None and _pure_names(st.body[0].value)]
    rets_in_try = [n for x in tr.body for n in _walk_no_nested(x) if isinstance(n, ast.Return)]
    if len(idx) != 1 or len(rets_in_try) != 1:
        return body
    i = idx[0]
    iff = tr.body[i]
    rname = "_tryret"
    def asg(v, at):
        return ast.copy_location(ast.Assign(targets=[ast.Name(id=rname, ctx=ast.Store())], value=v, lineno=getattr(at, "lineno", 0)), at)
    new_if = ast.copy_location(ast.If(test=iff.test, body=[asg(iff.body[0].value, iff)], orelse=list(tr.body[i + 1:]) + [asg(body[-1].value, body[-1])]), iff)
    new_try = ast.copy_location(ast.Try(body=list(tr.body[:i]) + [new_if], handlers=tr.handlers, orelse=[], finalbody=[]), tr)
    new_ret = ast.copy_location(ast.Return(value=ast.Name(id=rname, ctx=ast.Load())), body[-1])
    return list(body[:-2]) + [new_try, new_ret]


def _ends_with_return(stmts: Sequence[ast.stmt]) -> bool:
    if not stmts:
        return False
    last = stmts[-1]
    if isinstance(last, ast.Return):
        return True
    if isinstance(last, ast.If):
        return _ends_with_return(last.body) and _ends_with_return(last.orelse)
    return False


def _protected_names() -> Set[str]:
    """identifiers the rule modules refer to (function names used as anchors must stay visible as calls, never inlined)"""
    import os
    import re
    here = os.path.dirname(os.path.dirname(os.path.abspath(__file__)))
    words: Set[str] = set()
    for sub in ("rules", "sa"):
        d = os.path.join(here, sub)
        for fn in os.listdir(d):
            if fn.endswith(".py") and fn != "canon.py":
                try:
                    tree = ast.parse(open(os.path.join(d, fn), encoding="utf-8").read())
                except SyntaxError:
                    continue
                for ch in ast.walk(tree):
                    for x in ast.iter_child_nodes(ch):
                        x._p = ch
                skip = set()
                for n in ast.walk(tree):
                    if isinstance(n, ast.Call):
                        fn_ = n.func
                        nm = fn_.attr if isinstance(fn_, ast.Attribute) else (fn_.id if isinstance(fn_, ast.Name) else "")
                        if nm in ("rule", "check", "violated", "holds", "undecided", "floor", "AnchorError", "append", "count", "Unknown", "print"):
                            for a in list(n.args) + [k.value for k in n.keywords]:
                                for y in ast.walk(a):
                                    skip.add(id(y))
                        for k in n.keywords:
                            if k.arg in ("key_text", "detail", "what", "why"):
                                for y in ast.walk(k.value):
                                    skip.add(id(y))
                    if isinstance(n, ast.JoinedStr):
                        for y in ast.walk(n):
                            skip.add(id(y))
                for n in ast.walk(tree):
                    if isinstance(n, ast.Constant) and isinstance(n.value, str) and len(n.value) < 120 and id(n) not in skip:
                        v = n.value.strip()
                        if "/" in v or re.match(r"^C\d\d", v) or (("-" in v) and "[" not in v and "(" not in v):
                            continue   # construct names, rule ids, finding keys
                        codeish = (" " not in v) or (len(v.split()) <= 5 and any(ch in v for ch in "[]()=") and not v.endswith((".", ":")) and "  " not in v)
                        if codeish:
                            for w in re.findall(r"[A-Za-z_][A-Za-z0-9_]*", v):
                                words.add(w)
    return words


class Canonicalizer:
    def __init__(self, repo, max_depth: int = 3, max_helper_stmts: int = 60):
        self.protected = _protected_names()
        self.repo = repo
        self.max_depth = max_depth
        self.max_helper_stmts = max_helper_stmts
        self.cache: Dict[Tuple[int, bool], ast.FunctionDef] = {}
        self._active: Set[int] = set()
        self._helper_mode = 0
        self.notes: List[str] = []

    # ------------------------------------------------------------------ entry
    def canon(self, mod, fn: ast.FunctionDef) -> ast.FunctionDef:
        ckey = (id(fn), bool(self._helper_mode))
        if ckey in self.cache:
            return self.cache[ckey]
        if getattr(fn, "_canon_of", None) is not None:
            return fn
        top = id(fn) not in self._active
        self._active.add(id(fn))
        new = clone(fn)
        new._canon_of = fn
        owner = getattr(fn, "_parent", None)
        set_parents(new, owner)
        if self._closure_recursion(new):
            set_parents(new, owner)
        # alpha-normalisation first: locals recognised by their signature get the reference spelling back (sa/refnames.py)
        try:
            from . import refnames
            q = self.repo.qualname_of(mod, fn)
            if q and refnames.restore(mod.name, q, new):
                set_parents(new, owner)
                self.notes.append(f"restored local names in {fn.name}")
        except RecursionError:
            pass
        try:
            self._functional_forms(new)
            set_parents(new, owner)
            for _ in range(40):
                if not (self._hoist_round(mod, new, fn) or self._inline_round(mod, new, fn)):
                    break
                set_parents(new, owner)
            self._module_constants(mod, new)
            set_parents(new, owner)
            self._functional_forms(new)
            if self._desugar_comprehensions(new):
                set_parents(new, owner)
            for _ in range(20):
                if not self._lift_conditionals(new):
                    break
                set_parents(new, owner)
            for _ in range(6):
                if not self._unroll_maps(new):
                    break
                set_parents(new, owner)
            # desugaring exposes helper calls that sat inside comprehensions / conditional values: inline once more
            for _ in range(40):
                if not (self._hoist_round(mod, new, fn) or self._inline_round(mod, new, fn)):
                    break
                set_parents(new, owner)
            self._functional_forms(new)
            if self._desugar_comprehensions(new):
                set_parents(new, owner)
            for _ in range(20):
                if not self._lift_conditionals(new):
                    break
                set_parents(new, owner)
            for _ in range(60):
                if not self._copy_propagate(new):
                    break
                set_parents(new, owner)
        except RecursionError:
            new = clone(fn)
            set_parents(new, owner)
        ast.fix_missing_locations(new)
        set_parents(new, owner)
        number_nodes(new)
        new._canon_of = fn
        if top:
            self._active.discard(id(fn))
        self.cache[ckey] = new
        return new

    # ------------------------------------------------------------------ recursion through a local closure -> recursion of the function itself
    def _closure_recursion(self, new: ast.FunctionDef) -> bool:
        """def f(a, b, flag): def walk(x, y): ... walk(p, q) ...; return walk(a, b)   ==>   def f(a, b, flag): ... f(a=p, b=q, flag=flag) ...
        (the closure only exists to avoid passing the invariant arguments down; its parameters are the outer parameters it is first called with)"""
        body = _docless(new.body)
        if len(body) != 2 or not isinstance(body[0], ast.FunctionDef) or not isinstance(body[1], ast.Return):
            return False
        inner, ret = body
        call = ret.value
        if not (isinstance(call, ast.Call) and isinstance(call.func, ast.Name) and call.func.id == inner.name and not call.keywords and not inner.decorator_list):
            return False
        ia = inner.args
        if ia.vararg or ia.kwarg or ia.kwonlyargs or ia.defaults or ia.posonlyargs or len(ia.args) != len(call.args):
            return False
        oa = new.args
        outer_params = [a.arg for a in oa.posonlyargs + oa.args + oa.kwonlyargs]
        if oa.vararg or oa.kwarg or oa.posonlyargs:
            return False
        if not all(isinstance(a, ast.Name) and a.id in outer_params for a in call.args) or len({a.id for a in call.args}) != len(call.args):
            return False
        if _is_generator(inner):
            return False
        mapping = {p.arg: a.id for p, a in zip(ia.args, call.args)}
        inner_names = {n.id for n in ast.walk(inner) if isinstance(n, ast.Name)}
        # the outer names the parameters are renamed to must not be read inside the closure under their own name, and the closure must not rebind what it closes over
        if any(o in inner_names and o != i for i, o in mapping.items()):
            return False
        stored = {n.id for n in ast.walk(inner) if isinstance(n, ast.Name) and isinstance(n.ctx, (ast.Store, ast.Del))}
        if (stored & (set(outer_params) - set(mapping.values()))) or any(isinstance(n, (ast.Nonlocal, ast.Global)) for n in ast.walk(inner)):
            return False
        # every use of the closure's name is a plain positional call
        for n in ast.walk(inner):
            if isinstance(n, ast.Name) and n.id == inner.name:
                par = getattr(n, "_parent", None)
                if not (isinstance(par, ast.Call) and par.func is n and not par.keywords and len(par.args) == len(ia.args) and not any(isinstance(a, ast.Starred) for a in par.args)):
                    return False
        others = [p for p in outer_params if p not in mapping.values()]
        pnames = [p.arg for p in ia.args]

        class _R(ast.NodeTransformer):
            def visit_Call(self, node):
                self.generic_visit(node)
                if isinstance(node.func, ast.Name) and node.func.id == inner.name:
                    kws = [ast.keyword(arg=mapping[pn], value=a) for pn, a in zip(pnames, node.args)] + [ast.keyword(arg=o, value=ast.Name(id=o, ctx=ast.Load())) for o in others]
                    return ast.copy_location(ast.Call(func=ast.Name(id=new.name, ctx=ast.Load()), args=[], keywords=kws), node)
                return node

            def visit_Name(self, node):
                if node.id in mapping:
                    node.id = mapping[node.id]
                return node
        nb = [_R().visit(st) for st in _docless(inner.body)]
        new.body = nb
        ast.fix_missing_locations(new)
        self.notes.append(f"turned the recursion of closure {inner.name} into recursion of {new.name}")
        return True

    # ------------------------------------------------------------------ inlining
    def _helper_of(self, mod, root_orig: ast.FunctionDef, scope: ast.AST, call: ast.Call):
        """resolve `call` (appearing in the canonical copy) to a same-module helper"""
        f = call.func
        h = None
        is_method = False
        if isinstance(f, ast.Name):
            d = mod.defs.get(f.id)
            if isinstance(d, ast.FunctionDef):
                h = d
        elif isinstance(f, ast.Attribute) and isinstance(f.value, ast.Name) and f.value.id in ("self", "cls"):
            cls = self.repo.enclosing_class(root_orig)
            if cls is not None:
                r = self.repo.class_attr(mod, cls, f.attr)
                if r and isinstance(r[2], ast.FunctionDef) and r[0] is mod:
                    h = r[2]
                    is_method = True
        if h is None or h is root_orig or h.name in self.protected:
            return None
        if h.decorator_list and not all(isinstance(d, ast.Name) and d.id in ("staticmethod", "classmethod") for d in h.decorator_list):
            return None
        if any(isinstance(d, ast.Name) and d.id == "staticmethod" for d in h.decorator_list):
            is_method = False
            if isinstance(f, ast.Attribute):
                # self.helper(...) on a staticmethod: no self binding
                pass
        if id(h) in self._active:
            # an ancestor of the function being canonicalised (mutual recursion): never inline it into its own callee
            return None
        if id(h) not in self._active:
            self._active.add(id(h))
            try:
                self._helper_mode += 1
                hc = self.canon(mod, h)
            finally:
                self._helper_mode -= 1
                self._active.discard(id(h))
        else:
            hc = h
        raw_h = h
        h = hc
        body = _try_returns_to_tail(_docless(h.body))
        n_stmts = sum(1 for _ in _walk_no_nested(h) if isinstance(_, ast.stmt))
        if n_stmts > self.max_helper_stmts:
            return None
        # recursion
        for n in _walk_no_nested(h):
            if isinstance(n, ast.Call) and ((isinstance(n.func, ast.Name) and n.func.id == h.name) or
                                            (isinstance(n.func, ast.Attribute) and n.func.attr == h.name)):
                return None
            if isinstance(n, (ast.Global, ast.Nonlocal)):
                return None
        if any(isinstance(n, FuncT + (ast.ClassDef,)) for n in _walk_no_nested(h, include_root=False)):
            return None
        return h, body, is_method

    def _hoist_round(self, mod, new: ast.FunctionDef, orig: ast.FunctionDef) -> bool:
        """a call to an inlinable statement helper nested inside a simple statement is hoisted into `_hN = helper(...)` first"""
        for st in [n for n in _walk_no_nested(new) if isinstance(n, (ast.Expr, ast.Assign, ast.Return, ast.AugAssign))]:
            top = st.value if not isinstance(st, ast.AugAssign) else st.value
            if top is None:
                continue
            for call in [n for n in ast.walk(top) if isinstance(n, ast.Call)]:
                if call is top and isinstance(st, ast.Expr):
                    continue
                if call is top and isinstance(st, ast.Assign) and len(st.targets) == 1 and isinstance(st.targets[0], (ast.Name, ast.Tuple)):
                    continue
                if call is top and isinstance(st, ast.Return) and st is new.body[-1]:
                    continue
                # not under short-circuit / conditional / lambda / comprehension
                p, ok = getattr(call, "_parent", None), True
                while p is not None and p is not st:
                    if isinstance(p, (ast.BoolOp, ast.IfExp, ast.Lambda, ast.ListComp, ast.SetComp, ast.DictComp, ast.GeneratorExp)):
                        ok = False
                        break
                    if isinstance(p, (ast.Yield, ast.YieldFrom)) and (p is not top or call is p.value):
                        ok = False
                        break
                    p = getattr(p, "_parent", None)
                if not ok:
                    continue
                res = self._helper_of(mod, orig, new, call)
                if not res:
                    continue
                h, body, is_method = res
                if _is_generator(h) or (len(body) == 1 and isinstance(body[0], ast.Return)) or (len(body) > 1 and _body_as_expr(body) is not None):
                    continue
                if not _tail_returns_only(body):
                    continue
                k = next(_counter)
                nm = f"_h{k}"
                asg = ast.Assign(targets=[ast.Name(id=nm, ctx=ast.Store())], value=call, lineno=st.lineno)
                ast.copy_location(asg, st)
                self._replace(st, call, ast.copy_location(ast.Name(id=nm, ctx=ast.Load()), call))
                self._replace_stmt(new, st, [asg, st])
                return True
        return False

    def _inline_round(self, mod, new: ast.FunctionDef, orig: ast.FunctionDef) -> bool:
        changed = False
        # (E) expression helpers, anywhere
        for call in [n for n in _walk_no_nested(new) if isinstance(n, ast.Call)]:
            res = self._helper_of(mod, orig, new, call)
            if not res:
                continue
            h, body, is_method = res
            if _is_generator(h):
                continue
            as_expr = body[0].value if (len(body) == 1 and isinstance(body[0], ast.Return)) else (_body_as_expr(body) if len(body) > 1 else None)
            if as_expr is not None:
                is_static = any(isinstance(d, ast.Name) and d.id == "staticmethod" for d in h.decorator_list)
                bound = _bind(call, h, is_method and not is_static)
                if bound is None:
                    continue
                expr = as_expr
                uses = {}
                for n in ast.walk(expr):
                    if isinstance(n, ast.Name) and n.id in bound:
                        uses[n.id] = uses.get(n.id, 0) + 1
                if any((not _simple(a)) and uses.get(p, 0) > 1 for p, a in bound.items()):
                    continue
                # free names of the helper body must mean the same in the caller: module-level names only
                local_clash = {n.id for n in ast.walk(expr) if isinstance(n, ast.Name) and n.id not in bound} & _assigned_names(new)
                if local_clash:
                    continue
                rep = _Subst(bound).visit(clone(expr))
                self._replace(new, call, rep)
                changed = True
                self.notes.append(f"inlined expression helper {h.name} into {orig.name}")
        if changed:
            return True
        # (S)/(G) statement helpers
        for st in [n for n in _walk_no_nested(new) if isinstance(n, ast.stmt)]:
            call = None
            target = None
            gen = False
            if isinstance(st, ast.Expr) and isinstance(st.value, ast.Call):
                call = st.value
            elif isinstance(st, ast.Expr) and isinstance(st.value, ast.YieldFrom) and isinstance(st.value.value, ast.Call):
                call, gen = st.value.value, True
            elif isinstance(st, ast.Assign) and len(st.targets) == 1 and isinstance(st.value, ast.Call) and isinstance(st.targets[0], (ast.Name, ast.Tuple)):
                call, target = st.value, st.targets[0]
            elif isinstance(st, ast.AnnAssign) and isinstance(st.value, ast.Call) and isinstance(st.target, ast.Name):
                call, target = st.value, st.target
            materialise = None
            mat_ctor = None
            if isinstance(st, ast.Return) and isinstance(st.value, ast.Call) and isinstance(st.value.func, ast.Name) and st.value.func.id in ("list", "dict", "odict", "OrderedDict") \
                    and len(st.value.args) == 1 and not st.value.keywords and isinstance(st.value.args[0], ast.Call):
                r0 = self._helper_of(mod, orig, new, st.value.args[0])
                if r0 and _is_generator(r0[0]):
                    # return ctor(generator_helper(...))  ->  _acc = ctor(generator_helper(...)); return _acc     (materialised by the next round)
                    acc = f"_acc{next(_counter)}"
                    a_ = ast.copy_location(ast.Assign(targets=[ast.Name(id=acc, ctx=ast.Store())], value=st.value, lineno=st.lineno), st)
                    r_ = ast.copy_location(ast.Return(value=ast.Name(id=acc, ctx=ast.Load())), st)
                    self._replace_stmt(new, st, [a_, r_])
                    return True
            if isinstance(st, ast.Assign) and len(st.targets) == 1 and isinstance(st.targets[0], ast.Name) and isinstance(st.value, ast.Call) \
                    and isinstance(st.value.func, ast.Name) and st.value.func.id in ("list", "dict", "odict", "OrderedDict") and len(st.value.args) == 1 and not st.value.keywords \
                    and isinstance(st.value.args[0], ast.Call):
                # X = list(generator_helper(...)): the helper's yields become appends to X;  X = dict(generator_helper(...)): `yield k, v` becomes X[k] = v
                call, target, gen, materialise = st.value.args[0], None, True, st.targets[0].id
                mat_ctor = st.value.func.id
            elif isinstance(st, ast.Return) and isinstance(st.value, ast.Call) and st is new.body[-1]:
                call = st.value
                target = "RETURN"
            if call is None:
                continue
            res = self._helper_of(mod, orig, new, call)
            if not res:
                continue
            h, body, is_method = res
            if _is_generator(h) != gen:
                continue
            if not gen and ((len(body) == 1 and isinstance(body[0], ast.Return)) or (len(body) > 1 and _body_as_expr(body) is not None)):
                continue  # expression form handled above (or not inlinable)
            if not _tail_returns_only(body):
                continue
            if gen and any(isinstance(n, ast.Return) and n.value is not None for n in _walk_no_nested(h)):
                continue
            is_static = any(isinstance(d, ast.Name) and d.id == "staticmethod" for d in h.decorator_list)
            bound = _bind(call, h, is_method and not is_static)
            if bound is None:
                continue
            k = next(_counter)
            assigned = _assigned_names(h)
            pre: List[ast.stmt] = []
            subst: Dict[str, ast.AST] = {}
            rename: Dict[str, str] = {}
            all_rets = [n for x in body for n in _walk_no_nested(x) if isinstance(n, ast.Return)]
            for p, a in bound.items():
                if p in ("self", "cls"):
                    subst[p] = a
                elif _simple(a) and p not in assigned:
                    subst[p] = a
                elif isinstance(a, ast.Name) and isinstance(target, ast.Name) and target.id == a.id and all_rets \
                        and all(isinstance(r_.value, ast.Name) and r_.value.id == p for r_ in all_rets) \
                        and sum(1 for a2 in bound.values() for n in ast.walk(a2) if isinstance(n, ast.Name) and n.id == a.id) == 1:
                    # x = helper(x): the helper updates its copy of x and returns it -- update x itself
                    rename[p] = a.id
                else:
                    nm = f"_inl{k}_{p}"
                    rename[p] = nm
                    pre.append(ast.copy_location(ast.Assign(targets=[ast.Name(id=nm, ctx=ast.Store())], value=clone(a), lineno=st.lineno), st))
            caller_names = _assigned_names(new) | {a.arg for a in new.args.args + new.args.kwonlyargs} | \
                {n.id for n in _walk_no_nested(new) if isinstance(n, ast.Name)}
            # names used by the statement being replaced do not count (the call's own target may be reused)
            for nm in assigned:
                if nm not in bound and nm in caller_names and not (isinstance(target, ast.Name) and target.id == nm):
                    rename[nm] = f"_inl{k}_{nm}"
            free_clash = {n.id for x in body for n in ast.walk(x) if isinstance(n, ast.Name) and n.id not in bound and n.id not in assigned} & _assigned_names(new)
            if free_clash:
                continue
            # a helper that builds its result in a local and returns it at the end: build it in the caller's target directly
            rets = [n for x in body for n in _walk_no_nested(x) if isinstance(n, ast.Return)]
            if isinstance(target, ast.Name) and len(rets) == 1 and rets[0] is body[-1] and isinstance(rets[0].value, ast.Name) \
                    and rets[0].value.id in assigned and rets[0].value.id not in bound \
                    and not any(isinstance(n, ast.Name) and n.id == target.id for a in list(call.args) + [k.value for k in call.keywords] for n in ast.walk(a)) \
                    and target.id not in assigned and not any(isinstance(n, ast.Name) and n.id == target.id for x in body for n in ast.walk(x)):
                rename[rets[0].value.id] = target.id
            elif isinstance(target, ast.Tuple) and len(rets) == 1 and rets[0] is body[-1] and isinstance(rets[0].value, ast.Tuple) \
                    and len(rets[0].value.elts) == len(target.elts) and all(isinstance(e, ast.Name) for e in list(target.elts) + list(rets[0].value.elts)):
                tn = [e.id for e in target.elts]
                rn = [e.id for e in rets[0].value.elts]
                argnames = {n.id for a in list(call.args) + [k.value for k in call.keywords] for n in ast.walk(a) if isinstance(n, ast.Name)}
                bodynames = {n.id for x in body for n in ast.walk(x) if isinstance(n, ast.Name)}
                if len(set(rn)) == len(rn) and all(r in assigned and r not in bound for r in rn) and not (set(tn) & argnames) and not ((set(tn) - set(rn)) & bodynames):
                    for r, t in zip(rn, tn):
                        rename[r] = t
            nb = [clone(x) for x in body]
            nb = [_Rename(rename).visit(x) for x in nb]
            nb = [_Subst(subst).visit(x) for x in nb]
            if target == "RETURN":
                # `return helper(...)` as the last statement: keep the helper's returns as returns
                new_body = pre + nb
            else:
                tgt = None if (target is None or gen) else target
                new_body = pre + _rewrite_returns(nb, tgt)
                new_body = [x for x in new_body if not (isinstance(x, ast.Assign) and len(x.targets) == 1 and isinstance(x.targets[0], ast.Name)
                                                        and isinstance(x.value, ast.Name) and x.value.id == x.targets[0].id)]
                new_body = [x for x in new_body if not (isinstance(x, ast.Assign) and len(x.targets) == 1 and isinstance(x.targets[0], ast.Tuple) and isinstance(x.value, ast.Tuple)
                                                        and [getattr(e, "id", 0) for e in x.targets[0].elts] == [getattr(e, "id", 1) for e in x.value.elts])]
            if materialise is not None:
                if any(isinstance(n, ast.Name) and n.id == materialise for x in new_body for n in ast.walk(x)):
                    continue

                as_dict = mat_ctor in ("dict", "odict", "OrderedDict")
                if as_dict and any((isinstance(n, ast.YieldFrom) or (isinstance(n, ast.Yield) and not (isinstance(n.value, ast.Tuple) and len(n.value.elts) == 2)))
                                   for x in new_body for n in ast.walk(x)):
                    continue   # not a producer of (key, value) pairs

                class _Y(ast.NodeTransformer):
                    def visit_Expr(self, node):
                        if isinstance(node.value, ast.Yield) and as_dict:
                            k_, v_ = node.value.value.elts
                            return ast.copy_location(ast.Assign(targets=[ast.Subscript(value=ast.Name(id=materialise, ctx=ast.Load()), slice=k_, ctx=ast.Store())], value=v_,
                                                                lineno=getattr(node, "lineno", 0)), node)
                        if isinstance(node.value, ast.Yield):
                            v = node.value.value if node.value.value is not None else ast.Constant(value=None)
                            return ast.copy_location(ast.Expr(value=ast.Call(func=ast.Attribute(value=ast.Name(id=materialise, ctx=ast.Load()), attr="append", ctx=ast.Load()),
                                                                            args=[v], keywords=[])), node)
                        if isinstance(node.value, ast.YieldFrom):
                            return ast.copy_location(ast.Expr(value=ast.Call(func=ast.Attribute(value=ast.Name(id=materialise, ctx=ast.Load()), attr="extend", ctx=ast.Load()),
                                                                            args=[node.value.value], keywords=[])), node)
                        return node

                    def visit_FunctionDef(self, node):
                        return node

                    def visit_Lambda(self, node):
                        return node
                new_body = [_Y().visit(x) for x in new_body]
                if any(isinstance(n, (ast.Yield, ast.YieldFrom)) for x in new_body for n in ast.walk(x)):
                    continue   # a yield used as an expression: not a plain producer
                init_v = ast.Call(func=ast.Name(id=mat_ctor, ctx=ast.Load()), args=[], keywords=[]) if as_dict else ast.List(elts=[], ctx=ast.Load())
                init = ast.copy_location(ast.Assign(targets=[ast.Name(id=materialise, ctx=ast.Store())], value=init_v, lineno=st.lineno), st)
                new_body = [init] + new_body
            if not new_body:
                new_body = [ast.copy_location(ast.Pass(), st)]
            self._replace_stmt(new, st, new_body)
            changed = True
            self.notes.append(f"inlined statement helper {h.name} into {orig.name}")
            return True
        return changed

    @staticmethod
    def _replace(root, old, new):
        for n in ast.walk(root):
            for field, val in ast.iter_fields(n):
                if val is old:
                    setattr(n, field, new)
                    return
                if isinstance(val, list):
                    for i, x in enumerate(val):
                        if x is old:
                            val[i] = new
                            return

    @staticmethod
    def _replace_stmt(root, old, new_list):
        for n in ast.walk(root):
            for field, val in ast.iter_fields(n):
                if isinstance(val, list):
                    for i, x in enumerate(val):
                        if x is old:
                            val[i:i + 1] = new_list
                            return

    # ------------------------------------------------------------------ acc = []; for t in [a, b, c]: acc.append(f(t)); x, y, z = acc  ->  x = f(a); y = f(b); z = f(c)
    def _unroll_maps(self, new: ast.FunctionDef) -> bool:
        for blk in [n for n in ast.walk(new) if isinstance(getattr(n, "body", None), list)]:
            for field in ("body", "orelse", "finalbody"):
                stmts = getattr(blk, field, None)
                if not isinstance(stmts, list):
                    continue
                # `a, b = (e1, e2)` -> a = e1; b = e2   (no element reads an earlier target: the elements are evaluated in this order anyway)
                for i, u in enumerate(stmts):
                    if isinstance(u, ast.Assign) and len(u.targets) == 1 and isinstance(u.targets[0], (ast.Tuple, ast.List)) and isinstance(u.value, (ast.Tuple, ast.List)) \
                            and len(u.targets[0].elts) == len(u.value.elts) >= 2 and all(isinstance(e, ast.Name) for e in u.targets[0].elts) \
                            and not any(isinstance(e, ast.Starred) for e in u.value.elts):
                        tn = [e.id for e in u.targets[0].elts]
                        if len(set(tn)) != len(tn):
                            continue
                        if any({n.id for n in ast.walk(e) if isinstance(n, ast.Name)} & set(tn[:j]) for j, e in enumerate(u.value.elts)):
                            continue
                        if any(isinstance(e, ast.Call) for e in u.value.elts) is False:
                            continue      # plain swaps / re-bindings of names are left as they are (rules read them as one statement)
                        seq = [ast.copy_location(ast.Assign(targets=[ast.Name(id=t_, ctx=ast.Store())], value=e, lineno=u.lineno), u) for t_, e in zip(tn, u.value.elts)]
                        stmts[i:i + 1] = seq
                        self.notes.append(f"split a tuple assignment in {new.name}")
                        return True
                # `x, y, z = [f(t) for t in (a, b, c)]`  (list / generator / tuple(...) of one)  ->  x = f(a); y = f(b); z = f(c)
                for i, u in enumerate(stmts):
                    if not (isinstance(u, ast.Assign) and len(u.targets) == 1 and isinstance(u.targets[0], (ast.Tuple, ast.List)) and all(isinstance(e, ast.Name) for e in u.targets[0].elts)):
                        continue
                    v = u.value
                    if isinstance(v, ast.Call) and isinstance(v.func, ast.Name) and v.func.id in ("tuple", "list") and len(v.args) == 1 and not v.keywords:
                        v = v.args[0]
                    if not (isinstance(v, (ast.ListComp, ast.GeneratorExp)) and len(v.generators) == 1 and not v.generators[0].ifs and not v.generators[0].is_async
                            and isinstance(v.generators[0].target, ast.Name)):
                        continue
                    g = v.generators[0]
                    it = g.iter
                    if not (isinstance(it, (ast.List, ast.Tuple)) and len(it.elts) == len(u.targets[0].elts) and 1 <= len(it.elts) <= 8 and all(_simple(e) for e in it.elts)):
                        continue
                    tnames = [e.id for e in u.targets[0].elts]
                    clash = any({n.id for n in ast.walk(e) if isinstance(n, ast.Name)} & set(tnames[:j]) for j, e in enumerate(it.elts))
                    body_names = {n.id for n in ast.walk(v.elt) if isinstance(n, ast.Name)} - {g.target.id}
                    if clash or (body_names & set(tnames)):
                        continue
                    seq = []
                    for t_, e in zip(tnames, it.elts):
                        val = _Subst({g.target.id: e}).visit(clone(v.elt))
                        seq.append(ast.copy_location(ast.Assign(targets=[ast.Name(id=t_, ctx=ast.Store())], value=val, lineno=u.lineno), u))
                    stmts[i:i + 1] = seq
                    self.notes.append(f"unrolled a comprehension over {len(seq)} elements in {new.name}")
                    return True
                for i in range(len(stmts) - 2):
                    a, lp, u = stmts[i], stmts[i + 1], stmts[i + 2]
                    pre = []
                    # optional `trees = [a, b, c]` just before the accumulator
                    if isinstance(a, ast.Assign) and isinstance(lp, ast.Assign) and i + 3 < len(stmts):
                        pre, a, lp, u = [a], stmts[i + 1], stmts[i + 2], stmts[i + 3]
                    if not (isinstance(a, ast.Assign) and len(a.targets) == 1 and isinstance(a.targets[0], ast.Name) and isinstance(a.value, ast.List) and not a.value.elts):
                        continue
                    acc = a.targets[0].id
                    if not (isinstance(lp, ast.For) and isinstance(lp.target, ast.Name) and not lp.orelse and len(lp.body) == 1):
                        continue
                    it = lp.iter
                    if pre and isinstance(it, ast.Name) and isinstance(pre[0].targets[0], ast.Name) and pre[0].targets[0].id == it.id:
                        it = pre[0].value
                    elif pre:
                        continue
                    if not (isinstance(it, (ast.List, ast.Tuple)) and 1 <= len(it.elts) <= 8 and all(_simple(e) for e in it.elts)):
                        continue
                    b = lp.body[0]
                    if not (isinstance(b, ast.Expr) and isinstance(b.value, ast.Call) and isinstance(b.value.func, ast.Attribute) and b.value.func.attr == "append"
                            and isinstance(b.value.func.value, ast.Name) and b.value.func.value.id == acc and len(b.value.args) == 1):
                        continue
                    if not (isinstance(u, ast.Assign) and len(u.targets) == 1 and isinstance(u.targets[0], (ast.Tuple, ast.List)) and isinstance(u.value, ast.Name) and u.value.id == acc
                            and len(u.targets[0].elts) == len(it.elts) and all(isinstance(e, ast.Name) for e in u.targets[0].elts)):
                        continue
                    tnames = [e.id for e in u.targets[0].elts]
                    # later elements must not read earlier targets (their value at list-construction time is what counts)
                    clash = False
                    for j, e in enumerate(it.elts):
                        used = {n.id for n in ast.walk(e) if isinstance(n, ast.Name)}
                        if used & set(tnames[:j]):
                            clash = True
                    body_names = {n.id for n in ast.walk(b.value.args[0]) if isinstance(n, ast.Name)} - {lp.target.id}
                    if clash or (body_names & set(tnames)):
                        continue
                    # the accumulator and the element list are not used elsewhere
                    others = [n for n in _walk_no_nested(new) if isinstance(n, ast.Name) and n.id == acc and not any(n is y for s_ in ([a, lp, u]) for y in ast.walk(s_))]
                    if others:
                        continue
                    seq = []
                    for t_, e in zip(tnames, it.elts):
                        val = _Subst({lp.target.id: e}).visit(clone(b.value.args[0]))
                        seq.append(ast.copy_location(ast.Assign(targets=[ast.Name(id=t_, ctx=ast.Store())], value=val, lineno=u.lineno), u))
                    lo = i
                    hi = i + (4 if pre else 3)
                    keep_pre = []
                    if pre:
                        pn = pre[0].targets[0].id
                        if any(isinstance(n, ast.Name) and n.id == pn and not any(n is y for s_ in (pre[0], lp) for y in ast.walk(s_)) for n in _walk_no_nested(new)):
                            keep_pre = pre
                    stmts[lo:hi] = keep_pre + seq
                    self.notes.append(f"unrolled a map over {len(seq)} elements in {new.name}")
                    return True
        return False

    # ------------------------------------------------------------------ conditional values / EAFP lookups -> if statements
    def _lift_conditionals(self, new: ast.FunctionDef) -> bool:
        """`yield A if c else B` -> `if c: yield A else: yield B` (same for return);
        `try: x = d[k] except KeyError: <body>` -> `if k in d: x = d[k] else: <body>` (dict-like lookups)"""
        for st in [n for n in _walk_no_nested(new) if isinstance(n, ast.stmt)]:
            if isinstance(st, ast.Expr) and isinstance(st.value, ast.Yield) and isinstance(st.value.value, ast.IfExp):
                ie = st.value.value
                a = ast.copy_location(ast.Expr(value=ast.copy_location(ast.Yield(value=ie.body), st)), st)
                b = ast.copy_location(ast.Expr(value=ast.copy_location(ast.Yield(value=ie.orelse), st)), st)
                self._replace_stmt(new, st, [ast.copy_location(ast.If(test=ie.test, body=[a], orelse=[b]), st)])
                return True
            if isinstance(st, ast.Return) and isinstance(st.value, ast.IfExp):
                ie = st.value
                a = ast.copy_location(ast.Return(value=ie.body), st)
                b = ast.copy_location(ast.Return(value=ie.orelse), st)
                self._replace_stmt(new, st, [ast.copy_location(ast.If(test=ie.test, body=[a], orelse=[b]), st)])
                return True
            # `T = A if c else B` -> if c: T = A else: T = B          (T a plain name)
            if isinstance(st, ast.Assign) and len(st.targets) == 1 and isinstance(st.targets[0], ast.Name) and isinstance(st.value, ast.IfExp):
                ie = st.value
                a = ast.copy_location(ast.Assign(targets=[clone(st.targets[0])], value=ie.body), st)
                b = ast.copy_location(ast.Assign(targets=[clone(st.targets[0])], value=ie.orelse), st)
                self._replace_stmt(new, st, [ast.copy_location(ast.If(test=ie.test, body=[a], orelse=[b]), st)])
                return True
            # `T = f(k, A if c else B)` where nothing else in the call reads T: the choice is made first, on T itself -> `T = A if c else B; T = f(k, T)`
            if isinstance(st, ast.Assign) and len(st.targets) == 1 and isinstance(st.targets[0], ast.Name) and isinstance(st.value, ast.Call):
                T = st.targets[0].id
                call = st.value
                ies = [i for i, a_ in enumerate(call.args) if isinstance(a_, ast.IfExp)]
                if len(ies) == 1 and not call.keywords or (len(ies) == 1 and all(not any(isinstance(x, ast.Name) and x.id == T for x in ast.walk(k.value)) for k in call.keywords)):
                    i = ies[0]
                    others = [a_ for j, a_ in enumerate(call.args) if j != i] + [call.func]
                    reads_t = any(isinstance(x, ast.Name) and x.id == T for o in others for x in ast.walk(o))
                    uses_t = any(isinstance(x, ast.Name) and x.id == T for x in ast.walk(call.args[i]))
                    pure_others = all(_side_effect_free(o) for o in others if o is not call.func)
                    if not reads_t and uses_t and pure_others:
                        first = ast.copy_location(ast.Assign(targets=[clone(st.targets[0])], value=call.args[i]), st)
                        call.args[i] = ast.copy_location(ast.Name(id=T, ctx=ast.Load()), st)
                        self._replace_stmt(new, st, [first, st])
                        return True
            if isinstance(st, ast.Try) and len(st.body) == 1 and len(st.handlers) == 1 and not st.orelse and not st.finalbody \
                    and st.handlers[0].type is not None and norm_name(st.handlers[0].type) == "KeyError" and st.handlers[0].name is None \
                    and isinstance(st.body[0], ast.Assign) and len(st.body[0].targets) == 1 and isinstance(st.body[0].value, ast.Subscript) \
                    and _simple(st.body[0].value.value) and _simple(st.body[0].value.slice):
                sub = st.body[0].value
                test = ast.Compare(left=clone(sub.slice), ops=[ast.In()], comparators=[clone(sub.value)])
                ast.copy_location(test, st)
                self._replace_stmt(new, st, [ast.copy_location(ast.If(test=test, body=list(st.body), orelse=list(st.handlers[0].body)), st)])
                return True
        return False

    # ------------------------------------------------------------------ list(filter(f, xs)) / list(map(f, xs)) -> comprehensions
    def _functional_forms(self, new: ast.FunctionDef) -> None:
        used = {n.id for n in ast.walk(new) if isinstance(n, ast.Name)} | {a.arg for a in new.args.args + new.args.kwonlyargs}

        class _F(ast.NodeTransformer):
            def visit_Call(self, node):
                self.generic_visit(node)
                if isinstance(node.func, ast.Name) and node.func.id in ("list", "set", "tuple") and len(node.args) == 1 and not node.keywords and isinstance(node.args[0], ast.Call) \
                        and isinstance(node.args[0].func, ast.Name) and node.args[0].func.id in ("filter", "map") and len(node.args[0].args) == 2 and not node.args[0].keywords:
                    inner = node.args[0]
                    f, xs = inner.args
                    if isinstance(f, ast.Constant) or not _side_effect_free(f) or node.func.id == "tuple":
                        return node
                    v = f"_it{next(_counter)}"
                    while v in used:
                        v = f"_it{next(_counter)}"
                    if isinstance(f, ast.Lambda) and len(f.args.args) == 1 and not f.args.defaults:
                        applied = _Subst({f.args.args[0].arg: ast.Name(id=v, ctx=ast.Load())}).visit(clone(f.body))
                    else:
                        applied = ast.Call(func=clone(f), args=[ast.Name(id=v, ctx=ast.Load())], keywords=[])
                    gen = ast.comprehension(target=ast.Name(id=v, ctx=ast.Store()), iter=xs, ifs=[applied] if inner.func.id == "filter" else [], is_async=0)
                    elt = ast.Name(id=v, ctx=ast.Load()) if inner.func.id == "filter" else applied
                    comp = ast.ListComp(elt=elt, generators=[gen]) if node.func.id == "list" else ast.SetComp(elt=elt, generators=[gen])
                    return ast.copy_location(comp, node)
                return node
        new.body = [_F().visit(st) for st in new.body]
        # functools.reduce(f, xs, init) at statement level -> the fold loop
        for blk in [n for n in ast.walk(new) if isinstance(getattr(n, "body", None), list)]:
            for field in ("body", "orelse", "finalbody"):
                stmts = getattr(blk, field, None)
                if not isinstance(stmts, list):
                    continue
                i = 0
                while i < len(stmts):
                    st = stmts[i]
                    call = st.value if isinstance(st, (ast.Expr, ast.Assign, ast.Return)) and isinstance(getattr(st, "value", None), ast.Call) else None
                    if call is not None and ((isinstance(call.func, ast.Attribute) and call.func.attr == "reduce" and isinstance(call.func.value, ast.Name) and call.func.value.id == "functools")
                                             or (isinstance(call.func, ast.Name) and call.func.id == "reduce")) and len(call.args) == 3 and not call.keywords \
                            and isinstance(call.args[0], ast.Name) and (not isinstance(st, ast.Assign) or (len(st.targets) == 1 and isinstance(st.targets[0], ast.Name))):
                        f, xs, init = call.args
                        acc = st.targets[0].id if isinstance(st, ast.Assign) else f"_acc{next(_counter)}"
                        it = f"_it{next(_counter)}"
                        a0 = ast.copy_location(ast.Assign(targets=[ast.Name(id=acc, ctx=ast.Store())], value=init, lineno=st.lineno), st)
                        step = ast.Assign(targets=[ast.Name(id=acc, ctx=ast.Store())],
                                          value=ast.Call(func=clone(f), args=[ast.Name(id=acc, ctx=ast.Load()), ast.Name(id=it, ctx=ast.Load())], keywords=[]), lineno=st.lineno)
                        lp = ast.copy_location(ast.For(target=ast.Name(id=it, ctx=ast.Store()), iter=xs, body=[ast.copy_location(step, st)], orelse=[], lineno=st.lineno), st)
                        repl = [a0, lp]
                        if isinstance(st, ast.Return):
                            repl.append(ast.copy_location(ast.Return(value=ast.Name(id=acc, ctx=ast.Load())), st))
                        stmts[i:i + 1] = repl
                        self.notes.append(f"turned a reduce() into its fold loop in {new.name}")
                        i += len(repl)
                        continue
                    i += 1
        ast.fix_missing_locations(new)

    # ------------------------------------------------------------------ comprehensions at statement level -> loops
    def _desugar_comprehensions(self, new: ast.FunctionDef) -> bool:
        """`x = [e for t in it if c]` / `return [...]` (one generator; list, set or dict) becomes the accumulation loop, so that rules read one form"""
        if os.environ.get("VF_NO_DESUGAR"):
            return False
        changed = False
        for st in [n for n in _walk_no_nested(new) if isinstance(n, (ast.Assign, ast.AnnAssign, ast.Return))]:
            v = st.value
            if not isinstance(v, (ast.ListComp, ast.SetComp, ast.DictComp)) or len(v.generators) != 1 or v.generators[0].is_async:
                continue
            if isinstance(st, ast.Assign) and not (len(st.targets) == 1 and isinstance(st.targets[0], ast.Name)):
                continue
            if isinstance(st, ast.AnnAssign) and not isinstance(st.target, ast.Name):
                continue
            g = v.generators[0]
            # the loop variable must not clash with a name the function uses outside the comprehension
            tnames = {n.id for n in ast.walk(g.target) if isinstance(n, ast.Name)}
            outside = {n.id for n in _walk_no_nested(new) if isinstance(n, ast.Name) and not any(n is y for y in ast.walk(v))}
            outside |= {a.arg for a in new.args.args + new.args.kwonlyargs}
            if tnames & outside:
                continue
            if isinstance(st, ast.Return):
                acc = f"_acc{next(_counter)}"
            else:
                acc = (st.targets[0] if isinstance(st, ast.Assign) else st.target).id
                if any(isinstance(n, ast.Name) and n.id == acc for n in ast.walk(v)):
                    continue
            def nm(ctx):
                return ast.Name(id=acc, ctx=ctx)
            if isinstance(v, ast.ListComp):
                init = ast.List(elts=[], ctx=ast.Load())
                step = ast.Expr(value=ast.Call(func=ast.Attribute(value=nm(ast.Load()), attr="append", ctx=ast.Load()), args=[v.elt], keywords=[]))
            elif isinstance(v, ast.SetComp):
                init = ast.Call(func=ast.Name(id="set", ctx=ast.Load()), args=[], keywords=[])
                step = ast.Expr(value=ast.Call(func=ast.Attribute(value=nm(ast.Load()), attr="add", ctx=ast.Load()), args=[v.elt], keywords=[]))
            else:
                init = ast.Dict(keys=[], values=[])
                step = ast.Assign(targets=[ast.Subscript(value=nm(ast.Load()), slice=v.key, ctx=ast.Store())], value=v.value, lineno=st.lineno)
            body = [step]
            for cond in reversed(g.ifs):
                body = [ast.If(test=cond, body=body, orelse=[])]
            loop = ast.For(target=g.target, iter=g.iter, body=body, orelse=[], lineno=st.lineno)
            for n in ast.walk(g.target):
                if isinstance(n, (ast.Name, ast.Tuple, ast.List, ast.Starred)):
                    n.ctx = ast.Store()
            if isinstance(st, ast.AnnAssign):
                first = ast.AnnAssign(target=nm(ast.Store()), annotation=st.annotation, value=init, simple=1, lineno=st.lineno)
            else:
                first = ast.Assign(targets=[nm(ast.Store())], value=init, lineno=st.lineno)
            seq = [first, loop]
            if isinstance(st, ast.Return):
                seq.append(ast.Return(value=nm(ast.Load()), lineno=st.lineno))
            for x in seq:
                ast.copy_location(x, st)
                for y in ast.walk(x):
                    if not hasattr(y, "lineno") and isinstance(y, (ast.expr, ast.stmt)):
                        ast.copy_location(y, st)
            self._replace_stmt(new, st, seq)
            changed = True
        return changed

    # ------------------------------------------------------------------ module constants
    def _module_constants(self, mod, new: ast.FunctionDef) -> None:
        local = _assigned_names(new) | {a.arg for a in new.args.args + new.args.kwonlyargs}
        cache = self.__dict__.setdefault("_modconst_cache", {})
        if id(mod) in cache:
            counts, vals, dirty = cache[id(mod)]
        else:
            counts, vals, dirty = self._scan_module_constants(mod)
            cache[id(mod)] = (counts, vals, dirty)
        self._module_constants_apply(mod, new, local, counts, vals, dirty)

    def _scan_module_constants(self, mod):
        counts: Dict[str, int] = {}
        vals: Dict[str, ast.AST] = {}
        for st in mod.tree.body:
            tg = []
            if isinstance(st, ast.Assign):
                tg = [t for t in st.targets if isinstance(t, ast.Name)]
                v = st.value
            elif isinstance(st, ast.AnnAssign) and isinstance(st.target, ast.Name) and st.value is not None:
                tg = [st.target]
                v = st.value
            for t in tg:
                counts[t.id] = counts.get(t.id, 0) + 1
                vals[t.id] = v
        # names written anywhere else in the module (augmented, subscript stores, global) are not constants
        dirty = set()
        for n in ast.walk(mod.tree):
            if isinstance(n, ast.Global):
                dirty |= set(n.names)
            if isinstance(n, (ast.Subscript, ast.Attribute)) and isinstance(getattr(n, "ctx", None), (ast.Store, ast.Del)):
                b = n
                while isinstance(b, (ast.Subscript, ast.Attribute)):
                    b = b.value
                if isinstance(b, ast.Name):
                    dirty.add(b.id)
            if isinstance(n, ast.Call) and isinstance(n.func, ast.Attribute) and n.func.attr in ("append", "update", "add", "pop", "clear", "setdefault", "extend", "insert") \
                    and isinstance(n.func.value, ast.Name):
                dirty.add(n.func.value.id)
        return counts, vals, dirty

    def _module_constants_apply(self, mod, new, local, counts, vals, dirty) -> None:
        def literal(v) -> bool:
            if isinstance(v, ast.Constant):
                return isinstance(v.value, (str, int, float, bool)) or v.value is None
            if isinstance(v, (ast.Tuple,)):
                return all(literal(x) for x in v.elts)
            if isinstance(v, ast.Dict):
                return all(k is not None and literal(k) for k in v.keys) and all(literal(x) for x in v.values)
            if isinstance(v, ast.Attribute) and isinstance(v.value, ast.Name) and (v.value.id == "Op" or (v.value.id[:1].isupper() and v.value.id in mod.imports)):
                return True       # a member of an imported enum-like class (Op.ADDED, MatchField.community)
            return False

        def table(v, top=True) -> bool:
            """a constant table: dict/list/tuple literal over literals, references to module-level functions / imported names and lambdas"""
            if literal(v):
                return not top
            if isinstance(v, ast.Dict):
                return all(k is not None and literal(k) for k in v.keys) and all(table(x, False) for x in v.values)
            if isinstance(v, (ast.List, ast.Tuple)):
                return all(table(x, False) for x in v.elts)
            if isinstance(v, ast.Name):
                return v.id not in local and v.id not in dirty and (v.id in mod.defs or v.id in mod.imports or v.id in vals)
            if isinstance(v, ast.Lambda):
                return not any(isinstance(n, ast.Name) and n.id in local for n in ast.walk(v.body))
            if isinstance(v, ast.Attribute):
                return table(v.value, False)
            return False
        mapping = {n: v for n, v in vals.items() if counts[n] == 1 and n not in dirty and n not in local and (literal(v) or (isinstance(v, ast.Dict) and table(v))) and n not in self.protected}
        if mapping:
            used = {n.id for n in _walk_no_nested(new) if isinstance(n, ast.Name) and isinstance(n.ctx, ast.Load)}
            mapping = {k: v for k, v in mapping.items() if k in used}
            if mapping:
                new.body = [_Subst(mapping).visit(st) for st in new.body]
        # module-level precompiled patterns: NAME = re.compile(<literal>[, flags]); NAME.sub(r, s) is re.sub(<literal>, r, s[, flags=...])
        RX_METHODS = {"sub": 2, "subn": 2, "match": 1, "search": 1, "fullmatch": 1, "findall": 1, "finditer": 1, "split": 1}
        rx: Dict[str, ast.Call] = {}
        for n, v in vals.items():
            if counts[n] == 1 and n not in dirty and n not in local and n not in self.protected and isinstance(v, ast.Call) and isinstance(v.func, ast.Attribute) and v.func.attr == "compile" and norm_name(v.func.value) == "re" \
                    and v.args and literal(v.args[0]) and all(k.arg == "flags" for k in v.keywords) and len(v.args) <= 2:
                rx[n] = v
        if rx:
            class _Rx(ast.NodeTransformer):
                def visit_Call(self, node):
                    self.generic_visit(node)
                    f = node.func
                    if isinstance(f, ast.Attribute) and isinstance(f.value, ast.Name) and f.value.id in rx and f.attr in RX_METHODS and len(node.args) <= RX_METHODS[f.attr] \
                            and not any(k.arg in ("pos", "endpos") for k in node.keywords):
                        comp = rx[f.value.id]
                        flags = comp.args[1] if len(comp.args) > 1 else next((k.value for k in comp.keywords if k.arg == "flags"), None)
                        call = ast.Call(func=ast.Attribute(value=ast.Name(id="re", ctx=ast.Load()), attr=f.attr, ctx=ast.Load()),
                                        args=[clone(comp.args[0])] + list(node.args), keywords=list(node.keywords) + ([ast.keyword(arg="flags", value=clone(flags))] if flags is not None else []))
                        return ast.copy_location(call, node)
                    return node
            new.body = [_Rx().visit(st) for st in new.body]

    # ------------------------------------------------------------------ copy propagation
    def _copy_propagate(self, new: ast.FunctionDef) -> bool:
        params = {a.arg for a in new.args.args + new.args.kwonlyargs + new.args.posonlyargs}
        if new.args.vararg:
            params.add(new.args.vararg.arg)
        if new.args.kwarg:
            params.add(new.args.kwarg.arg)
        stores: Dict[str, List[ast.AST]] = {}
        bare = {id(n.target) for n in _walk_no_nested(new) if isinstance(n, ast.AnnAssign) and n.value is None}
        for n in _walk_no_nested(new):
            if isinstance(n, ast.Name) and isinstance(n.ctx, (ast.Store, ast.Del)) and id(n) not in bare:
                stores.setdefault(n.id, []).append(n)
            elif isinstance(n, ast.Global):
                for nm in n.names:
                    stores.setdefault(nm, []).extend([n, n])
        # nested functions/lambdas/comprehensions capturing or rebinding names: be conservative about names they store
        for n in ast.walk(new):
            if isinstance(n, (ast.ListComp, ast.SetComp, ast.DictComp, ast.GeneratorExp)):
                for g in n.generators:
                    for t in ast.walk(g.target):
                        if isinstance(t, ast.Name):
                            stores.setdefault(t.id, []).extend([t, t])
        cands = []
        # tuple unpacking of a simple source:  a, b = src   ->  a := src[0], b := src[1]
        for st in list(_walk_no_nested(new)):
            if isinstance(st, ast.Assign) and len(st.targets) == 1 and isinstance(st.targets[0], ast.Tuple) and _simple(st.value) and not isinstance(st.value, ast.Tuple) \
                    and all(isinstance(e, ast.Name) and len(stores.get(e.id, [])) == 1 and e.id not in params and (e.id not in self.protected or self._helper_mode) for e in st.targets[0].elts) \
                    and self._stable(st.value, st, stores, params, new):
                news = []
                for i, e in enumerate(st.targets[0].elts):
                    sub = ast.Subscript(value=clone(st.value), slice=ast.Constant(value=i), ctx=ast.Load())
                    a = ast.Assign(targets=[ast.Name(id=e.id, ctx=ast.Store())], value=sub, lineno=st.lineno)
                    ast.copy_location(a, st)
                    ast.fix_missing_locations(a)
                    news.append(a)
                self._replace_stmt(new, st, news)
                return True
        for st in _walk_no_nested(new):
            if isinstance(st, ast.Assign) and len(st.targets) == 1 and isinstance(st.targets[0], ast.Name):
                x = st.targets[0].id
                if x in params or len(stores.get(x, [])) != 1 or (x in self.protected and not self._helper_mode):
                    continue
                n_loads = sum(1 for n in _walk_no_nested(new) if isinstance(n, ast.Name) and n.id == x and isinstance(n.ctx, ast.Load))
                single_use_literal = n_loads == 1 and isinstance(st.value, (ast.List, ast.Dict, ast.Set, ast.Tuple)) and self._pure_literal(st.value)
                single_use_call = False
                if n_loads == 1 and isinstance(st.value, ast.Call) and not any(isinstance(n, (ast.Yield, ast.YieldFrom, ast.Await, ast.NamedExpr)) for n in ast.walk(st.value)):
                    blk = getattr(st._parent, "body", None)
                    for lst in (getattr(st._parent, "body", None), getattr(st._parent, "orelse", None), getattr(st._parent, "finalbody", None)):
                        if isinstance(lst, list) and st in lst:
                            i = lst.index(st)
                            if i + 1 < len(lst):
                                nxt = lst[i + 1]
                                if isinstance(nxt, (ast.Assign, ast.Return, ast.Expr, ast.AugAssign)) and \
                                        any(isinstance(n, ast.Name) and n.id == x and isinstance(n.ctx, ast.Load) for n in ast.walk(nxt)):
                                    # moving the call into the statement must not move it past another effectful evaluation of that statement: every call that is
                                    # evaluated before the use (comes first in source order and does not contain the use) has to be pure
                                    use = next(n for n in ast.walk(nxt) if isinstance(n, ast.Name) and n.id == x and isinstance(n.ctx, ast.Load))
                                    done: List[ast.AST] = []      # nodes whose evaluation is complete when `use` is read (structural order; positions of moved code are stale)

                                    def post(n_) -> bool:
                                        if n_ is use:
                                            return True
                                        kids = list(ast.iter_child_nodes(n_))
                                        if isinstance(n_, (ast.Assign, ast.AugAssign, ast.AnnAssign)):
                                            kids = [k_ for k_ in kids if k_ is getattr(n_, "value", None)] + [k_ for k_ in kids if k_ is not getattr(n_, "value", None)]
                                        for k_ in kids:
                                            if post(k_):
                                                return True
                                        done.append(n_)
                                        return False
                                    post(nxt)
                                    single_use_call = all(self._pure(n) for n in done if isinstance(n, ast.Call))
                if (self._pure(st.value) or single_use_literal or single_use_call) and self._stable(st.value, st, stores, params, new):
                    cands.append((x, st))
        if not cands:
            return False
        changed = False
        for x, st in cands:
            # all loads of x must be dominated by the assignment: approximate by "textually after and inside the same or a nested block"
            blk_parent = st._parent
            loads = [n for n in _walk_no_nested(new) if isinstance(n, ast.Name) and n.id == x and isinstance(n.ctx, ast.Load)]
            nested_use = any(isinstance(n, ast.Name) and n.id == x for f in ast.walk(new) if isinstance(f, FuncT + (ast.Lambda,)) and f is not new for n in ast.walk(f))
            if nested_use or not loads:
                continue
            ok = True
            for ld in loads:
                if (ld.lineno, ld.col_offset) <= (st.lineno, st.col_offset):
                    ok = False
                    break
                # ld must be within blk_parent
                p = ld
                inside = False
                while p is not None:
                    if p is blk_parent:
                        inside = True
                        break
                    p = getattr(p, "_parent", None)
                if not inside:
                    ok = False
                    break
            if not ok:
                continue
            for ld in loads:
                self._replace(new, ld, clone(st.value))
            self._replace_stmt(new, st, [])
            changed = True
            # one at a time (parents are stale now)
            return True
        return changed

    def _pure_literal(self, e: ast.AST) -> bool:
        for n in ast.walk(e):
            if isinstance(n, (ast.Call, ast.Yield, ast.YieldFrom, ast.Await, ast.NamedExpr, ast.Lambda, ast.ListComp, ast.SetComp, ast.DictComp, ast.GeneratorExp)):
                return False
        return True

    def _pure(self, e: ast.AST) -> bool:
        for n in ast.walk(e):
            if isinstance(n, (ast.Yield, ast.YieldFrom, ast.Await, ast.NamedExpr, ast.Lambda, ast.ListComp, ast.SetComp, ast.DictComp, ast.GeneratorExp, ast.Starred)):
                return False
            if isinstance(n, ast.Call):
                nm = n.func.id if isinstance(n.func, ast.Name) else None
                if nm not in PURE_CALLS:
                    # method calls that only read: startswith/endswith/get on simple receivers
                    if isinstance(n.func, ast.Attribute) and n.func.attr in ("startswith", "endswith", "get", "count", "strip", "lower", "split", "format", "join", "keys", "items", "values"):
                        continue
                    return False
        if isinstance(e, (ast.List, ast.Dict, ast.Set)) or (isinstance(e, ast.Call) and isinstance(e.func, ast.Name) and e.func.id in ("list", "dict", "set", "odict")):
            return False  # a fresh mutable container has identity
        return True

    def _stable(self, e: ast.AST, st: ast.stmt, stores, params, fn) -> bool:
        """every name read by e keeps its value between the assignment and the uses: parameters never rebound,
        single-assignment locals, loop targets of loops enclosing the assignment, module-level names"""
        enclosing_targets = set()
        p = getattr(st, "_parent", None)
        while p is not None and p is not fn:
            if isinstance(p, (ast.For, ast.AsyncFor)):
                for t in ast.walk(p.target):
                    if isinstance(t, ast.Name):
                        enclosing_targets.add(t.id)
            if isinstance(p, (ast.With, ast.AsyncWith)):
                for it in p.items:
                    if it.optional_vars is not None:
                        for t in ast.walk(it.optional_vars):
                            if isinstance(t, ast.Name):
                                enclosing_targets.add(t.id)
            p = getattr(p, "_parent", None)
        for n in ast.walk(e):
            if isinstance(n, ast.Name) and isinstance(n.ctx, ast.Load):
                k = len(stores.get(n.id, []))
                if n.id in params:
                    if k > 0:
                        return False
                elif k == 0:
                    continue  # module-level / builtin
                elif k == 1 and (n.id in enclosing_targets):
                    continue
                elif k == 1:
                    # another single-assignment local: fine if assigned before
                    s0 = stores[n.id][0]
                    if (getattr(s0, "lineno", 10 ** 9), getattr(s0, "col_offset", 0)) < (st.lineno, st.col_offset) and not self._is_loop_target(s0):
                        continue
                    return False
                else:
                    return False
        # the value must not be an object that is mutated later through the alias or its source (subscript stores on x)
        return True

    @staticmethod
    def _is_loop_target(name_node) -> bool:
        p = getattr(name_node, "_parent", None)
        while p is not None:
            if isinstance(p, (ast.For, ast.AsyncFor)) and any(n is name_node for n in ast.walk(p.target)):
                return True
            if isinstance(p, ast.stmt):
                return False
            p = getattr(p, "_parent", None)
        return False


def unroll_literal_loops(fn: ast.FunctionDef, max_items: int = 6, names_ok: bool = False) -> ast.FunctionDef:
    """a copy of `fn` in which every `for <targets> in (<literal>, <literal>, ...)` over a short tuple/list of constants (or of tuples of constants)
    is replaced by its iterations in sequence, the targets substituted — a table-driven loop and its spelled-out form read the same.
    Loops containing break/continue are left alone.  Used on demand by rules whose clause is about the sequence of iterations."""
    new = clone(fn)

    def const(e):
        return isinstance(e, ast.Constant) or (isinstance(e, (ast.Tuple, ast.List)) and all(const(x) for x in e.elts)) or \
            (isinstance(e, ast.Attribute) and isinstance(e.value, ast.Name) and e.value.id == "Op") or (names_ok and isinstance(e, ast.Name))

    def table_of(name, loop):
        """names_ok: `rows = ((...), (...))` assigned once, not otherwise stored, and the row names not rebound inside the loop"""
        defs = [n for n in _walk_no_nested(new) if isinstance(n, ast.Assign) and len(n.targets) == 1 and isinstance(n.targets[0], ast.Name) and n.targets[0].id == name]
        stores = [n for n in _walk_no_nested(new) if isinstance(n, ast.Name) and n.id == name and isinstance(n.ctx, (ast.Store, ast.Del))]
        if len(defs) != 1 or len(stores) != 1 or not isinstance(defs[0].value, (ast.Tuple, ast.List)):
            return None
        used = {x.id for x in ast.walk(defs[0].value) if isinstance(x, ast.Name)}
        rebound = {x.id for x in ast.walk(loop) if isinstance(x, ast.Name) and isinstance(x.ctx, (ast.Store, ast.Del))}
        return defs[0].value if not (used & rebound) else None

    def decontinue(stmts):
        """`if c: continue; REST` -> `if not c: REST` (only this top-level shape)"""
        out = []
        for i, st_ in enumerate(stmts):
            if isinstance(st_, ast.If) and not st_.orelse and len(st_.body) == 1 and isinstance(st_.body[0], ast.Continue):
                rest = decontinue(list(stmts[i + 1:]))
                if rest is None:
                    return None
                if rest:
                    out.append(ast.copy_location(ast.If(test=ast.UnaryOp(op=ast.Not(), operand=st_.test), body=rest, orelse=[]), st_))
                return out
            if any(isinstance(n, (ast.Continue, ast.Break)) for n in _walk_no_nested(st_)) and not isinstance(st_, (ast.For, ast.While)):
                return None
            out.append(st_)
        return out

    def bind(t, v, out):
        if isinstance(t, ast.Name):
            out[t.id] = v
            return True
        if isinstance(t, (ast.Tuple, ast.List)) and isinstance(v, (ast.Tuple, ast.List)) and len(t.elts) == len(v.elts):
            return all(bind(a, b, out) for a, b in zip(t.elts, v.elts))
        return False
    changed = True
    rounds = 0
    while changed and rounds < 10:
        changed = False
        rounds += 1
        for st in [n for n in _walk_no_nested(new) if isinstance(n, ast.For)]:
            it = st.iter
            if names_ok and isinstance(it, ast.Name):
                it = table_of(it.id, st) or it
            if not isinstance(it, (ast.Tuple, ast.List)) or not it.elts or len(it.elts) > max_items or not all(const(e) for e in it.elts) or st.orelse:
                continue
            body = list(st.body)
            if any(isinstance(n, (ast.Break, ast.Continue)) for n in _walk_no_nested(st) if n is not st):
                body = decontinue(body) if names_ok else None
                if body is None:
                    continue
            seq = []
            ok = True
            for e in it.elts:
                m = {}
                if not bind(st.target, e, m):
                    ok = False
                    break
                for b in body:
                    seq.append(_Subst(m).visit(clone(b)))
            if not ok:
                continue
            Canonicalizer._replace_stmt(new, st, seq)
            changed = True
            break
    set_parents(new, getattr(fn, "_parent", None))
    ast.fix_missing_locations(new)
    number_nodes(new)
    return new
