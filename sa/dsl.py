"""E8 -- front-end for annet's rule texts (.rul / .order / .deploy / ACL / implicit literals):
Mako control lines kept as guards, offside tree, row/%param split, token classes of the rule
grammar, and the *specification* of the rule language (groups / reverse template) that the
rules compare shipped rows and the compiler's macro fragments against."""
from __future__ import annotations

import re
from typing import Dict, Iterable, List, Optional, Tuple

from .repo import AnchorError

MAKO_CTRL = re.compile(r"^\s*%\s*(if|elif|else|endif|for|endfor)\b\s*(.*?)\s*:?\s*(#.*)?$")
MAKO_CTRL_HEAD = re.compile(r"^\s*%\s*(if|elif|else|endif|for|endfor)\b")


class Line:
    __slots__ = ("no", "indent", "text", "conds", "raw")

    def __init__(self, no: int, indent: int, text: str, conds: Tuple[Tuple[str, bool], ...], raw: str):
        self.no = no
        self.indent = indent
        self.text = text
        self.conds = conds
        self.raw = raw

    def __repr__(self):
        return f"L{self.no}:{' ' * self.indent}{self.text} {list(self.conds) if self.conds else ''}"


class TextError(Exception):
    def __init__(self, no: int, msg: str):
        super().__init__(f"line {no}: {msg}")
        self.no = no
        self.msg = msg


def read_lines(text: str, comments: Tuple[str, ...] = ("#",), mako: bool = True) -> Tuple[List[Line], List[Tuple[int, str]]]:
    """physical lines -> logical rule lines with Mako guards.  Returns (lines, problems).
    Mirrors DefaultRulebookProvider._escape_mako (whole-line '#' comments dropped) and
    syntax._split_rows (a line starting with optional blanks + '%' that is not '%context' continues
    the previous row)."""
    out: List[Line] = []
    problems: List[Tuple[int, str]] = []
    stack: List[List[Tuple[str, bool]]] = []   # each frame: list of (cond, polarity) accumulated for if/elif/else chain
    frames: List[Dict] = []
    for no, raw in enumerate(text.split("\n"), 1):
        stripped = raw.strip()
        if not stripped:
            continue
        if any(stripped.startswith(c) for c in comments):
            continue
        m = MAKO_CTRL.match(raw) if mako else None
        if m and MAKO_CTRL_HEAD.match(raw):
            kw, cond = m.group(1), (m.group(2) or "").strip()
            if kw == "if":
                frames.append({"no": no, "prev": [], "cur": (cond, True), "seen_else": False})
            elif kw in ("elif", "else"):
                if not frames:
                    problems.append((no, f"%{kw} without %if"))
                    continue
                fr = frames[-1]
                if fr["seen_else"]:
                    problems.append((no, f"%{kw} after %else"))
                fr["prev"].append((fr["cur"][0], False)) if fr["cur"] else None
                if kw == "elif":
                    fr["cur"] = (cond, True)
                else:
                    fr["cur"] = None
                    fr["seen_else"] = True
            elif kw == "endif":
                if not frames:
                    problems.append((no, "%endif without %if"))
                    continue
                frames.pop()
            else:
                problems.append((no, f"mako %{kw} is not supported by the analysis"))
            continue
        conds: List[Tuple[str, bool]] = []
        for fr in frames:
            conds.extend(fr["prev"])
            if fr["cur"]:
                conds.append(fr["cur"])
        indent = len(raw) - len(raw.lstrip(" \t"))
        if "\t" in raw[:indent]:
            indent = len(raw[:indent].expandtabs(8))
        is_cont = stripped.startswith("%") and not stripped.startswith("%context")
        if is_cont and out and tuple(conds) == out[-1].conds:
            out[-1].text += " " + stripped
            continue
        out.append(Line(no, indent, stripped, tuple(conds), raw))
    for fr in frames:
        problems.append((fr["no"], "%if without %endif"))
    return out, problems


class Row:
    """one rule row in the offside tree"""
    __slots__ = ("line", "raw", "row", "params", "type", "children", "parent", "conds", "context")

    def __init__(self, line: Line):
        self.line = line
        self.raw = line.text
        self.row, self.params = split_params(line.text)
        self.type = "normal"
        if self.row.startswith("!"):
            self.type = "ignore"
            self.row = self.row[1:].strip()
        elif self.row.startswith("%context=") or self.raw.startswith("%context="):
            self.type = "context"
        self.children: List["Row"] = []
        self.parent: Optional["Row"] = None
        self.conds = line.conds
        self.context: Dict[str, str] = {}

    def path(self) -> List[str]:
        p, n = [], self
        while n is not None:
            p.append(n.row)
            n = n.parent
        return list(reversed(p))

    def __repr__(self):
        return f"Row({self.row!r} %{self.params} L{self.line.no})"


PARAM_RE = re.compile(r"\s%([a-zA-Z_]\w*)(?:=([^\s]*))?")


def split_params(raw_rule: str) -> Tuple[str, Dict[str, str]]:
    """mirror of syntax._parse_raw_rule (without the scheme)"""
    params: Dict[str, str] = {}
    if "%" in raw_rule and not raw_rule.startswith("%context="):
        index = raw_rule.index("%")
        params = {k: (v if len(v) != 0 else "1") for (k, v) in PARAM_RE.findall(raw_rule)}
        if params:
            raw_rule = raw_rule[:index].strip()
    row = re.sub(r"\s+", " ", raw_rule.strip())
    return row, params


def build_tree(lines: List[Line], select: Optional[callable] = None) -> Tuple[List[Row], List[Tuple[int, str]]]:
    """offside tree of the (selected) lines; problems = inconsistent dedents.
    `select(conds) -> bool` chooses a Mako branch combination; None = union of all branches."""
    roots: List[Row] = []
    problems: List[Tuple[int, str]] = []
    stack: List[Tuple[int, Row]] = []
    for ln in lines:
        if select is not None and not select(ln.conds):
            continue
        r = Row(ln)
        while stack and stack[-1][0] >= ln.indent:
            stack.pop()
        if stack:
            # consistent dedent: the indent must equal an indent seen at this depth
            r.parent = stack[-1][1]
            sib = r.parent.children
            if sib and sib[-1].line.indent != ln.indent and all(s.line.indent != ln.indent for s in sib):
                if select is not None:
                    problems.append((ln.no, f"indentation {ln.indent} matches no sibling of block {r.parent.row!r}"))
            r.parent.children.append(r)
        else:
            if roots and roots[0].line.indent != ln.indent and select is not None:
                problems.append((ln.no, f"top-level indentation {ln.indent} differs from {roots[0].line.indent}"))
            roots.append(r)
        stack.append((ln.indent, r))
    return roots, problems


def walk_rows(rows: Iterable[Row]) -> Iterable[Row]:
    for r in rows:
        yield r
        yield from walk_rows(r.children)


# ------------------------------------------------------------------ rule language specification
# token classes
T_WORD, T_STAR, T_STAR_RE, T_TILDE, T_TILDE_RE, T_NAMED, T_FLAG, T_ELLIPSIS, T_REGEX, T_GLUED_STAR, T_GLUED_TILDE, T_BAD_RE = (
    "word", "*", "*/re/", "~", "~/re/", "<name>", "(?i)", "...", "regex", "glued*", "glued~", "bad-regex")

REGEX_META = set("()[]|+?\\^$")


class Tok:
    __slots__ = ("cls", "text", "regex")

    def __init__(self, cls: str, text: str, regex: Optional[str] = None):
        self.cls = cls
        self.text = text
        self.regex = regex

    def __repr__(self):
        return f"{self.cls}:{self.text}"


def _classify(p: str, last: bool) -> List[Tok]:
    if p == "*":
        return [Tok(T_STAR, p)]
    m = re.fullmatch(r"\*/(\S+)/(\S*)", p)
    if m:
        out = [Tok(T_STAR_RE, "*/" + m.group(1) + "/", m.group(1))]
        if m.group(2):
            suf = _classify(m.group(2), last)
            for t in suf:
                if t.cls in (T_STAR, T_STAR_RE, T_NAMED):
                    return [Tok(T_GLUED_STAR, p)]
            out.extend(suf)
        return out
    if p == "~" and last:
        return [Tok(T_TILDE, p)]
    if p.startswith("~/") and p.endswith("/") and len(p) > 3:
        return [Tok(T_TILDE_RE, p, p[2:-1])]
    if re.fullmatch(r"<\w+>", p):
        return [Tok(T_NAMED, p)]
    if p == "..." and last:
        return [Tok(T_ELLIPSIS, p)]
    if last and len(p) > 1 and p.endswith("~") and "~" not in p[:-1] and "*" not in p:
        # trailing word~ : "the rest of the line glued to this prefix" (accepted idiom, e.g. name:~)
        return _classify(p[:-1], False) + [Tok(T_TILDE, "~")]
    if last and len(p) > 3 and p.endswith("...") and "*" not in p and "~" not in p:
        return _classify(p[:-3], False) + [Tok(T_ELLIPSIS, "...")]
    if "~" in p:
        return [Tok(T_GLUED_TILDE, p)]
    if "*" in p:
        # a star inside a token is a regex star on the previous atom.  After '.', ')' , ']' it is the
        # deliberate regex idiom; after a letter/digit/'=' it is a misplaced placeholder
        if p.startswith("*"):
            return [Tok(T_GLUED_STAR, p)]
        if re.search(r"[A-Za-z0-9=:_\-/]\*", p) and not re.search(r"[\[\(\\]", p):
            return [Tok(T_GLUED_STAR, p)]
        return [Tok(T_REGEX, p, p)]
    if any(ch in REGEX_META for ch in p):
        return [Tok(T_REGEX, p, p)]
    return [Tok(T_WORD, p)]


def tokenize_row(row: str) -> List[Tok]:
    """split a rule row into tokens of the rule grammar (specification side).  `~/re/` may contain
    blanks, everything else is blank-separated."""
    toks: List[Tok] = []
    s = row.strip()
    flag = False
    if "(?i)" in s:
        s = s.replace("(?i)", "").strip()
        flag = True
    i = 0
    parts: List[str] = []
    # keep ~/.../ together
    while i < len(s):
        if s[i].isspace():
            i += 1
            continue
        if s.startswith("~/", i):
            j = s.find("/", i + 2)
            # the regex ends at the last '/' before the next blank-or-end that closes it; mirror r"~/(((?!~/).)+)/"
            m = re.match(r"~/(((?!~/).)+)/", s[i:])
            if m:
                parts.append(m.group(0))
                i += len(m.group(0))
                continue
        j = i
        while j < len(s) and not s[j].isspace():
            j += 1
        parts.append(s[i:j])
        i = j
    if flag:
        toks.append(Tok(T_FLAG, "(?i)"))
    for k, p in enumerate(parts):
        last = (k == len(parts) - 1)
        toks.extend(_classify(p, last))
    return toks


def spec_group_count(row: str) -> Optional[int]:
    """number of capture groups (= key length) the rule language gives a row: the group count of the row's
    specification regex (one per `*`/`*/re/`, one for a trailing `~`, one per <name>; user parentheses capture only when
    the row has no `*` at all)"""
    try:
        pat, flags = spec_compile(row)
        return re.compile(pat, flags).groups
    except re.error:
        return None


def spec_reverse_placeholders(row: str, prefix: str) -> int:
    """number of '{}' the removal template of `row` has under the rule language:
    every `*` or `*/re/` (wherever it stands -- this is where a glued star shows up) and a trailing `~`"""
    r = row
    if r.startswith(prefix + " "):
        r = r[len(prefix) + 1:]
    n = 0
    if r.endswith("~"):
        n += 1
        r = r[:-1]
    n += len(re.findall(r"\*(/\S+/)?", r))
    return n


def regex_parses(rx: str) -> Optional[str]:
    try:
        re.compile(rx)
        return None
    except re.error as e:
        return str(e)


def spec_compile(row: str):
    """the regex the rule language assigns to a row (specification; C07.R1 checks that compile_row_regexp's fragments
    have these languages).  Returns (pattern, flags)."""
    flags = 0
    if "(?i)" in row:
        row = row.replace("(?i)", "")
        flags |= re.IGNORECASE
    if "*" in row:
        row = re.sub(r"\(([^\?])", r"(?:\1", row)
        row = re.sub(r"\*/(\S+)/", r"(\1)", row)
        row = re.sub(r"(^|\s)\*", r"\1([^\\s]+)", row)
    row = re.sub(r"<(\w+)>", r"(?P<\1>\\w+)", row)
    if row.endswith("~"):
        row = row[:-1] + "(.+)"
    elif row.endswith("..."):
        row = row[:-3]
    elif "~/" in row:
        row = re.sub(r"~/(((?!~/).)+)/", r"\1", row)
    else:
        row += r"(?:\s|$)"
    row = re.sub(r"\s+", r"\\s+", row)
    return "^" + row, flags


def row_regex_error(row: str) -> Optional[str]:
    try:
        pat, flags = spec_compile(row)
        re.compile(pat, flags)
        return None
    except re.error as e:
        return str(e)
